"""Rule <prop>.DA, appended to every property: definite assignment in the functions the property's own rules anchor in.

A rule of the form 'statement S is guarded by G' or 'call C precedes D' vouches for a mechanism only if the function gets that far.  A
definition that was deleted, moved under a condition or into another scope (`ordered = sorted(...)`, `other = OTHER_SIDE[side]`,
`prior_ent = None`) leaves every such rule satisfied while the step dies with UnboundLocalError - for a sync step that means: caught by the
loop, backed off, retried, for ever.  This rule closes that hole structurally: no path from a function's entry reaches a read of a local
without passing an assignment of it (sa/defassign.py).
"""
from __future__ import annotations

import ast
from typing import Dict, List, Set

from .ctx import Ctx, short
from .report import Report
from . import defassign
from .util import with_private_helpers

# latent findings on the pinned tree, read and confirmed: none breaks a listed property (the step's catch-all turns them into a punt)
# keyed by (function, pattern of the local's defining expression) so that renaming the local changes nothing
LATENT = {
    ("SyncManager.upload_synced", "open($F, 'rb')"): "read in `finally` when open() itself raised (FileNotFoundError arm): UnboundLocalError replaces `return False`",
    ("SyncManager.handle_hash_conflict", "self.state.split($S)"): "read in the CloudException handler when state.split() itself raised",
    ("SyncManager.handle_hash_conflict", "({}, {})"): "handler reachable (conservatively) before the first statement of the try completed",
}


def _latent(ctx, f, key_f, name):
    from . import pat
    vals = []
    for n in ctx.own_nodes(f):
        if isinstance(n, (ast.Assign, ast.AnnAssign)) and getattr(n, "value", None) is not None:
            tg = n.targets if isinstance(n, ast.Assign) else [n.target]
            names = set()
            for t in tg:
                defassign._targets(t, names)
            if name in names:
                vals.append(n.value)
    for (kf, patt), why in LATENT.items():
        if kf == key_f and vals and all(pat.match(patt, v) is not None for v in vals):
            return why
    return None


_MODNAMES: Dict[str, Set[str]] = {}


def _function_at(ctx: Ctx, index, loc: str):
    try:
        rel, ln = loc.rsplit(":", 1)
        ln = int(ln)
    except ValueError:
        return None
    best = None
    for f in index.get(rel, []):
        lo, hi = f.node.lineno, getattr(f.node, "end_lineno", f.node.lineno)
        if lo <= ln <= hi and (best is None or lo >= best.node.lineno):
            best = f
    return best


def _mangle(cls_name: str, attr: str) -> str:
    if attr.startswith("__") and not attr.endswith("__"):
        return "_%s%s" % (cls_name.lstrip("_"), attr)
    return attr


def _class_attr_check(ctx: Ctx, rep: Report, rid: str, classes):
    """Every `self.X` a class reads is assigned somewhere in the class or its analysed bases (or is a method / property / class attribute):
    deleting the only initialisation (`self.children = {}`) cannot go unnoticed.  Classes with bases outside the program, with
    __getattr__/__getattribute__, or that write through setattr(self, ...)/self.__dict__ are skipped (their attribute set is open)."""
    for c in classes:
        chain = [k for k in c.mro] or [c]
        # subclasses may define what a base reads (template methods): include them
        fam = list(chain)
        for k in c.all_subclasses() if hasattr(c, "all_subclasses") else []:
            if k not in fam:
                fam.append(k)
        open_set = False
        for k in chain:
            if [b for b in k.ext_bases if b.split(".")[-1] not in ("object", "ABC", "Generic", "Protocol")]:
                open_set = True
            if k.lookup("__getattr__") or k.lookup("__getattribute__"):
                open_set = True
        defined = set()
        methods = []
        for k in fam:
            defined |= set(k.methods) | set(k.getters) | set(k.setters) | set(k.class_attrs)
            defined |= {a for a, v in getattr(k, "class_ann", {}).items() if a in k.class_attrs}
            methods += list(k.methods.values()) + list(k.getters.values()) + list(k.setters.values())
        for m in methods:
            sn = getattr(m, "self_name", None)
            if not sn or isinstance(m.node, ast.Lambda):
                continue
            for x in ctx.own_nodes(m):
                if isinstance(x, ast.Attribute) and isinstance(x.value, ast.Name) and x.value.id == sn and isinstance(x.ctx, (ast.Store,)):
                    defined.add(_mangle(m.cls.name if m.cls else c.name, x.attr))
                if isinstance(x, ast.Call) and isinstance(x.func, ast.Name) and x.func.id in ("setattr", "delattr") and x.args and isinstance(x.args[0], ast.Name) and x.args[0].id == sn:
                    open_set = True
                if isinstance(x, ast.Attribute) and x.attr == "__dict__" and isinstance(x.value, ast.Name) and x.value.id == sn:
                    open_set = True
        if open_set:
            continue
        seen = set()
        for m in [mm for k in chain for mm in list(k.methods.values()) + list(k.getters.values()) + list(k.setters.values())]:
            sn = getattr(m, "self_name", None)
            if not sn or isinstance(m.node, ast.Lambda) or m.kind in ("static", "class"):
                continue
            for x in ctx.own_nodes(m):
                if isinstance(x, ast.Attribute) and isinstance(x.value, ast.Name) and x.value.id == sn and isinstance(x.ctx, ast.Load):
                    nm = _mangle(m.cls.name if m.cls else c.name, x.attr)
                    if nm in defined or x.attr in defined or nm.startswith("__") and nm.endswith("__") or nm in seen:
                        continue
                    seen.add(nm)
                    rep.violation(rid, "%s|self.%s" % (short(c.qname), x.attr), ctx.line(m, x),
                                  "`self.%s` is read in %s but no method of %s (or of its bases / subclasses) assigns it and it is no method, property or class attribute: "
                                  "AttributeError at run time" % (x.attr, short(m.qname), c.name), func=m.qname)
        if not seen:
            rep.ok(rid, "%s|attributes" % short(c.qname), c.methods.get("__init__") or next(iter(c.methods.values())), "every self attribute read is assigned somewhere", nontrivial=False)


def anchored_functions(rep: Report):
    """qualified names of the functions apply() analysed for this report (recorded there)."""
    return list(rep.extra.get("anchored_functions", []))


def apply(ctx: Ctx, rep: Report):
    rid = "%s.DA" % rep.prop
    index: Dict[str, List] = {}
    for f in ctx.prog.functions.values():
        if not isinstance(f.node, ast.Lambda):
            index.setdefault(f.module.relpath, []).append(f)
    funcs = {}
    for i in list(rep.instances):
        f = None
        if i.func and i.func in ctx.prog.functions:
            f = ctx.prog.functions[i.func]
        elif isinstance(i.loc, str):
            f = _function_at(ctx, index, i.loc)
        if f is None or isinstance(f.node, ast.Lambda) or ".tests." in f.module.name:
            continue
        for h in with_private_helpers(ctx, f):
            funcs[h.qname] = h
    rep.extra["anchored_functions"] = sorted(funcs)
    rep.rule(rid, "definite assignment: in every function this property's rules anchor in (%d today), no local can be read before it is assigned - a deleted / "
             "mis-scoped definition cannot leave the other rules satisfied while the step dies with UnboundLocalError" % len(funcs), expect_min=1)
    for q in sorted(funcs):
        f = funcs[q]
        g = ctx.cfg(f)
        gl: Set[str] = set()
        for x in ctx.own_nodes(f):
            if isinstance(x, (ast.Global, ast.Nonlocal)):
                gl |= set(x.names)
        cache = ctx.__dict__.setdefault("_da_cache", {})
        if q not in cache:
            cache[q] = defassign.undefined_uses(g, set(f.all_param_names()), set(), gl)
        bad = cache[q]
        sq = short(q)
        key_f = ".".join(q.split(".")[-2:])
        n_bad = 0
        for name, node, path in bad:
            why = _latent(ctx, f, key_f, name)
            if why:
                rep.note(rid, "%s|%s" % (sq, name), ctx.line(f, node.ast) if node.ast is not None else f.loc(), "latent, listed: " + why)
                continue
            n_bad += 1
            rep.violation(rid, "%s|%s" % (sq, name), ctx.line(f, node.ast) if node.ast is not None else f.loc(),
                          "local `%s` of %s can be read before it is assigned (path through lines %s): the function raises UnboundLocalError there instead of doing what "
                          "the rules of this property check" % (name, sq, [g.nodes[i].lineno for i in path if g.nodes[i].lineno][-6:]), func=q)
        # names nothing binds (the only definition was deleted / a typo): NameError at run time
        mod = f.module
        if not mod.star_imports:
            known = set(f.all_param_names()) | gl
            if mod.name not in _MODNAMES:
                _MODNAMES[mod.name] = defassign.module_level_names(mod.tree)
            known |= _MODNAMES[mod.name]
            p = f.parent
            while p is not None:
                known |= set(p.all_param_names())
                for n_ in ctx.cfg(p).nodes if not isinstance(p.node, ast.Lambda) else []:
                    known |= defassign.assigned_in(n_)
                p = p.parent
            if f.cls is not None and f.cls.outer_func is not None:
                p = f.cls.outer_func
                while p is not None:
                    known |= set(p.all_param_names())
                    for n_ in ctx.cfg(p).nodes:
                        known |= defassign.assigned_in(n_)
                    p = p.parent
            ucache = ctx.__dict__.setdefault("_da_ucache", {})
            if q not in ucache:
                ucache[q] = defassign.unknown_names(g, known)
            for name, node in ucache[q]:
                n_bad += 1
                rep.violation(rid, "%s|%s" % (sq, name), ctx.line(f, node.ast) if node.ast is not None else f.loc(),
                              "`%s` is read in %s but bound nowhere (no local, parameter, module-level name or builtin of that name): NameError at run time" % (name, sq), func=q)
        if not n_bad:
            rep.ok(rid, sq, f, "all locals definitely assigned before use", nontrivial=False)
    classes = []
    for f in funcs.values():
        if f.cls is not None and f.cls not in classes and f.cls.outer_func is None:
            classes.append(f.cls)
    _class_attr_check(ctx, rep, rid, classes)
