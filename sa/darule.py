"""Rule <prop>.DA, appended to every property: definite assignment in the functions the property's own rules anchor in.

A rule of the form 'statement S is guarded by G' or 'call C precedes D' vouches for a mechanism only if the function gets that far.  A
definition that was deleted, moved under a condition or into another scope (`ordered = sorted(...)`, `other = OTHER_SIDE[side]`,
`prior_ent = None`) leaves every such rule satisfied while the step dies with UnboundLocalError - for a sync step that means: caught by the
loop, backed off, retried, for ever.  This rule closes that hole structurally: no path from a function's entry reaches a read of a local
without passing an assignment of it (sa/defassign.py).
"""
from __future__ import annotations

import ast
from typing import Dict, List, Set

from .ctx import Ctx, short
from .report import Report
from . import defassign
from .util import with_private_helpers

# latent findings on the pinned tree, read and confirmed: none breaks a listed property (the step's catch-all turns them into a punt)
# keyed by (function, pattern of the local's defining expression) so that renaming the local changes nothing
LATENT = {
    ("SyncManager.upload_synced", "open($F, 'rb')"): "read in `finally` when open() itself raised (FileNotFoundError arm): UnboundLocalError replaces `return False`",
    ("SyncManager.handle_hash_conflict", "self.state.split($S)"): "read in the CloudException handler when state.split() itself raised",
    ("SyncManager.handle_hash_conflict", "({}, {})"): "handler reachable (conservatively) before the first statement of the try completed",
}


def _latent(ctx, f, key_f, name):
    from . import pat
    vals = []
    for n in ctx.own_nodes(f):
        if isinstance(n, (ast.Assign, ast.AnnAssign)) and getattr(n, "value", None) is not None:
            tg = n.targets if isinstance(n, ast.Assign) else [n.target]
            names = set()
            for t in tg:
                defassign._targets(t, names)
            if name in names:
                vals.append(n.value)
    for (kf, patt), why in LATENT.items():
        if kf == key_f and vals and all(pat.match(patt, v) is not None for v in vals):
            return why
    return None


_MODNAMES: Dict[str, Set[str]] = {}


def _function_at(ctx: Ctx, index, loc: str):
    try:
        rel, ln = loc.rsplit(":", 1)
        ln = int(ln)
    except ValueError:
        return None
    best = None
    for f in index.get(rel, []):
        lo, hi = f.node.lineno, getattr(f.node, "end_lineno", f.node.lineno)
        if lo <= ln <= hi and (best is None or lo >= best.node.lineno):
            best = f
    return best


def apply(ctx: Ctx, rep: Report):
    rid = "%s.DA" % rep.prop
    index: Dict[str, List] = {}
    for f in ctx.prog.functions.values():
        if not isinstance(f.node, ast.Lambda):
            index.setdefault(f.module.relpath, []).append(f)
    funcs = {}
    for i in list(rep.instances):
        f = None
        if i.func and i.func in ctx.prog.functions:
            f = ctx.prog.functions[i.func]
        elif isinstance(i.loc, str):
            f = _function_at(ctx, index, i.loc)
        if f is None or isinstance(f.node, ast.Lambda) or ".tests." in f.module.name:
            continue
        for h in with_private_helpers(ctx, f):
            funcs[h.qname] = h
    rep.rule(rid, "definite assignment: in every function this property's rules anchor in (%d today), no local can be read before it is assigned - a deleted / "
             "mis-scoped definition cannot leave the other rules satisfied while the step dies with UnboundLocalError" % len(funcs), expect_min=1)
    for q in sorted(funcs):
        f = funcs[q]
        g = ctx.cfg(f)
        gl: Set[str] = set()
        for x in ctx.own_nodes(f):
            if isinstance(x, (ast.Global, ast.Nonlocal)):
                gl |= set(x.names)
        bad = defassign.undefined_uses(g, set(f.all_param_names()), set(), gl)
        sq = short(q)
        key_f = ".".join(q.split(".")[-2:])
        n_bad = 0
        for name, node, path in bad:
            why = _latent(ctx, f, key_f, name)
            if why:
                rep.note(rid, "%s|%s" % (sq, name), ctx.line(f, node.ast) if node.ast is not None else f.loc(), "latent, listed: " + why)
                continue
            n_bad += 1
            rep.violation(rid, "%s|%s" % (sq, name), ctx.line(f, node.ast) if node.ast is not None else f.loc(),
                          "local `%s` of %s can be read before it is assigned (path through lines %s): the function raises UnboundLocalError there instead of doing what "
                          "the rules of this property check" % (name, sq, [g.nodes[i].lineno for i in path if g.nodes[i].lineno][-6:]), func=q)
        # names nothing binds (the only definition was deleted / a typo): NameError at run time
        mod = f.module
        if not mod.star_imports:
            known = set(f.all_param_names()) | gl
            if mod.name not in _MODNAMES:
                _MODNAMES[mod.name] = defassign.module_level_names(mod.tree)
            known |= _MODNAMES[mod.name]
            p = f.parent
            while p is not None:
                known |= set(p.all_param_names())
                for n_ in ctx.cfg(p).nodes if not isinstance(p.node, ast.Lambda) else []:
                    known |= defassign.assigned_in(n_)
                p = p.parent
            if f.cls is not None and f.cls.outer_func is not None:
                p = f.cls.outer_func
                while p is not None:
                    known |= set(p.all_param_names())
                    for n_ in ctx.cfg(p).nodes:
                        known |= defassign.assigned_in(n_)
                    p = p.parent
            for name, node in defassign.unknown_names(g, known):
                n_bad += 1
                rep.violation(rid, "%s|%s" % (sq, name), ctx.line(f, node.ast) if node.ast is not None else f.loc(),
                              "`%s` is read in %s but bound nowhere (no local, parameter, module-level name or builtin of that name): NameError at run time" % (name, sq), func=q)
        if not n_bad:
            rep.ok(rid, sq, f, "all locals definitely assigned before use", nontrivial=False)
