"""Effect summaries over the call graph: which functions may (transitively) mutate a provider / write storage."""
from __future__ import annotations

import ast
from typing import Dict, Iterable, List, Set, Tuple

from .model import FuncInfo
from .ctx import Ctx
from .sides import MUTATING_API


class Effects:
    def __init__(self, ctx: Ctx):
        self.ctx = ctx
        p = ctx.prog
        self.provider_q = {p.cls("Provider").qname} | {c.qname for c in p.cls("Provider").all_subclasses()}
        self.storage_q = {p.cls("Storage").qname} | {c.qname for c in p.cls("Storage").all_subclasses()}
        self._direct: Dict[str, List[ast.Call]] = {}
        self._may: Dict[str, bool] = {}

    def _recv_is(self, f: FuncInfo, e: ast.AST, qnames) -> bool:
        return any(t[0] == "inst" and t[1] in qnames for t in self.ctx.res.type_of(f, e))

    def provider_mutations(self, f: FuncInfo) -> List[ast.Call]:
        """Calls in f's own body that mutate a provider's tree (create / mkdir(s) / rename / upload / delete / rmtree)."""
        q = f.qname
        if q not in self._direct:
            out = []
            for n in self.ctx.own_nodes(f):
                if isinstance(n, ast.Call) and isinstance(n.func, ast.Attribute) and n.func.attr in MUTATING_API:
                    if self._recv_is(f, n.func.value, self.provider_q):
                        out.append(n)
            self._direct[q] = out
        return self._direct[q]

    def provider_calls(self, f: FuncInfo, names: Iterable[str] = None) -> List[ast.Call]:
        out = []
        for n in self.ctx.own_nodes(f):
            if isinstance(n, ast.Call) and isinstance(n.func, ast.Attribute) and (names is None or n.func.attr in names):
                if self._recv_is(f, n.func.value, self.provider_q):
                    out.append(n)
        return out

    def storage_writes(self, f: FuncInfo) -> List[ast.Call]:
        out = []
        for n in self.ctx.own_nodes(f):
            if isinstance(n, ast.Call) and isinstance(n.func, ast.Attribute) and n.func.attr in ("create", "update", "delete"):
                if self._recv_is(f, n.func.value, self.storage_q):
                    out.append(n)
        return out

    def may_mutate_provider(self, f: FuncInfo) -> bool:
        """Over-approximate: f or a transitive callee outside the provider classes issues a mutating provider call.
        Calls *into* provider implementations are the mutation itself and are not followed."""
        q = f.qname
        if q in self._may:
            return self._may[q]
        # fix-point by DFS with an on-stack set
        seen: Set[str] = set()
        stack = [f]
        found = False
        order = []
        while stack:
            g = stack.pop()
            if g.qname in seen:
                continue
            seen.add(g.qname)
            order.append(g)
            if g.cls is not None and g.cls.qname in self.provider_q:
                continue
            if self.provider_mutations(g):
                found = True
                break
            for s in self.ctx.sites(g):
                for t in s.over:
                    if t.qname not in seen:
                        stack.append(t)
        self._may[q] = found
        return found

    def mutating_call_nodes(self, f: FuncInfo) -> List[ast.AST]:
        """AST nodes in f (calls, property accesses, stores) through which a provider mutation may be reached."""
        out = list(self.provider_mutations(f))
        for s in self.ctx.sites(f):
            if any(not (t.cls is not None and t.cls.qname in self.provider_q) and self.may_mutate_provider(t) for t in s.over):
                out.append(s.node)
        return out
