"""A deliberately small SQL reader for the statement shapes used by cloudsync's SqliteStorage (DESIGN.md 2.9).

Anything outside the recognised shapes raises SqlUndecided: the rule using it then reports 'undecided' (exit 2),
never a violation.
"""
from __future__ import annotations

import re
from typing import List, Optional, Tuple


class SqlUndecided(Exception):
    pass


_TOK = re.compile(r"\s*(?:(\?)|([A-Za-z_][A-Za-z_0-9]*)|(\d+)|('(?:[^']|'')*')|(<>|!=|<=|>=|[(),=;*<>.]))")


def tokenize(s: str) -> List[str]:
    out, i = [], 0
    s = s.strip()
    while i < len(s):
        m = _TOK.match(s, i)
        if not m or m.end() == i:
            raise SqlUndecided("cannot tokenize SQL at %r" % s[i:i + 20])
        out.append(m.group(m.lastindex))
        i = m.end()
    return out


class Stmt:
    def __init__(self, kind: str, text: str):
        self.conflict = None              # conflict clause of INSERT OR <x> / UPDATE OR <x>
        self.kind = kind                  # select | insert | update | delete | create_table | create_index | pragma
        self.text = text
        self.table: Optional[str] = None
        self.columns: List[str] = []      # select list / insert column list / create-table columns
        self.set_cols: List[str] = []     # update SET columns
        self.where: List[Tuple[str, str, str]] = []   # conjuncts (column, op, rhs)
        self.where_is_conjunction = True
        self.placeholders: List[Tuple[str, str]] = []  # ordered (clause, column) for every '?'
        self.values_arity = 0
        self.pragma: Optional[Tuple[str, str]] = None

    def __repr__(self):
        return "<%s %s cols=%s set=%s where=%s ph=%s>" % (self.kind, self.table, self.columns, self.set_cols, self.where, self.placeholders)


class _P:
    def __init__(self, toks):
        self.t = toks
        self.i = 0

    def peek(self, k=0):
        return self.t[self.i + k] if self.i + k < len(self.t) else None

    def kw(self, *words) -> bool:
        for k, w in enumerate(words):
            p = self.peek(k)
            if p is None or p.upper() != w:
                return False
        self.i += len(words)
        return True

    def expect(self, w):
        p = self.peek()
        if p is None or p.upper() != w.upper():
            raise SqlUndecided("expected %s, got %s" % (w, p))
        self.i += 1

    def ident(self) -> str:
        p = self.peek()
        if p is None or not re.match(r"[A-Za-z_]", p):
            raise SqlUndecided("expected identifier, got %s" % p)
        self.i += 1
        return p

    def done(self):
        while self.peek() == ";":
            self.i += 1
        if self.peek() is not None:
            raise SqlUndecided("trailing SQL tokens %s" % self.t[self.i:])


def parse(text: str) -> Stmt:
    p = _P(tokenize(text))
    if p.kw("PRAGMA"):
        s = Stmt("pragma", text)
        name = p.ident()
        val = ""
        if p.peek() == "=":
            p.i += 1
            val = p.peek() or ""
            p.i += 1
        s.pragma = (name.lower(), str(val))
        p.done()
        return s
    if p.kw("CREATE", "TABLE"):
        s = Stmt("create_table", text)
        p.kw("IF", "NOT", "EXISTS")
        s.table = p.ident().lower()
        p.expect("(")
        depth, cur = 1, []
        while depth:
            t = p.peek()
            if t is None:
                raise SqlUndecided("unterminated CREATE TABLE")
            p.i += 1
            if t == "(":
                depth += 1
            elif t == ")":
                depth -= 1
                if depth == 0:
                    break
            if t == "," and depth == 1:
                if cur:
                    s.columns.append(cur[0].lower())
                cur = []
            else:
                cur.append(t)
        if cur:
            s.columns.append(cur[0].lower())
        p.done()
        return s
    if p.kw("CREATE", "INDEX") or p.kw("CREATE", "UNIQUE", "INDEX"):
        s = Stmt("create_index", text)
        p.kw("IF", "NOT", "EXISTS")
        p.ident()
        p.expect("ON")
        s.table = p.ident().lower()
        p.expect("(")
        while p.peek() != ")":
            t = p.peek()
            p.i += 1
            if t != ",":
                s.columns.append(t.lower())
        p.expect(")")
        p.done()
        return s
    if p.kw("INSERT"):
        s = Stmt("insert", text)
        if p.kw("OR"):
            s.conflict = p.ident().lower()          # INSERT OR REPLACE / IGNORE / ...
        p.expect("INTO")
        s.table = p.ident().lower()
        p.expect("(")
        while p.peek() != ")":
            t = p.ident()
            s.columns.append(t.lower())
            if p.peek() == ",":
                p.i += 1
        p.expect(")")
        p.expect("VALUES")
        p.expect("(")
        k = 0
        while p.peek() != ")":
            t = p.peek()
            p.i += 1
            if t == ",":
                continue
            if t == "?":
                col = s.columns[k] if k < len(s.columns) else "?"
                s.placeholders.append(("values", col))
            k += 1
        p.expect(")")
        s.values_arity = k
        p.done()
        return s
    if p.kw("UPDATE"):
        s = Stmt("update", text)
        s.table = p.ident().lower()
        p.expect("SET")
        while True:
            col = p.ident().lower()
            p.expect("=")
            rhs = p.peek()
            p.i += 1
            s.set_cols.append(col)
            if rhs == "?":
                s.placeholders.append(("set", col))
            if p.peek() == ",":
                p.i += 1
                continue
            break
        _where(p, s)
        p.done()
        return s
    if p.kw("DELETE"):
        s = Stmt("delete", text)
        p.expect("FROM")
        s.table = p.ident().lower()
        _where(p, s)
        p.done()
        return s
    if p.kw("SELECT"):
        s = Stmt("select", text)
        while True:
            t = p.peek()
            if t is None:
                raise SqlUndecided("SELECT without FROM")
            if t.upper() == "FROM":
                break
            p.i += 1
            if t == ",":
                continue
            if t == "(" or t == ".":
                raise SqlUndecided("expression in select list")
            s.columns.append(t.lower())
        p.expect("FROM")
        s.table = p.ident().lower()
        _where(p, s)
        if p.kw("ORDER", "BY"):
            p.ident()
            if p.peek() and p.peek().upper() in ("ASC", "DESC"):
                p.i += 1
        p.done()
        return s
    raise SqlUndecided("unrecognised SQL statement shape: %r" % text[:40])


def _where(p: _P, s: Stmt):
    if not p.kw("WHERE"):
        return
    while True:
        col = p.ident().lower()
        op = p.peek()
        if op is None or op not in ("=", "<>", "!=", "<", ">", "<=", ">=") and op.upper() not in ("IS", "IN", "LIKE"):
            raise SqlUndecided("unrecognised operator %s in WHERE" % op)
        p.i += 1
        rhs = p.peek()
        if rhs is None:
            raise SqlUndecided("WHERE without right-hand side")
        p.i += 1
        if rhs == "(":
            raise SqlUndecided("parenthesised WHERE operand")
        s.where.append((col, op, rhs))
        if rhs == "?":
            s.placeholders.append(("where", col))
        nxt = p.peek()
        if nxt is not None and nxt.upper() == "AND":
            p.i += 1
            continue
        if nxt is not None and nxt.upper() == "OR":
            s.where_is_conjunction = False
            p.i += 1
            continue
        break
