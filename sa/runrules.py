"""Runs a rule module so that one lost anchor does not silence the rules behind it.

`rules/Cxx.run(ctx, rep, tier)` is a sequence of rule blocks.  Calling it as a function means the first AnalysisError ends the whole property:
everything after it stays undecided, and a regression that breaks an early anchor AND a later invariant is reported as exit 2 only.  Here the
top-level statements of run() are executed one at a time in one namespace (the module's globals plus ctx / rep / tier): an AnalysisError is
recorded (exit 2 unless something else reports a violation) and execution goes on; a NameError after such a failure, or any exception in the
rest of the same rule block (blocks start at `rep.rule(...)`), is the dependent code and is recorded as skipped.  Anything else propagates -
it is a bug of the analyser.
"""
from __future__ import annotations

import ast
import inspect

from .model import AnalysisError

_CODE = {}


def _statements(mod):
    key = mod.__name__
    if key not in _CODE:
        src = inspect.getsource(mod)
        tree = ast.parse(src)
        run = [n for n in tree.body if isinstance(n, ast.FunctionDef) and n.name == "run"]
        if not run:
            raise AnalysisError("rule module %s has no run()" % key)
        out = []
        for st in run[0].body:
            m = ast.Module(body=[st], type_ignores=[])
            starts = isinstance(st, ast.Expr) and isinstance(st.value, ast.Call) and ast.unparse(st.value.func) == "rep.rule"
            out.append((st.lineno, compile(m, mod.__file__, "exec"), starts))
        _CODE[key] = out
    return _CODE[key]


def run_module(mod, ctx, rep, tier):
    ns = dict(mod.__dict__)
    ns.update(ctx=ctx, rep=rep, tier=tier)
    lost = False            # an anchor was lost somewhere: names it would have bound may be missing later on
    lost_here = False       # ... in the rule block that is being executed (blocks start at a `rep.rule(...)` statement)
    for lineno, code, starts in _statements(mod):
        if starts:
            lost_here = False
        try:
            exec(code, ns)
        except AnalysisError as e:
            rep.error("rule=anchor reason=%s" % e)
            lost = lost_here = True
        except NameError as e:
            if not lost:
                raise
            rep.error("rule=anchor reason=skipped (depends on a lost anchor): %s line %d: %s" % (mod.__name__, lineno, e))
        except Exception as e:
            if not lost_here:
                raise
            rep.error("rule=anchor reason=skipped (rest of a block whose anchor was lost): %s line %d: %s: %s" % (mod.__name__, lineno, type(e).__name__, e))
