"""Receiver typing and call resolution (DESIGN.md 2.1, 2.2).

Types are frozensets of terms; the empty set means "unknown".  Terms:
  ("inst", class_qname)      instance of an analysed class (virtual dispatch adds subclass overrides)
  ("cls", class_qname)       the class object itself
  ("func", func_qname)       a function / bound method / lambda value
  ("seq", T)                 list / tuple / set / generator with element type T
  ("tup", (T1, T2, ...))     fixed-arity tuple
  ("dict", K, V)
  ("mod", module_name)       analysed module object
  ("ext", dotted)            something from outside the analysed program (stdlib, third party)
  ("super", class_qname)     result of super() inside class_qname
  ("prim", name)             str / int / float / bool / bytes / None
"""
from __future__ import annotations

import ast
from typing import Dict, List, Optional, Tuple, FrozenSet, Iterable, Set

from .model import Program, ClassInfo, FuncInfo, Module, mangle, AnalysisError, norm

T = FrozenSet[tuple]
UNKNOWN: T = frozenset()

BUILTIN_FUNCS = {
    "len", "sorted", "list", "tuple", "set", "dict", "isinstance", "issubclass", "getattr", "setattr", "hasattr",
    "str", "int", "float", "bool", "bytes", "max", "min", "sum", "any", "all", "enumerate", "zip", "range", "open",
    "print", "repr", "type", "id", "iter", "next", "reversed", "super", "ValueError", "TypeError", "KeyError",
    "RuntimeError", "NotImplementedError", "AssertionError", "Exception", "BaseException", "TimeoutError",
    "FileNotFoundError", "FileExistsError", "PermissionError", "OSError", "AttributeError", "StopIteration",
    "IndexError", "hash", "abs", "round", "map", "filter", "callable", "vars", "dir", "format", "ord", "chr",
    "frozenset", "object", "bytearray", "memoryview", "divmod", "pow", "staticmethod", "classmethod", "property",
    "NotADirectoryError", "IsADirectoryError", "ConnectionError", "IOError", "EOFError", "KeyboardInterrupt",
    "SystemExit", "ImportError", "ModuleNotFoundError", "UnicodeDecodeError", "locals", "globals", "exit", "input",
    "cast", "slice", "complex", "hex", "oct", "bin", "ascii", "compile", "eval", "exec", "delattr",
}

SEQ_CTORS = {"sorted", "list", "tuple", "set", "frozenset", "reversed", "iter"}


def inst(q):
    return frozenset([("inst", q)])


def seq(t: T) -> T:
    return frozenset([("seq", t)])


def union(*ts: T) -> T:
    out = set()
    for t in ts:
        out |= t
    return frozenset(out)


def elem_of(t: T) -> T:
    out = set()
    for term in t:
        if term[0] == "seq":
            out |= term[1]
        elif term[0] == "tup":
            for x in term[1]:
                out |= x
        elif term[0] == "dict":
            out |= term[1]
    return frozenset(out)


class CallSite:
    """A point in a function body where control may transfer to analysed code."""
    __slots__ = ("func", "node", "kind", "over", "under", "status", "name", "recv_type", "key")

    def __init__(self, func: FuncInfo, node: ast.AST, kind: str, name: str):
        self.func = func
        self.node = node
        self.kind = kind          # call | getter | setter | setattr | getitem | setitem | enter | exit | len | iter | ctor
        self.name = name          # method / attribute name
        self.over: List[FuncInfo] = []
        self.under: List[FuncInfo] = []
        self.status = "unresolved"    # resolved | byname | builtin | ext | callback | unresolved
        self.recv_type: T = UNKNOWN
        self.key = None           # constant attribute key for setattr sites

    @property
    def lineno(self):
        return getattr(self.node, "lineno", 0)

    def loc(self):
        return "%s:%d" % (self.func.module.relpath, self.lineno)

    def __repr__(self):
        return "<CallSite %s %s@%s -> %s [%s]>" % (self.kind, self.name, self.loc(), [f.qname.split('.', 1)[-1] for f in self.over], self.status)


class Resolver:
    # dynamic attributes whose static annotation is narrower/wider than what really flows (DESIGN.md 2.1 e)
    # (class, attribute) -> type expression (as annotation text), one reason per line
    OVERRIDES = {
        ("CloudSync", "state"): "SyncState",            # state_class parameter: SyncState or SmartSyncState (virtual dispatch covers both)
        ("CloudSync", "smgr"): "SyncManager",           # smgr_class parameter
        ("CloudSync", "emgrs"): "Tuple[EventManager, EventManager]",  # emgr_class parameter
        ("SmartSyncManager", "state"): "SyncState",     # annotated SmartSyncState; SyncState methods are inherited either way
        ("SyncStateLookup", "__state"): "SyncState",
        ("Provider", "sync_state"): "SyncStateLookup",
    }

    def __init__(self, prog: Program):
        self.prog = prog
        self.attr_types: Dict[Tuple[str, str], T] = {}
        self.param_types: Dict[Tuple[str, str], T] = {}
        self._env: Dict[str, Dict[str, T]] = {}
        self._ret: Dict[str, T] = {}
        self._ret_busy: Set[str] = set()
        self._expr_cache: Dict[Tuple[str, int], T] = {}
        self._own_nodes: Dict[str, List[ast.AST]] = {}
        self.sites: Dict[str, List[CallSite]] = {}
        self._sidestate_fields = self._fields_of("SideState")
        self._build()

    # ------------------------------------------------------------------ helpers
    def _fields_of(self, cname: str) -> Set[str]:
        out = set()
        try:
            ci = self.prog.cls(cname)
        except AnalysisError:
            return out
        init = ci.methods.get("__init__")
        if not init:
            return out
        sn = init.self_name
        for n in ast.walk(init.node):
            if isinstance(n, ast.Attribute) and isinstance(n.ctx, ast.Store) and isinstance(n.value, ast.Name) and n.value.id == sn:
                if n.attr.startswith("_") and not n.attr.startswith("__"):
                    out.add(n.attr[1:])
        return out

    def own_nodes(self, func: FuncInfo) -> List[ast.AST]:
        """All AST nodes of the function body, not descending into nested defs / lambdas / classes."""
        q = func.qname
        if q in self._own_nodes:
            return self._own_nodes[q]
        out = []

        def rec(n):
            out.append(n)
            for ch in ast.iter_child_nodes(n):
                if isinstance(ch, (ast.FunctionDef, ast.AsyncFunctionDef, ast.ClassDef, ast.Lambda)):
                    # decorators/defaults of nested defs are evaluated here, bodies are not
                    continue
                rec(ch)

        if isinstance(func.node, ast.Lambda):
            rec(func.node.body)
        else:
            for st in func.node.body:
                rec(st)
        self._own_nodes[q] = out
        return out

    # ------------------------------------------------------------------ annotations
    def ann_type(self, mod: Module, ann: Optional[ast.AST], func: FuncInfo = None) -> T:
        if ann is None:
            return UNKNOWN
        if isinstance(ann, ast.Constant):
            if isinstance(ann.value, str):
                try:
                    return self.ann_type(mod, ast.parse(ann.value, mode="eval").body, func)
                except SyntaxError:
                    return UNKNOWN
            if ann.value is None:
                return frozenset([("prim", "None")])
            return UNKNOWN
        if isinstance(ann, ast.Name) and ann.id in ("str", "int", "float", "bool", "bytes"):
            return frozenset([("prim", ann.id)])
        if isinstance(ann, ast.Name) and ann.id in ("dict", "Dict"):
            return frozenset([("dict", UNKNOWN, UNKNOWN)])
        if isinstance(ann, ast.Name) and ann.id in ("list", "set", "tuple", "List", "Set", "Tuple"):
            return seq(UNKNOWN)
        if isinstance(ann, (ast.Name, ast.Attribute)):
            r = self.prog.resolve_dotted(mod, ann)
            if r is None and isinstance(ann, ast.Name):
                # class name unique in the program (annotations under TYPE_CHECKING sometimes name un-imported classes)
                cands = self.prog.by_class_name.get(ann.id, [])
                if len(cands) == 1:
                    r = cands[0]
                f = func
                while r is None and f is not None:
                    if ann.id in f.nested_classes:
                        r = f.nested_classes[ann.id]
                    f = f.parent
            if isinstance(r, ClassInfo):
                return inst(r.qname)
            if isinstance(r, tuple) and r[0] == "ext":
                if r[1].startswith("typing."):
                    return UNKNOWN
                return frozenset([("ext", r[1])])
            return UNKNOWN
        if isinstance(ann, ast.BinOp) and isinstance(ann.op, ast.BitOr):
            return union(self.ann_type(mod, ann.left, func), self.ann_type(mod, ann.right, func))
        if isinstance(ann, ast.Subscript):
            head = norm(ann.value).split(".")[-1]
            sl = ann.slice
            args = list(sl.elts) if isinstance(sl, ast.Tuple) else [sl]
            if head in ("Optional", "Union"):
                return union(*[self.ann_type(mod, a, func) for a in args])
            if head in ("List", "Set", "Sequence", "Iterable", "Iterator", "FrozenSet", "Collection", "list", "set", "Deque"):
                return seq(self.ann_type(mod, args[0], func))
            if head in ("Generator",):
                return seq(self.ann_type(mod, args[0], func))
            if head in ("Tuple", "tuple"):
                if len(args) == 2 and isinstance(args[1], ast.Constant) and args[1].value is Ellipsis:
                    return seq(self.ann_type(mod, args[0], func))
                return frozenset([("tup", tuple(self.ann_type(mod, a, func) for a in args))])
            if head in ("Dict", "dict", "Mapping", "MutableMapping", "DefaultDict"):
                if len(args) == 2:
                    return frozenset([("dict", self.ann_type(mod, args[0], func), self.ann_type(mod, args[1], func))])
                return UNKNOWN
            if head == "Type":
                t = self.ann_type(mod, args[0], func)
                return frozenset([("cls", x[1]) for x in t if x[0] == "inst"])
            return UNKNOWN
        return UNKNOWN

    # ------------------------------------------------------------------ build
    def _build(self):
        prog = self.prog
        # 1. overrides
        for (cname, attr), text in self.OVERRIDES.items():
            try:
                ci = prog.cls(cname)
            except AnalysisError:
                continue
            t = self.ann_type(ci.module, ast.parse(text, mode="eval").body)
            self.attr_types[(ci.qname, mangle(ci.name, attr))] = t
        self._overridden = set(self.attr_types)
        # 2. class-level annotations
        for ci in prog.classes.values():
            for name, ann in ci.class_ann.items():
                key = (ci.qname, mangle(ci.name, name))
                if key not in self._overridden:
                    self._add_attr(key, self.ann_type(ci.module, ann))
        # 3. fix-point: attribute stores typed from envs, argument types pushed into parameters
        for rnd in range(4):
            before = (self._size(self.attr_types), self._size(self.param_types))
            self._env.clear()
            self._ret.clear()
            self._expr_cache.clear()
            for f in prog.functions.values():
                self._attr_stores(f)
            self.sites = {}
            for f in prog.functions.values():
                self._collect_sites(f, propagate=True)
            after = (self._size(self.attr_types), self._size(self.param_types))
            if after == before:
                break
        # final pass with stable types
        self._env.clear()
        self._ret.clear()
        self._expr_cache.clear()
        self.sites = {}
        for f in prog.functions.values():
            self._collect_sites(f, propagate=False)

    @staticmethod
    def _size(d):
        return sum(len(v) for v in d.values()) + len(d)

    def _add_attr(self, key, t: T):
        if not t or key in getattr(self, "_overridden", ()):
            return
        self.attr_types[key] = union(self.attr_types.get(key, UNKNOWN), t)

    def _attr_stores(self, f: FuncInfo):
        sc = f.self_class
        sn = f.self_name
        for n in self.own_nodes(f):
            tgt_val = []
            if isinstance(n, ast.Assign):
                for t in n.targets:
                    tgt_val.append((t, n.value, None))
            elif isinstance(n, ast.AnnAssign):
                tgt_val.append((n.target, n.value, n.annotation))
            for t, v, ann in tgt_val:
                if isinstance(t, ast.Attribute):
                    rt = self.type_of(f, t.value)
                    for term in rt:
                        if term[0] == "inst":
                            ci = self.prog.classes[term[1]]
                            cls_ctx = f.cls.name if f.cls else (sc.name if sc else None)
                            key = (ci.qname, mangle(cls_ctx, t.attr))
                            if ann is not None:
                                self._add_attr(key, self.ann_type(f.module, ann, f))
                            elif v is not None:
                                self._add_attr(key, self.type_of(f, v))

    # ------------------------------------------------------------------ environments
    def env(self, f: FuncInfo) -> Dict[str, T]:
        q = f.qname
        if q in self._env:
            return self._env[q]
        env: Dict[str, T] = {}
        self._env[q] = env
        # parameters
        a = f.node.args
        allp = list(a.posonlyargs) + list(a.args) + list(a.kwonlyargs)
        npos = len(a.posonlyargs) + len(a.args)
        defaults = [None] * (npos - len(a.defaults)) + list(a.defaults) + list(a.kw_defaults)
        for i, p in enumerate(allp):
            t = self.ann_type(f.module, p.annotation, f)
            t = union(t, self.param_types.get((q, p.arg), UNKNOWN))
            d = defaults[i] if i < len(defaults) else None
            if not t and isinstance(d, ast.Constant) and d.value is not None:
                t = frozenset([("prim", type(d.value).__name__)])
            if not t and isinstance(d, (ast.Name, ast.Attribute)):
                r = self.prog.resolve_dotted(f.module, d)
                if isinstance(r, ClassInfo):
                    t = frozenset([("cls", r.qname)])
            env[p.arg] = t
        if f.cls is not None and f.kind in ("method", "getter", "setter") and allp:
            env[allp[0].arg] = inst(f.cls.qname)
        if f.cls is not None and f.kind == "class" and allp:
            env[allp[0].arg] = frozenset([("cls", f.cls.qname)])
        if a.vararg:
            env[a.vararg.arg] = seq(self.param_types.get((q, "*" + a.vararg.arg), UNKNOWN))
        nodes = self.own_nodes(f)
        # assignments, two rounds for chains
        for _ in range(2):
            for n in nodes:
                self._bind_stmt(f, env, n)
            self._expr_cache = {k: v for k, v in self._expr_cache.items() if k[0] != q}
        # usage typing: X[i].<SideState field>  =>  X is a SyncEntry  (only for names nothing else typed)
        try:
            se = self.prog.cls("SyncEntry").qname
        except AnalysisError:
            se = None
        used = False
        if se:
            for n in nodes:
                if isinstance(n, ast.Attribute) and isinstance(n.value, ast.Subscript) and isinstance(n.value.value, ast.Name):
                    if n.attr in self._sidestate_fields or (n.attr.startswith("_") and n.attr[1:] in self._sidestate_fields):
                        nm = n.value.value.id
                        if not env.get(nm) and (nm in env or not self._visible_outside(f, nm)):
                            env[nm] = inst(se)
                            used = True
        if used:
            self._expr_cache = {k: v for k, v in self._expr_cache.items() if k[0] != q}
            for n in nodes:
                self._bind_stmt(f, env, n)
            self._expr_cache = {k: v for k, v in self._expr_cache.items() if k[0] != q}
        return env

    def _visible_outside(self, f, name) -> bool:
        """True when `name` is bound by an enclosing function or the module (then it is not this function's to type)."""
        g = f.parent
        while g is not None:
            if name in g.all_param_names() or name in g.nested or name in g.nested_classes:
                return True
            for n in self.own_nodes(g):
                if isinstance(n, ast.Name) and isinstance(n.ctx, ast.Store) and n.id == name:
                    return True
            g = g.parent
        return self.prog.resolve_symbol(f.module.name, name) is not None

    def _bind(self, f, env, target, t: T):
        if isinstance(target, ast.Name):
            if t:
                env[target.id] = union(env.get(target.id, UNKNOWN), t)
        elif isinstance(target, (ast.Tuple, ast.List)):
            for i, el in enumerate(target.elts):
                if isinstance(el, ast.Starred):
                    self._bind(f, env, el.value, seq(elem_of(t)))
                    continue
                sub = set()
                for term in t:
                    if term[0] == "tup" and i < len(term[1]):
                        sub |= term[1][i]
                    elif term[0] == "seq":
                        sub |= term[1]
                self._bind(f, env, el, frozenset(sub))

    def _bind_stmt(self, f, env, n):
        if isinstance(n, ast.Assign):
            t = self._type(f, env, n.value)
            for tg in n.targets:
                self._bind(f, env, tg, t)
        elif isinstance(n, ast.AnnAssign):
            if isinstance(n.target, ast.Name):
                t = self.ann_type(f.module, n.annotation, f)
                if not t and n.value is not None:
                    t = self._type(f, env, n.value)
                self._bind(f, env, n.target, t)
        elif isinstance(n, (ast.For, ast.AsyncFor)):
            self._bind(f, env, n.target, elem_of(self._type(f, env, n.iter)))
        elif isinstance(n, ast.comprehension):
            self._bind(f, env, n.target, elem_of(self._type(f, env, n.iter)))
        elif isinstance(n, (ast.With, ast.AsyncWith)):
            for it in n.items:
                if it.optional_vars is not None:
                    ct = self._type(f, env, it.context_expr)
                    out = set()
                    for term in ct:
                        if term[0] == "inst":
                            m = self.prog.classes[term[1]].lookup("__enter__")
                            if m:
                                out |= self.ret_type(m)
                        elif term[0] == "ext":
                            out.add(term)
                    self._bind(f, env, it.optional_vars, frozenset(out))
        elif isinstance(n, ast.NamedExpr):
            self._bind(f, env, n.target, self._type(f, env, n.value))
        elif isinstance(n, ast.ExceptHandler):
            if n.name and n.type is not None:
                types = n.type.elts if isinstance(n.type, ast.Tuple) else [n.type]
                out = set()
                for tx in types:
                    r = self.prog.resolve_dotted(f.module, tx)
                    if isinstance(r, ClassInfo):
                        out.add(("inst", r.qname))
                    else:
                        out.add(("ext", norm(tx)))
                env[n.name] = union(env.get(n.name, UNKNOWN), frozenset(out))

    # ------------------------------------------------------------------ expression typing
    def type_of(self, f: FuncInfo, expr: ast.AST) -> T:
        return self._type(f, self.env(f), expr)

    def lookup_name(self, f: FuncInfo, name: str) -> T:
        g = f
        while g is not None:
            e = self.env(g)
            if name in e and (e[name] or g is f and name in [p for p in g.all_param_names()]):
                if e[name]:
                    return e[name]
            if name in g.nested:
                return frozenset([("func", g.nested[name].qname)])
            if name in g.nested_classes:
                return frozenset([("cls", g.nested_classes[name].qname)])
            g = g.parent
        r = self.prog.resolve_symbol(f.module.name, name)
        t = self._sym_type(r)
        if not t and name in BUILTIN_FUNCS:
            return frozenset([("ext", "builtins." + name)])
        return t

    def _sym_type(self, r) -> T:
        if isinstance(r, ClassInfo):
            return frozenset([("cls", r.qname)])
        if isinstance(r, FuncInfo):
            return frozenset([("func", r.qname)])
        if isinstance(r, Module):
            return frozenset([("mod", r.name)])
        if isinstance(r, tuple):
            if r[0] == "ext":
                return frozenset([("ext", r[1])])
            if r[0] == "global":
                _, mod, expr = r
                return self._global_type(mod, expr)
        return UNKNOWN

    def _global_type(self, mod: Module, expr) -> T:
        if isinstance(expr, ast.Call):
            r = self.prog.resolve_dotted(mod, expr.func)
            if isinstance(r, ClassInfo):
                return inst(r.qname)
            if isinstance(r, tuple) and r[0] == "ext":
                return frozenset([("ext", r[1] + "()")])
            return frozenset([("ext", norm(expr.func) + "()")])
        if isinstance(expr, ast.Constant):
            return frozenset([("prim", type(expr.value).__name__)])
        if isinstance(expr, (ast.Name, ast.Attribute)):
            return self._sym_type(self.prog.resolve_dotted(mod, expr))
        if isinstance(expr, (ast.Tuple, ast.List)):
            return frozenset([("tup", tuple(self._global_type(mod, e) for e in expr.elts))])
        return UNKNOWN

    def _type(self, f: FuncInfo, env, e: ast.AST) -> T:
        key = (f.qname, id(e))
        if key in self._expr_cache:
            return self._expr_cache[key]
        self._expr_cache[key] = UNKNOWN   # recursion guard
        t = self._type_uncached(f, env, e)
        self._expr_cache[key] = t
        return t

    def _type_uncached(self, f: FuncInfo, env, e: ast.AST) -> T:
        prog = self.prog
        if isinstance(e, ast.Name):
            if e.id in env and env[e.id]:
                return env[e.id]
            return self.lookup_name(f, e.id)
        if isinstance(e, ast.Constant):
            return frozenset([("prim", type(e.value).__name__)])
        if isinstance(e, ast.JoinedStr):
            return frozenset([("prim", "str")])
        if isinstance(e, ast.Attribute):
            rt = self._type(f, env, e.value)
            return self.attr_type(f, rt, e.attr)
        if isinstance(e, ast.Subscript):
            vt = self._type(f, env, e.value)
            out = set()
            idx = e.slice
            for term in vt:
                if term[0] == "inst":
                    ci = prog.classes[term[1]]
                    gi = ci.lookup("__getitem__")
                    if gi:
                        out |= self.ret_type(gi)
                elif term[0] == "seq":
                    if isinstance(idx, ast.Slice):
                        out.add(term)
                    else:
                        out |= term[1]
                elif term[0] == "tup":
                    if isinstance(idx, ast.Constant) and isinstance(idx.value, int) and -len(term[1]) <= idx.value < len(term[1]):
                        out |= term[1][idx.value]
                    elif isinstance(idx, ast.Slice):
                        out.add(("seq", elem_of(frozenset([term]))))
                    else:
                        for x in term[1]:
                            out |= x
                elif term[0] == "dict":
                    out |= term[2]
            return frozenset(out)
        if isinstance(e, ast.Call):
            return self._call_type(f, env, e)
        if isinstance(e, ast.IfExp):
            return union(self._type(f, env, e.body), self._type(f, env, e.orelse))
        if isinstance(e, ast.BoolOp):
            return union(*[self._type(f, env, v) for v in e.values])
        if isinstance(e, (ast.List, ast.Set, ast.Tuple)):
            parts = []
            for el in e.elts:
                if isinstance(el, ast.Starred):
                    parts.append(elem_of(self._type(f, env, el.value)))
                else:
                    parts.append(self._type(f, env, el))
            if isinstance(e, ast.Tuple) and not any(isinstance(el, ast.Starred) for el in e.elts):
                return frozenset([("tup", tuple(parts))])
            return seq(union(*parts)) if parts else seq(UNKNOWN)
        if isinstance(e, (ast.ListComp, ast.SetComp, ast.GeneratorExp)):
            for g in e.generators:
                self._bind_stmt(f, env, g)
            return seq(self._type(f, env, e.elt))
        if isinstance(e, ast.DictComp):
            for g in e.generators:
                self._bind_stmt(f, env, g)
            return frozenset([("dict", self._type(f, env, e.key), self._type(f, env, e.value))])
        if isinstance(e, ast.Dict):
            ks = union(*[self._type(f, env, k) for k in e.keys if k is not None]) if e.keys else UNKNOWN
            vs = union(*[self._type(f, env, v) for v in e.values]) if e.values else UNKNOWN
            return frozenset([("dict", ks, vs)])
        if isinstance(e, ast.Lambda):
            for g in f.nested.values():
                if g.node is e:
                    return frozenset([("func", g.qname)])
            for g in prog.functions.values():
                if g.node is e:
                    return frozenset([("func", g.qname)])
            return UNKNOWN
        if isinstance(e, ast.NamedExpr):
            return self._type(f, env, e.value)
        if isinstance(e, ast.Starred):
            return self._type(f, env, e.value)
        if isinstance(e, ast.Await):
            return self._type(f, env, e.value)
        if isinstance(e, (ast.Compare, ast.UnaryOp)) and not (isinstance(e, ast.UnaryOp) and isinstance(e.op, ast.USub)):
            return frozenset([("prim", "bool")])
        if isinstance(e, ast.BinOp):
            lt = self._type(f, env, e.left)
            if any(t[0] in ("seq", "prim") for t in lt):
                return lt
            return UNKNOWN
        return UNKNOWN

    def attr_type(self, f: Optional[FuncInfo], rt: T, attr: str) -> T:
        prog = self.prog
        out = set()
        cls_ctx = None
        if f is not None:
            cls_ctx = f.cls.name if f.cls else (f.self_class.name if f.self_class else None)
        for term in rt:
            if term[0] == "inst":
                ci = prog.classes[term[1]]
                m_attr = mangle(cls_ctx, attr)
                found = False
                # subclasses may refine (e.g. SmartSyncState getters)
                for c in ci.mro:
                    if attr in c.getters:
                        out |= self.ret_type(c.getters[attr])
                        found = True
                        break
                    if attr in c.methods:
                        out.add(("func", c.methods[attr].qname))
                        found = True
                        break
                    k = (c.qname, m_attr)
                    if k in self.attr_types:
                        out |= self.attr_types[k]
                        found = True
                        break
                    if attr in c.class_attrs:
                        out |= self._global_type(c.module, c.class_attrs[attr])
                        found = True
                        break
                if not found:
                    for c in ci.all_subclasses():
                        k = (c.qname, m_attr)
                        if k in self.attr_types:
                            out |= self.attr_types[k]
                            found = True
                if not found and ci.lookup("__getattr__") and not attr.startswith("_"):
                    # SideState / SyncEntry: public name k is stored as _k
                    for c in ci.mro:
                        k = (c.qname, "_" + attr)
                        if k in self.attr_types:
                            out |= self.attr_types[k]
                            break
            elif term[0] == "cls":
                ci = prog.classes[term[1]]
                m = ci.lookup(attr)
                if m:
                    out.add(("func", m.qname))
                else:
                    for c in ci.mro:
                        if attr in c.class_attrs:
                            out |= self._global_type(c.module, c.class_attrs[attr])
                            break
            elif term[0] == "mod":
                out |= self._sym_type(prog.resolve_symbol(term[1], attr))
            elif term[0] == "ext":
                out.add(("ext", term[1] + "." + attr))
            elif term[0] == "super":
                ci = prog.classes[term[1]]
                for c in ci.mro[1:]:
                    if attr in c.methods:
                        out.add(("func", c.methods[attr].qname))
                        break
                    if attr in c.getters:
                        out |= self.ret_type(c.getters[attr])
                        break
        return frozenset(out)

    def ret_type(self, g: FuncInfo) -> T:
        q = g.qname
        if q in self._ret:
            return self._ret[q]
        if q in self._ret_busy:
            return UNKNOWN
        self._ret_busy.add(q)
        try:
            t = UNKNOWN
            if not isinstance(g.node, ast.Lambda) and g.node.returns is not None:
                t = self.ann_type(g.module, g.node.returns, g)
            if not t:
                outs = []
                is_gen = False
                for n in self.own_nodes(g):
                    if isinstance(n, ast.Return) and n.value is not None:
                        outs.append(self.type_of(g, n.value))
                    elif isinstance(n, (ast.Yield,)) and n.value is not None:
                        is_gen = True
                        outs.append(self.type_of(g, n.value))
                    elif isinstance(n, ast.YieldFrom):
                        is_gen = True
                        outs.append(elem_of(self.type_of(g, n.value)))
                if isinstance(g.node, ast.Lambda):
                    outs.append(self.type_of(g, g.node.body))
                t = union(*outs) if outs else UNKNOWN
                if is_gen:
                    t = seq(t)
            self._ret[q] = t
            return t
        finally:
            self._ret_busy.discard(q)

    def _call_type(self, f, env, e: ast.Call) -> T:
        fn = e.func
        if isinstance(fn, ast.Name):
            name = fn.id
            if name == "super":
                sc = f.self_class
                return frozenset([("super", sc.qname)]) if sc else UNKNOWN
            if name == "cast" and len(e.args) == 2:
                t = self.ann_type(f.module, e.args[0], f)
                return t or self._type(f, env, e.args[1])
            if name in SEQ_CTORS and e.args:
                return seq(elem_of(self._type(f, env, e.args[0])))
            if name in ("list", "set", "tuple", "dict") and not e.args:
                return seq(UNKNOWN)
            if name == "enumerate" and e.args:
                return seq(frozenset([("tup", (frozenset([("prim", "int")]), elem_of(self._type(f, env, e.args[0]))))]))
            if name == "zip":
                return seq(frozenset([("tup", tuple(elem_of(self._type(f, env, a)) for a in e.args))]))
            if name in ("max", "min") and e.args:
                if len(e.args) == 1:
                    return elem_of(self._type(f, env, e.args[0]))
                return union(*[self._type(f, env, a) for a in e.args])
            if name == "next" and e.args:
                return elem_of(self._type(f, env, e.args[0]))
            if name in ("str", "int", "float", "bool", "bytes", "len", "repr", "isinstance", "hasattr"):
                return frozenset([("prim", name if name in ("str", "int", "float", "bool", "bytes") else "int")])
            if name == "getattr" and len(e.args) >= 2 and isinstance(e.args[1], ast.Constant) and isinstance(e.args[1].value, str):
                return self.attr_type(f, self._type(f, env, e.args[0]), e.args[1].value)
        if isinstance(fn, ast.Attribute):
            # copy.copy(x) keeps the type; container methods
            rt = self._type(f, env, fn.value)
            if fn.attr == "copy" and e.args and any(t == ("ext", "copy") for t in rt):
                return self._type(f, env, e.args[0])
            out = set()
            handled = False
            for term in rt:
                if term[0] in ("seq",):
                    handled = True
                    if fn.attr in ("copy", "intersection", "union", "difference", "__iter__", "keys"):
                        out.add(term)
                    elif fn.attr in ("pop", "popleft", "get"):
                        out |= term[1]
                elif term[0] == "dict":
                    handled = True
                    if fn.attr == "values":
                        out.add(("seq", term[2]))
                    elif fn.attr == "keys":
                        out.add(("seq", term[1]))
                    elif fn.attr == "items":
                        out.add(("seq", frozenset([("tup", (term[1], term[2]))])))
                    elif fn.attr in ("get", "pop", "setdefault"):
                        out |= term[2]
                    elif fn.attr == "copy":
                        out.add(term)
                elif term[0] == "tup":
                    handled = True
            if handled and out:
                return frozenset(out)
        ft = self._type(f, env, fn)
        out = set()
        for term in ft:
            if term[0] == "cls":
                out.add(("inst", term[1]))
            elif term[0] == "func":
                g = self.prog.functions.get(term[1])
                if g is not None:
                    out |= self.ret_type(g)
            elif term[0] == "ext":
                out.add(("ext", term[1] + "()"))
        return frozenset(out)

    # ------------------------------------------------------------------ call sites
    def virtual_targets(self, ci: ClassInfo, name: str, kind: str = "method") -> List[FuncInfo]:
        """Method `name` as found from `ci` plus every override in a subclass."""
        out = []

        def look(c: ClassInfo):
            if kind == "method":
                return c.lookup(name)
            if kind == "getter":
                return c.lookup_getter(name)
            if kind == "setter":
                return c.lookup_setter(name)

        m = look(ci)
        if m:
            out.append(m)
        for sub in ci.all_subclasses():
            tbl = {"method": sub.methods, "getter": sub.getters, "setter": sub.setters}[kind]
            if name in tbl and tbl[name] not in out:
                out.append(tbl[name])
        return out

    def _collect_sites(self, f: FuncInfo, propagate: bool):
        sites: List[CallSite] = []
        self.sites[f.qname] = sites
        env = self.env(f)
        prog = self.prog
        call_funcs = set()
        for n in self.own_nodes(f):
            if isinstance(n, ast.Call):
                call_funcs.add(id(n.func))
        for n in self.own_nodes(f):
            if isinstance(n, ast.Call):
                cs = self._resolve_call(f, env, n)
                sites.append(cs)
                if propagate:
                    self._propagate_args(f, env, n, cs)
                # len(x) / iter protocol on analysed classes
                if isinstance(n.func, ast.Name) and n.func.id == "len" and n.args:
                    self._proto(f, env, sites, n, n.args[0], "__len__", "len")
            elif isinstance(n, ast.Attribute):
                rt = self._type(f, env, n.value)
                if isinstance(n.ctx, ast.Load) :
                    for term in rt:
                        if term[0] == "inst":
                            ci = prog.classes[term[1]]
                            tg = self.virtual_targets(ci, n.attr, "getter")
                            if tg:
                                cs = CallSite(f, n, "getter", n.attr)
                                cs.over = cs.under = tg
                                cs.status = "resolved"
                                cs.recv_type = rt
                                sites.append(cs)
                elif isinstance(n.ctx, (ast.Store, ast.Del)):
                    for term in rt:
                        if term[0] == "inst":
                            ci = prog.classes[term[1]]
                            tg = self.virtual_targets(ci, n.attr, "setter")
                            kind = "setter"
                            if not tg:
                                tg = self.virtual_targets(ci, "__setattr__", "method")
                                kind = "setattr"
                            if tg:
                                cs = CallSite(f, n, kind, n.attr)
                                cs.over = cs.under = tg
                                cs.status = "resolved"
                                cs.recv_type = rt
                                cs.key = n.attr
                                sites.append(cs)
            elif isinstance(n, ast.Subscript):
                meth = {ast.Load: "__getitem__", ast.Store: "__setitem__", ast.Del: "__delitem__"}[type(n.ctx)]
                self._proto(f, env, sites, n, n.value, meth, meth.strip("_"))
            elif isinstance(n, (ast.With, ast.AsyncWith)):
                for it in n.items:
                    self._proto(f, env, sites, it.context_expr, it.context_expr, "__enter__", "enter")
                    self._proto(f, env, sites, it.context_expr, it.context_expr, "__exit__", "exit")
            elif isinstance(n, (ast.For, ast.comprehension)):
                self._proto(f, env, sites, n.iter, n.iter, "__iter__", "iter")
            elif isinstance(n, ast.AugAssign) and isinstance(n.target, ast.Attribute):
                # x.a += v  reads through the getter as well
                pass

    def _proto(self, f, env, sites, node, recv, meth, kind):
        rt = self._type(f, env, recv)
        for term in rt:
            if term[0] == "inst":
                ci = self.prog.classes[term[1]]
                tg = self.virtual_targets(ci, meth)
                if tg:
                    cs = CallSite(f, node, kind, meth)
                    cs.over = cs.under = tg
                    cs.status = "resolved"
                    cs.recv_type = rt
                    sites.append(cs)

    def _resolve_call(self, f: FuncInfo, env, n: ast.Call) -> CallSite:
        prog = self.prog
        fn = n.func
        name = fn.attr if isinstance(fn, ast.Attribute) else (fn.id if isinstance(fn, ast.Name) else "<expr>")
        cs = CallSite(f, n, "call", name)
        targets: List[FuncInfo] = []
        status = None
        if isinstance(fn, ast.Attribute):
            rt = self._type(f, env, fn.value)
            cs.recv_type = rt
            any_inst = False
            for term in rt:
                if term[0] == "inst":
                    any_inst = True
                    ci = prog.classes[term[1]]
                    tg = self.virtual_targets(ci, name)
                    if tg:
                        targets += [t for t in tg if t not in targets]
                    else:
                        # attribute holding a callable (e.g. SyncManager.__translate, _resolve_conflict)
                        at = self.attr_type(f, frozenset([term]), name)
                        got = False
                        for a in at:
                            if a[0] == "func" and a[1] in prog.functions:
                                targets.append(prog.functions[a[1]])
                                got = True
                            elif a[0] == "cls":
                                init = prog.classes[a[1]].lookup("__init__")
                                if init:
                                    targets.append(init)
                                got = True
                        if not got:
                            gt = self.virtual_targets(ci, name, "getter")
                            if gt:
                                # property returning a callable: the getter edge is recorded separately
                                rts = union(*[self.ret_type(g) for g in gt])
                                for a in rts:
                                    if a[0] == "func" and a[1] in prog.functions:
                                        targets.append(prog.functions[a[1]])
                                        got = True
                        if not got:
                            if ci.ext_bases and not any(b in ("ABC", "object") for b in ci.ext_bases):
                                status = status or "builtin"
                            elif any(x == (ci.qname, mangle(f.cls.name if f.cls else None, name)) for x in self.attr_types) or \
                                    (ci.qname, name) in self.attr_types:
                                status = status or "callback"
                elif term[0] == "cls":
                    ci = prog.classes[term[1]]
                    m = ci.lookup(name)
                    if m:
                        targets.append(m)
                    any_inst = True
                elif term[0] == "mod":
                    r = prog.resolve_symbol(term[1], name)
                    if isinstance(r, FuncInfo):
                        targets.append(r)
                    elif isinstance(r, ClassInfo):
                        init = r.lookup("__init__")
                        if init:
                            targets.append(init)
                        cs.kind = "ctor"
                        status = status or "resolved"
                    else:
                        status = status or "ext"
                elif term[0] == "super":
                    ci = prog.classes[term[1]]
                    for c in ci.mro[1:]:
                        if name in c.methods:
                            targets.append(c.methods[name])
                            break
                    else:
                        status = status or "builtin"
                elif term[0] in ("seq", "dict", "tup", "prim"):
                    status = status or "builtin"
                elif term[0] in ("ext",):
                    status = status or "ext"
                elif term[0] == "func":
                    status = status or "builtin"
            if targets:
                cs.over = cs.under = targets
                cs.status = "resolved"
                return cs
            if status:
                cs.status = status
                return cs
            # unknown receiver
            cands = [m for m in prog.methods_by_name.get(name, []) if m.kind in ("method", "static", "class")]
            if not rt and len(cands) == 1:
                cs.over = cs.under = cands
                cs.status = "byname"
            elif not rt and cands:
                cs.over = cands
                cs.under = []
                cs.status = "unresolved"
            else:
                cs.status = "builtin" if not cands else "unresolved"
                if cands and not rt:
                    cs.over = cands
            return cs
        if isinstance(fn, ast.Name):
            ft = self._type(f, env, fn)
            for term in ft:
                if term[0] == "func" and term[1] in prog.functions:
                    targets.append(prog.functions[term[1]])
                elif term[0] == "cls":
                    for t_init in self.virtual_targets(prog.classes[term[1]], "__init__"):
                        if t_init not in targets:
                            targets.append(t_init)
                    cs.kind = "ctor"
                    status = "resolved"
                elif term[0] == "ext":
                    status = status or "ext"
            if targets:
                cs.over = cs.under = targets
                cs.status = "resolved"
            elif status:
                cs.status = status
            elif name in BUILTIN_FUNCS:
                cs.status = "builtin"
            elif name in env or any(name in g.all_param_names() for g in self._parents(f)):
                cs.status = "callback"
            else:
                cs.status = "unresolved"
            return cs
        # call of an arbitrary expression (e.g. x()(), subscripts)
        ft = self._type(f, env, fn)
        for term in ft:
            if term[0] == "func" and term[1] in prog.functions:
                targets.append(prog.functions[term[1]])
        if targets:
            cs.over = cs.under = targets
            cs.status = "resolved"
        else:
            cs.status = "callback"
        return cs

    @staticmethod
    def _parents(f):
        while f is not None:
            yield f
            f = f.parent

    def _propagate_args(self, f, env, n: ast.Call, cs: CallSite):
        for g in cs.under:
            if isinstance(g.node, ast.Lambda) and False:
                continue
            a = g.node.args
            pos = [p.arg for p in list(a.posonlyargs) + list(a.args)]
            skip = 0
            if g.cls is not None and g.kind in ("method", "getter", "setter", "class"):
                # bound call: receiver fills the first parameter, unless called through the class object
                called_on_class = isinstance(n.func, ast.Attribute) and any(t[0] == "cls" for t in cs.recv_type) and g.kind == "method"
                if not called_on_class:
                    skip = 1
            if cs.kind == "ctor":
                skip = 1
            params = pos[skip:]
            for i, arg in enumerate(n.args):
                if isinstance(arg, ast.Starred):
                    break
                t = self._type(f, env, arg)
                if not t:
                    continue
                if i < len(params):
                    self._add_param(g, params[i], t)
                elif a.vararg:
                    self._add_param(g, "*" + a.vararg.arg, t)
            kwnames = set(pos) | {p.arg for p in a.kwonlyargs}
            for kw in n.keywords:
                if kw.arg and kw.arg in kwnames:
                    t = self._type(f, env, kw.value)
                    if t:
                        self._add_param(g, kw.arg, t)

    def _add_param(self, g: FuncInfo, pname: str, t: T):
        # annotated parameters keep their annotation; only un-annotated ones learn from call sites
        a = g.node.args
        for p in list(a.posonlyargs) + list(a.args) + list(a.kwonlyargs):
            if p.arg == pname and p.annotation is not None and self.ann_type(g.module, p.annotation, g):
                return
        t = frozenset(x for x in t if x[0] in ("inst", "func", "cls", "seq", "tup", "dict"))
        if not t:
            return
        key = (g.qname, pname)
        self.param_types[key] = union(self.param_types.get(key, UNKNOWN), t)

    # ------------------------------------------------------------------ statistics
    def stats(self, module_names: Iterable[str]) -> Dict[str, int]:
        mods = set(module_names)
        out: Dict[str, int] = {}
        for q, sites in self.sites.items():
            f = self.prog.functions[q]
            if f.module.name not in mods:
                continue
            for s in sites:
                if s.kind != "call" and s.kind != "ctor":
                    continue
                out[s.status] = out.get(s.status, 0) + 1
        return out
