"""Side-typing: a units-of-measure style check that paths / ids / hashes are used with the provider, the look-up
and the entry half of their own side (DESIGN.md 2.7; C12.Y1, C03.R3, C05.V8, C07.R4).

A side is a pair (base, negated).  Bases are symbolic (`changed`, `side`, `i`, `loser.side`, ...) or the constants
`#0` (LOCAL) / `#1` (REMOTE).  `OTHER_SIDE[x]`, `other_side(x)` and `1 - x` negate.  Only a *provable* mismatch is
reported: same base with opposite polarity, or two different constants.  Unknown or unrelated sides never alarm.
"""
from __future__ import annotations

import ast
from typing import Dict, List, Optional, Tuple

from .model import FuncInfo
from .ctx import Ctx, short, stmt_key
from . import pat

Side = Tuple[str, bool]

SIDED_FIELDS = {"path", "sync_path", "oid", "hash", "sync_hash"}
# parameter pairs that are complementary by contract; the contract is discharged at every call site
COMPLEMENT_PAIRS = (("changed", "synced"), ("defer_side", "replace_side"))
# parameters that carry a value of a known side (relative to the function's own side parameters)
PARAM_SIDES = {"translated_path": ("synced", False)}

# provider API: method -> indexes of positional arguments that are ids / paths of that provider's side
PROVIDER_API = {
    "create": [0], "mkdir": [0], "mkdirs": [0], "rename": [0, 1], "upload": [0], "delete": [0], "download": [0],
    "info_oid": [0], "info_path": [0], "exists_oid": [0], "exists_path": [0], "listdir": [0], "listdir_path": [0],
    "listdir_oid": [0], "hash_oid": [0], "walk": [0], "walk_oid": [0], "rmtree": [0], "set_root": [],
}
MUTATING_API = {"create", "mkdir", "mkdirs", "rename", "upload", "delete", "rmtree"}
PURE_PATH_API = {"dirname": [0], "basename": [0], "split": [0], "paths_match": [0, 1], "is_subpath": [0, 1],
                 "is_subpath_of_root": [0], "normalize_path": [0], "normalize_path_separators": [0], "replace_path": [0, 1, 2]}
RETURNS_SIDED = set(PROVIDER_API) | {"join", "dirname", "normalize_path", "normalize_path_separators", "hash_data"}


def neg(s: Optional[Side]) -> Optional[Side]:
    if s is None:
        return None
    b, n = s
    if b == "#0":
        return ("#1", n)
    if b == "#1":
        return ("#0", n)
    return (b, not n)


def canon(s: Optional[Side]) -> Optional[Side]:
    if s is None:
        return None
    b, n = s
    if b in ("#0", "#1") and n:
        return ("#1" if b == "#0" else "#0", False)
    return s


def provably_different(a: Optional[Side], b: Optional[Side]) -> bool:
    a, b = canon(a), canon(b)
    if a is None or b is None:
        return False
    if a[0].startswith("#") and b[0].startswith("#"):
        return a[0] != b[0]
    return a[0] == b[0] and a[1] != b[1]


def show(s: Optional[Side]) -> str:
    s = canon(s)
    if s is None:
        return "?"
    b = {"#0": "LOCAL", "#1": "REMOTE"}.get(s[0], s[0])
    return ("other(%s)" % b) if s[1] else b


class Obligation:
    __slots__ = ("func", "node", "kind", "what", "required", "actual", "mutating")

    def __init__(self, func, node, kind, what, required, actual, mutating=False):
        self.func, self.node, self.kind, self.what = func, node, kind, what
        self.required, self.actual, self.mutating = required, actual, mutating

    @property
    def decided(self):
        return canon(self.required) is not None and canon(self.actual) is not None and \
            (canon(self.required)[0] == canon(self.actual)[0] or (canon(self.required)[0].startswith("#") and canon(self.actual)[0].startswith("#")))

    @property
    def violated(self):
        return provably_different(self.required, self.actual)


class SideAnalysis:
    def __init__(self, ctx: Ctx):
        self.ctx = ctx
        p = ctx.prog
        self.entry_q = p.cls("SyncEntry").qname
        self.sidestate_q = p.cls("SideState").qname
        self.provider_q = {p.cls("Provider").qname} | {c.qname for c in p.cls("Provider").all_subclasses()}
        self._defs: Dict[str, Dict[str, List[ast.AST]]] = {}
        # inferred, name-independent contracts (greatest fix-point over the call sites, see _infer):
        #   pairs[qname]       = {(a, b)}: parameter b is the other side of parameter a
        #   param_side[qname]  = {p: (q, neg)}: parameter p carries a value of side q (or other(q))
        self.pairs: Dict[str, set] = {}
        self.param_side: Dict[str, Dict[str, Tuple[str, bool]]] = {}
        self._infer()

    # ------------------------------------------------------------------ local definitions
    def defs(self, f: FuncInfo) -> Dict[str, List[ast.AST]]:
        """name -> list of value expressions assigned to it in f (tuple unpacking is expanded positionally)."""
        q = f.qname
        if q in self._defs:
            return self._defs[q]
        d: Dict[str, List[ast.AST]] = {}

        def bind(t, v):
            if isinstance(t, ast.Name):
                d.setdefault(t.id, []).append(v)
            elif isinstance(t, (ast.Tuple, ast.List)):
                if isinstance(v, (ast.Tuple, ast.List)) and len(v.elts) == len(t.elts):
                    for tt, vv in zip(t.elts, v.elts):
                        bind(tt, vv)
                else:
                    for i, tt in enumerate(t.elts):
                        bind(tt, ("unpack", v, i))

        for n in self.ctx.own_nodes(f):
            if isinstance(n, ast.Assign):
                for t in n.targets:
                    bind(t, n.value)
            elif isinstance(n, ast.AnnAssign) and n.value is not None:
                bind(n.target, n.value)
            elif isinstance(n, ast.AugAssign):
                bind(n.target, ("aug", n.value, 0))
            elif isinstance(n, (ast.For, ast.comprehension)):
                bind(n.target, ("iter", n.iter, 0))
            elif isinstance(n, ast.withitem) and n.optional_vars is not None:
                bind(n.optional_vars, ("with", n.context_expr, 0))
        self._defs[q] = d
        return d

    def single_def(self, f: FuncInfo, name: str):
        if name in f.all_param_names():
            return None
        ds = self.defs(f).get(name, [])
        if len(ds) == 1:
            return ds[0]
        return None

    # ------------------------------------------------------------------ side expressions
    def side_expr(self, f: FuncInfo, e: ast.AST, depth=0) -> Optional[Side]:
        if depth > 6 or e is None:
            return None
        if isinstance(e, ast.Constant) and e.value in (0, 1) and not isinstance(e.value, bool):
            return ("#%d" % e.value, False)
        if isinstance(e, ast.Name):
            if e.id == "LOCAL":
                return ("#0", False)
            if e.id == "REMOTE":
                return ("#1", False)
            params = f.all_param_names()
            for a, b in COMPLEMENT_PAIRS:
                if e.id == b and a in params and b in params:
                    return (a, True)
            for (a, b) in self.pairs.get(f.qname, ()):
                if e.id == b:
                    return (a, True)
            d = self.single_def(f, e.id)
            if d is not None and not isinstance(d, tuple):
                s = self.side_expr(f, d, depth + 1)
                if s is not None:
                    return s
            if isinstance(d, tuple) and d[0] == "unpack":
                s = self._unpack_side(f, d[1], d[2])
                if s is not None:
                    return s
            return (e.id, False)
        if isinstance(e, ast.Subscript) and isinstance(e.value, ast.Name) and e.value.id == "OTHER_SIDE":
            return neg(self.side_expr(f, e.slice, depth + 1))
        if isinstance(e, ast.Call) and isinstance(e.func, ast.Name) and e.func.id == "other_side" and len(e.args) == 1:
            return neg(self.side_expr(f, e.args[0], depth + 1))
        if isinstance(e, ast.BinOp) and isinstance(e.op, ast.Sub) and isinstance(e.left, ast.Constant) and e.left.value == 1:
            return neg(self.side_expr(f, e.right, depth + 1))
        if isinstance(e, ast.Attribute) and e.attr in ("side", "_side", "__side"):
            # side of a SideState variable whose origin is known
            s = self.sidestate_side(f, e.value, depth + 1)
            if s is not None:
                return s
            return (ast.unparse(e.value) + ".side", False)
        return None

    def _unpack_side(self, f: FuncInfo, v: ast.AST, idx: int) -> Optional[Side]:
        """Side constant returned at tuple position idx by a called function (e.g. SyncState.split)."""
        if not isinstance(v, ast.Call):
            return None
        s = self.ctx.site_of(f, v, "call")
        if s is None or len(s.under) != 1:
            return None
        g = s.under[0]
        rets = [n for n in self.ctx.own_nodes(g) if isinstance(n, ast.Return) and isinstance(n.value, ast.Tuple)]
        out = None
        for r in rets:
            if idx >= len(r.value.elts):
                return None
            sd = self.side_expr(g, r.value.elts[idx])
            if sd is None or not canon(sd)[0].startswith("#"):
                return None
            if out is not None and canon(out) != canon(sd):
                return None
            out = sd
        return out

    def sidestate_side(self, f: FuncInfo, e: ast.AST, depth=0) -> Optional[Side]:
        """Side of an expression denoting a SideState: E[S], or a variable defined once as E[S]."""
        if depth > 6:
            return None
        if isinstance(e, ast.Subscript) and self._is_entry(f, e.value):
            return self.side_expr(f, e.slice, depth + 1)
        if isinstance(e, ast.Name):
            d = self.single_def(f, e.id)
            if d is not None and not isinstance(d, tuple):
                return self.sidestate_side(f, d, depth + 1)
            t = self.ctx.res.type_of(f, e)
            if any(term == ("inst", self.sidestate_q) for term in t):
                return (e.id + ".side", False)
        return None

    def _is_entry(self, f: FuncInfo, e: ast.AST) -> bool:
        return any(term == ("inst", self.entry_q) for term in self.ctx.res.type_of(f, e))

    def provider_side(self, f: FuncInfo, e: ast.AST, depth=0) -> Optional[Side]:
        if depth > 6:
            return None
        if isinstance(e, ast.Subscript) and isinstance(e.value, ast.Attribute) and e.value.attr == "providers":
            return self.side_expr(f, e.slice, depth + 1)
        if isinstance(e, ast.Name):
            d = self.single_def(f, e.id)
            if d is not None and not isinstance(d, tuple):
                return self.provider_side(f, d, depth + 1)
            if isinstance(d, tuple) and d[0] == "unpack" and isinstance(d[1], ast.Attribute) and d[1].attr == "providers":
                return ("#%d" % d[2], False)
        if isinstance(e, ast.Attribute) and e.attr == "provider" and isinstance(e.value, ast.Name) and e.value.id == f.self_name:
            # EventManager.provider is the provider of self.side
            c = f.self_class
            if c is not None and any(x.name == "EventManager" for x in c.mro):
                return ("self.side", False)
        return None

    # ------------------------------------------------------------------ sided values
    def value_side(self, f: FuncInfo, e: ast.AST, depth=0) -> Optional[Side]:
        if depth > 6 or e is None:
            return None
        if isinstance(e, ast.Attribute) and e.attr in SIDED_FIELDS | {"_" + x for x in SIDED_FIELDS}:
            s = self.sidestate_side(f, e.value, depth + 1)
            if s is not None:
                return s
            # info object produced by a provider call
            return self.value_side(f, e.value, depth + 1) if isinstance(e.value, (ast.Name, ast.Call)) and self._is_info(f, e.value) else None
        if isinstance(e, ast.Subscript) and isinstance(e.value, ast.Attribute) and e.value.attr in ("roots", "_root_paths", "_root_oids"):
            return self.side_expr(f, e.slice, depth + 1)      # the root of side S is a path / id of side S
        if isinstance(e, ast.Call) and isinstance(e.func, ast.Attribute):
            if e.func.attr == "translate" and len(e.args) == 2 and not self._is_provider(f, e.func.value):
                return self.side_expr(f, e.args[0], depth + 1)
            if e.func.attr in RETURNS_SIDED:
                ps = self.provider_side(f, e.func.value, depth + 1)
                if ps is not None:
                    return ps
            return None
        if isinstance(e, ast.Name):
            params = f.all_param_names()
            ps_ = self.param_side.get(f.qname, {}).get(e.id)
            if ps_ is not None:
                s0 = self.side_expr(f, ast.Name(id=ps_[0], ctx=ast.Load()))
                if s0 is not None:
                    return s0 if not ps_[1] else neg(s0)
            if e.id in PARAM_SIDES and e.id in params:
                base, n = PARAM_SIDES[e.id]
                if base in params or len(self.defs(f).get(base, [])) == 1:
                    s0 = self.side_expr(f, ast.Name(id=base, ctx=ast.Load()))
                    if s0 is not None and not (canon(s0)[0] == base and base not in params):
                        return s0 if not n else neg(s0)
            d = self.single_def(f, e.id)
            if d is not None and not isinstance(d, tuple):
                return self.value_side(f, d, depth + 1)
            return None
        if isinstance(e, ast.BoolOp):
            sides = [self.value_side(f, v, depth + 1) for v in e.values]
            sides = [s for s in sides if s is not None]
            if sides and all(canon(s) == canon(sides[0]) for s in sides):
                return sides[0]
            return None
        if isinstance(e, ast.IfExp):
            a, b = self.value_side(f, e.body, depth + 1), self.value_side(f, e.orelse, depth + 1)
            if a is not None and b is not None and canon(a) == canon(b):
                return a
            return a if b is None and isinstance(e.orelse, ast.Constant) else (b if a is None and isinstance(e.body, ast.Constant) else None)
        return None

    def _is_info(self, f: FuncInfo, e: ast.AST) -> bool:
        t = self.ctx.res.type_of(f, e)
        return any(term[0] == "inst" and term[1].endswith(("OInfo", "DirInfo", "SmartInfo")) for term in t) or \
            (isinstance(e, ast.Name) and self.single_def(f, e.id) is not None and isinstance(self.single_def(f, e.id), ast.Call))

    def _is_provider(self, f: FuncInfo, e: ast.AST) -> bool:
        t = self.ctx.res.type_of(f, e)
        return any(term[0] == "inst" and term[1] in self.provider_q for term in t)

    # ------------------------------------------------------------------ inference of side contracts
    def _actuals(self, g: FuncInfo, call: ast.Call) -> Dict[str, ast.AST]:
        pos = g.params()
        skip = 1 if g.cls is not None and g.kind == "method" else 0
        out = {}
        for i, arg in enumerate(call.args):
            if isinstance(arg, ast.Starred):
                break
            if i + skip < len(pos):
                out[pos[i + skip]] = arg
        for kw in call.keywords:
            if kw.arg:
                out[kw.arg] = kw.value
        return out

    def _call_sites(self, g: FuncInfo):
        return [s for s in self.ctx.callers(g) if s.kind == "call" and g in s.under and isinstance(s.node, ast.Call)]

    def _looks_like_side(self, f: FuncInfo, e: ast.AST) -> bool:
        if isinstance(e, ast.Constant) and e.value in (0, 1) and not isinstance(e.value, bool):
            return True
        if isinstance(e, ast.Name) and e.id in ("LOCAL", "REMOTE"):
            return True
        if isinstance(e, ast.Subscript) and isinstance(e.value, ast.Name) and e.value.id == "OTHER_SIDE":
            return True
        if isinstance(e, ast.Call) and isinstance(e.func, ast.Name) and e.func.id == "other_side":
            return True
        if isinstance(e, ast.BinOp) and isinstance(e.op, ast.Sub) and isinstance(e.left, ast.Constant) and e.left.value == 1:
            return True
        return False

    def _infer(self):
        """Optimistic (greatest) fix-point: a pair (a, b) of g survives while EVERY call site passes provably complementary sides,
        judged in the caller's frame under the pairs currently assumed for the caller."""
        from .ctx import ENGINE_MODULES
        funcs = [g for g in self.ctx.prog.functions.values() if g.module.name in ENGINE_MODULES and not isinstance(g.node, ast.Lambda)]
        # candidates: parameter pairs that receive side-looking actuals at some call site, grown through callers' candidates
        cand: Dict[str, set] = {}
        changed = True
        rounds = 0
        while changed and rounds < 6:
            changed = False
            rounds += 1
            for g in funcs:
                sites = self._call_sites(g)
                if not sites:
                    continue
                ps = [p for p in g.params()[(1 if g.cls is not None and g.kind == "method" else 0):]]
                for a in ps:
                    for b in ps:
                        if a == b or (a, b) in cand.get(g.qname, ()):
                            continue
                        for s in sites:
                            act = self._actuals(g, s.node)
                            if a not in act or b not in act:
                                continue
                            ea, eb = act[a], act[b]
                            ok = False
                            if self._looks_like_side(s.func, eb) or self._looks_like_side(s.func, ea) or (isinstance(ea, ast.Name) and isinstance(eb, ast.Name)):
                                sa_, sb_ = self.side_expr(s.func, ea), self.side_expr(s.func, eb)
                                ok = sa_ is not None and sb_ is not None and canon(sb_) == canon(neg(sa_))
                            if not ok and isinstance(ea, ast.Name) and isinstance(eb, ast.Name):
                                cp = cand.get(s.func.qname, set())
                                ok = (ea.id, eb.id) in cp or (eb.id, ea.id) in cp
                            if ok:
                                cand.setdefault(g.qname, set()).add((a, b))
                                changed = True
                                break
        # one orientation per unordered pair: b (the later parameter) is expressed as other(a)
        self.pairs = {}
        for g in funcs:
            ps = g.params()
            keep = {(a, b) for (a, b) in cand.get(g.qname, ()) if ps.index(a) < ps.index(b)}
            if keep:
                self.pairs[g.qname] = keep
        # verification: drop pairs with a call site that is not provably complementary
        changed = True
        while changed:
            changed = False
            for g in funcs:
                for (a, b) in list(self.pairs.get(g.qname, ())):
                    for s in self._call_sites(g):
                        act = self._actuals(g, s.node)
                        if a not in act or b not in act:
                            bad = True
                        else:
                            sa_, sb_ = self.side_expr(s.func, act[a]), self.side_expr(s.func, act[b])
                            bad = not (sa_ is not None and sb_ is not None and canon(sb_) == canon(neg(sa_)))
                        if bad:
                            self.pairs[g.qname].discard((a, b))
                            changed = True
                            break
        self.pairs = {q: v for q, v in self.pairs.items() if v}
        # sided value parameters: p carries side(q) / other(q) at every call site
        self.param_side = {}
        for _ in range(3):
            for g in funcs:
                sites = self._call_sites(g)
                if not sites:
                    continue
                side_params = {x for pr in self.pairs.get(g.qname, ()) for x in pr}
                ps = g.params()[(1 if g.cls is not None and g.kind == "method" else 0):]
                # a lone side parameter (mkdir_synced(changed, ...)) counts too when its actuals are sides everywhere
                for q in ps:
                    if q not in side_params and all(q in self._actuals(g, s.node) and (self._looks_like_side(s.func, self._actuals(g, s.node)[q]) or
                                                    any(self._actuals(g, s.node)[q].id in pr for pr in self.pairs.get(s.func.qname, ()))
                                                    if isinstance(self._actuals(g, s.node)[q], ast.Name) else self._looks_like_side(s.func, self._actuals(g, s.node)[q])) for s in sites):
                        side_params.add(q)
                for p_ in ps:
                    if p_ in side_params or p_ in self.param_side.get(g.qname, {}):
                        continue
                    for q in sorted(side_params):
                        verdicts = set()
                        for s in sites:
                            act = self._actuals(g, s.node)
                            if p_ not in act or q not in act:
                                verdicts.add(None)
                                break
                            vs = self.value_side(s.func, act[p_])
                            qs = self.side_expr(s.func, act[q])
                            if vs is None or qs is None:
                                verdicts.add(None)
                                break
                            if canon(vs) == canon(qs):
                                verdicts.add(False)
                            elif canon(vs) == canon(neg(qs)):
                                verdicts.add(True)
                            else:
                                verdicts.add(None)
                                break
                        if len(verdicts) == 1 and None not in verdicts:
                            self.param_side.setdefault(g.qname, {})[p_] = (q, verdicts.pop())
                            break

    # ------------------------------------------------------------------ obligations
    def obligations(self, f: FuncInfo) -> List[Obligation]:
        out: List[Obligation] = []
        ctx = self.ctx
        for n in ctx.own_nodes(f):
            if isinstance(n, ast.Call) and isinstance(n.func, ast.Attribute):
                name = n.func.attr
                recv = n.func.value
                # provider API
                if name in PROVIDER_API or name in PURE_PATH_API:
                    ps = self.provider_side(f, recv)
                    if ps is not None:
                        idxs = PROVIDER_API.get(name, PURE_PATH_API.get(name, []))
                        for i in idxs:
                            if i < len(n.args):
                                vs = self.value_side(f, n.args[i])
                                kind = "provider-api" if name in PROVIDER_API else "path-helper"
                                out.append(Obligation(f, n, kind, "argument %d `%s` of %s.%s" % (i, ast.unparse(n.args[i]), ast.unparse(recv), name),
                                                      ps, vs, mutating=name in MUTATING_API))
                # translate(S, p): p belongs to the other side
                if name == "translate" and len(n.args) == 2 and not self._is_provider(f, recv):
                    s = self.side_expr(f, n.args[0])
                    vs = self.value_side(f, n.args[1])
                    out.append(Obligation(f, n, "translate", "path `%s` given to translate(%s, .)" % (ast.unparse(n.args[1]), ast.unparse(n.args[0])), neg(s), vs))
                # state look-ups
                if name in ("lookup_oid", "lookup_path") and len(n.args) >= 2:
                    s = self.side_expr(f, n.args[0])
                    vs = self.value_side(f, n.args[1])
                    out.append(Obligation(f, n, "lookup", "key `%s` of %s(%s, .)" % (ast.unparse(n.args[1]), name, ast.unparse(n.args[0])), s, vs))
                if name == "get_kids" and len(n.args) >= 2:
                    s = self.side_expr(f, n.args[1])
                    vs = self.value_side(f, n.args[0])
                    out.append(Obligation(f, n, "lookup", "path `%s` of get_kids(., %s)" % (ast.unparse(n.args[0]), ast.unparse(n.args[1])), s, vs))
                # update_entry(ent, S, oid, path=..., hash=...)
                if name == "update_entry":
                    args = list(n.args)
                    kws = {k.arg: k.value for k in n.keywords if k.arg}
                    se = args[1] if len(args) > 1 else kws.get("side")
                    s = self.side_expr(f, se) if se is not None else None
                    cands = []
                    if len(args) > 2:
                        cands.append(("oid", args[2]))
                    for k in ("oid", "path", "hash", "file_hash"):
                        if k in kws:
                            cands.append((k, kws[k]))
                    for k, v in cands:
                        out.append(Obligation(f, n, "update_entry", "%s=`%s` of update_entry(.., %s, ..)" % (k, ast.unparse(v), ast.unparse(se) if se is not None else "?"),
                                              s, self.value_side(f, v)))
                # ResolveFile(ss, provider): provider of the side state's own side
            if isinstance(n, ast.Call) and isinstance(n.func, ast.Name) and n.func.id == "ResolveFile" and len(n.args) == 2:
                ss = self.sidestate_side(f, n.args[0])
                if ss is None and isinstance(n.args[0], ast.Name):
                    ss = (n.args[0].id + ".side", False)
                ps = self.provider_side(f, n.args[1])
                out.append(Obligation(f, n, "resolve-file", "provider `%s` of the handle for `%s`" % (ast.unparse(n.args[1]), ast.unparse(n.args[0])), ss, ps))
            # stores into sided fields
            if isinstance(n, ast.Assign):
                for t in n.targets:
                    if isinstance(t, ast.Attribute) and t.attr in SIDED_FIELDS:
                        s = self.sidestate_side(f, t.value)
                        if s is not None:
                            out.append(Obligation(f, n, "store", "value `%s` stored into `%s`" % (ast.unparse(n.value)[:60], ast.unparse(t)), s, self.value_side(f, n.value)))
                    if isinstance(t, ast.Subscript) and self._is_entry(f, t.value):
                        s = self.side_expr(f, t.slice)
                        out.append(Obligation(f, n, "setitem", "side state `%s` installed as `%s`" % (ast.unparse(n.value), ast.unparse(t)), s, self.sidestate_side(f, n.value)))
            # comparisons of sided values
            if isinstance(n, ast.Compare) and len(n.ops) == 1 and isinstance(n.ops[0], (ast.Eq, ast.NotEq)):
                a, b = self.value_side(f, n.left), self.value_side(f, n.comparators[0])
                if a is not None and b is not None:
                    out.append(Obligation(f, n, "compare", "`%s` compared with `%s`" % (ast.unparse(n.left), ast.unparse(n.comparators[0])), a, b))
        return out

    def precondition_sites(self) -> List[Obligation]:
        """Discharge `synced = other(changed)` (and the other complementary pairs) at every call site."""
        out = []
        ctx = self.ctx
        for g in ctx.prog.functions.values():
            params = g.all_param_names()
            named = [(a, b) for a, b in COMPLEMENT_PAIRS if a in params and b in params]
            for a, b in named + [pr for pr in self.pairs.get(g.qname, ()) if pr not in named]:
                if a in params and b in params:
                    for s in ctx.callers(g):
                        if s.kind != "call" or g not in s.under:
                            continue
                        call = s.node
                        pos = g.params()
                        skip = 1 if g.cls is not None and g.kind == "method" else 0
                        actual = {}
                        for i, arg in enumerate(call.args):
                            if i + skip < len(pos):
                                actual[pos[i + skip]] = arg
                        for kw in call.keywords:
                            if kw.arg:
                                actual[kw.arg] = kw.value
                        if a in actual and b in actual:
                            sa_, sb_ = self.side_expr(s.func, actual[a]), self.side_expr(s.func, actual[b])
                            out.append(Obligation(s.func, call, "precondition", "%s(%s=%s, %s=%s)" % (g.name, a, ast.unparse(actual[a]), b, ast.unparse(actual[b])),
                                                  neg(sa_), sb_))
        return out
