"""Static-analysis engine for the cloudsync verification checks (see /verif/DESIGN.md section 2).

Nothing in here imports or executes code from the analysed repository: every fact is derived from the
`ast` of the files found under $VERIF_REPO (default /repo) at the moment a check runs.
"""
import os

REPO = os.environ.get("VERIF_REPO", "/repo")
VERIF = os.path.dirname(os.path.dirname(os.path.abspath(__file__)))
