"""python3-vt -m sa.replay <replay.json> : re-evaluate the rule instance recorded in a replay file on the current tree."""
import json
import os
import sys

from . import VERIF


def main():
    path = sys.argv[1]
    rec = json.load(open(path))
    prop, rule, key = rec["property"], rec["rule"], rec["instance"]
    if VERIF not in sys.path:
        sys.path.insert(0, VERIF)
    import importlib
    from .ctx import Ctx
    from .report import Report, VIOLATION
    rep = Report(prop, "quick")
    mod = importlib.import_module("rules.%s" % prop)
    try:
        ctx = Ctx()
        from .runrules import run_module
        run_module(mod, ctx, rep, "quick")
        from . import darule
        darule.apply(ctx, rep)
    except Exception as e:      # a later rule lost its anchor on this tree: the instances decided before that still stand
        print("replay: the run stopped early (%s: %s); instances decided before that are used" % (type(e).__name__, e))
    hits = [i for i in rep.instances if i.rule == rule and i.key == key]
    if not hits:
        print("replay: instance %s / %s no longer exists on the current tree" % (rule, key))
        sys.exit(2)
    bad = [i for i in hits if i.verdict == VIOLATION]
    for i in hits:
        print("%s %s %s -- %s%s" % (i.verdict.upper(), i.loc, i.key, i.detail, (" -- witness: " + i.witness) if i.witness else ""))
    if bad:
        print("VIOLATION property=%s replay=%s" % (prop, path))
    sys.exit(1 if bad else 0)


if __name__ == "__main__":
    main()
