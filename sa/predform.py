"""Normal form of small predicate functions (DESIGN.md 7.8): which boolean formula over its atoms makes the function return a truthy value?

Handles the statement language the state machine's predicates are written in: `name = <pure expression>` (substituted), `if c: ... return x`
with or without else / fall-through, `return <expr>`, log / assert / docstring statements (skipped), falling off the end (False).  The formula
is brought to negation normal form and then to a set-of-sets DNF over atom texts (comparisons `a != b` are read as `not a == b`, `not in` as
`not in`-negation; conjunctions containing an atom and its negation are dropped; subsumed conjunctions are absorbed).  Two definitions are
'the same' when their DNFs are equal - insensitive to the order of operands, to De Morgan spellings, to early-return vs nested-if style and to
hoisted locals; sensitive to every added, dropped or weakened condition.
"""
from __future__ import annotations

import ast
import copy
from typing import Dict, FrozenSet, List, Set

from .guards import nnf


class Undecided(Exception):
    pass


_TRUE = ast.Constant(value=True)
_FALSE = ast.Constant(value=False)


def _is_log(st) -> bool:
    if isinstance(st, ast.Expr) and isinstance(st.value, ast.Call):
        f = st.value.func
        while isinstance(f, (ast.Attribute, ast.Call)):
            f = f.value if isinstance(f, ast.Attribute) else f.func
        return isinstance(f, ast.Name) and f.id in ("log", "logging", "logger", "print")
    return isinstance(st, ast.Expr) and isinstance(st.value, ast.Constant)


def _subst(e: ast.AST, env: Dict[str, ast.AST]) -> ast.AST:
    class S(ast.NodeTransformer):
        def visit_Name(self, n):
            if isinstance(n.ctx, ast.Load) and n.id in env:
                return copy.deepcopy(env[n.id])
            return n
    return S().visit(copy.deepcopy(e))


def _ret(stmts: List[ast.stmt], env: Dict[str, ast.AST]) -> ast.AST:
    env = dict(env)
    for i, st in enumerate(stmts):
        if _is_log(st) or isinstance(st, (ast.Assert, ast.Pass)):
            continue
        if isinstance(st, (ast.Assign, ast.AnnAssign)):
            tg = st.targets[0] if isinstance(st, ast.Assign) else st.target
            if not isinstance(tg, ast.Name) or st.value is None or (isinstance(st, ast.Assign) and len(st.targets) != 1):
                raise Undecided("assignment `%s`" % ast.unparse(st)[:60])
            env[tg.id] = _subst(st.value, env)
            continue
        if isinstance(st, ast.Return):
            return _subst(st.value, env) if st.value is not None else _FALSE
        if isinstance(st, ast.If):
            rest = stmts[i + 1:]
            t = _subst(st.test, env)
            a = _ret(list(st.body) + rest, env)
            b = _ret(list(st.orelse) + rest, env)
            return ast.BoolOp(op=ast.Or(), values=[ast.BoolOp(op=ast.And(), values=[t, a]),
                                                   ast.BoolOp(op=ast.And(), values=[ast.UnaryOp(op=ast.Not(), operand=t), b])])
        raise Undecided("statement `%s`" % ast.unparse(st).split("\n")[0][:60])
    return _FALSE


def formula(fn: ast.FunctionDef) -> ast.AST:
    return _ret(list(fn.body), {})


def _atom(e: ast.AST):
    """(text, positive?)"""
    pos = True
    while isinstance(e, ast.UnaryOp) and isinstance(e.op, ast.Not):
        e, pos = e.operand, not pos
    if isinstance(e, ast.Compare) and len(e.ops) == 1:
        flip = {ast.NotEq: ast.Eq, ast.IsNot: ast.Is, ast.NotIn: ast.In}
        if type(e.ops[0]) in flip:
            e = ast.Compare(left=e.left, ops=[flip[type(e.ops[0])]()], comparators=e.comparators)
            pos = not pos
        if isinstance(e.ops[0], (ast.Eq, ast.Is)):
            l, r = ast.unparse(e.left), ast.unparse(e.comparators[0])
            if r < l and not isinstance(e.comparators[0], ast.Constant):
                e = ast.Compare(left=e.comparators[0], ops=e.ops, comparators=[e.left])
    return ast.unparse(e), pos


def dnf(e: ast.AST) -> Set[FrozenSet]:
    e = nnf(e)

    def rec(x) -> Set[FrozenSet]:
        if isinstance(x, ast.Constant) and isinstance(x.value, bool):
            return {frozenset()} if x.value else set()
        if isinstance(x, ast.BoolOp) and isinstance(x.op, ast.Or):
            out: Set[FrozenSet] = set()
            for v in x.values:
                out |= rec(v)
            return out
        if isinstance(x, ast.BoolOp) and isinstance(x.op, ast.And):
            acc: Set[FrozenSet] = {frozenset()}
            for v in x.values:
                rv = rec(v)
                acc = {a | b for a in acc for b in rv}
                if len(acc) > 4096:
                    raise Undecided("formula too large")
            return acc
        return {frozenset([_atom(x)])}
    raw = rec(e)
    # drop contradictions, absorb supersets
    clean = [c for c in raw if not any((t, not p) in c for (t, p) in c)]
    cur = set(clean)
    changed = True
    while changed:
        changed = False
        # A or (not A and B) == A or B : a negated atom may be dropped when the clause with the atom instead is already covered
        for c in list(cur):
            for (t, p) in list(c):
                flipped = (t, not p)
                rest = c - {(t, p)}
                if any(flipped in o and (o - {flipped}) <= rest for o in cur if o is not c):
                    cur.discard(c)
                    cur.add(frozenset(rest))
                    changed = True
                    break
            if changed:
                break
        # absorption
        for c in list(cur):
            if any(o < c for o in cur):
                cur.discard(c)
                changed = True
    return cur


def show(d: Set[FrozenSet]) -> str:
    def lit(a):
        return a[0] if a[1] else "not (%s)" % a[0]
    return " OR ".join("[" + " and ".join(sorted(lit(a) for a in c)) + "]" for c in sorted(d, key=lambda c: sorted(c)))


def parse(text: str) -> ast.AST:
    from .canon import canonicalise
    t = canonicalise(ast.parse(text.strip(), mode="exec"))
    return t.body[0].value
