"""Program model: modules, import resolution, classes (C3 MRO), functions, properties, closures, lambdas.

Everything is computed from source text with `ast`; nothing is imported from the analysed tree.
"""
from __future__ import annotations

import ast
import os
from typing import Dict, List, Optional, Tuple, Iterable

from . import REPO

PKG = "cloudsync"
# tests are not part of the analysed program, with one anchored exception (second Storage implementation)
EXTRA_UNITS = ("cloudsync/tests/fixtures/mock_storage.py",)


class AnalysisError(Exception):
    """Raised when an anchor is missing or the analyser cannot decide; mapped to exit code 2."""


def mangle(cls_name: Optional[str], attr: str) -> str:
    """Python private-name mangling of `attr` as written inside class `cls_name`."""
    if cls_name and attr.startswith("__") and not attr.endswith("__"):
        return "_" + cls_name.lstrip("_") + attr
    return attr


class Module:
    def __init__(self, name: str, path: str, relpath: str, src: str, tree: ast.Module, is_pkg: bool):
        self.name = name
        self.path = path
        self.relpath = relpath
        self.src = src
        self.tree = tree
        self.is_pkg = is_pkg
        self.lines = src.splitlines()
        # local name -> ("mod", modname) | ("sym", modname, symbol) | ("ext", dotted)
        self.imports: Dict[str, tuple] = {}
        self.star_imports: List[str] = []
        self.classes: Dict[str, "ClassInfo"] = {}
        self.functions: Dict[str, "FuncInfo"] = {}
        self.globals: Dict[str, ast.AST] = {}     # module-level simple assignments  name -> value expr

    def __repr__(self):
        return "<Module %s>" % self.name


class ClassInfo:
    def __init__(self, qname: str, name: str, node: ast.ClassDef, module: Module, outer_func: Optional["FuncInfo"] = None):
        self.qname = qname
        self.name = name
        self.node = node
        self.module = module
        self.outer_func = outer_func
        self.base_exprs = node.bases
        self.bases: List["ClassInfo"] = []        # resolved, analysed bases only
        self.ext_bases: List[str] = []            # dotted names of bases outside the analysed program
        self.mro: List["ClassInfo"] = []
        self.methods: Dict[str, "FuncInfo"] = {}          # plain / static / class methods and lambda attributes
        self.getters: Dict[str, "FuncInfo"] = {}
        self.setters: Dict[str, "FuncInfo"] = {}
        self.class_attrs: Dict[str, ast.AST] = {}         # name -> value expr (class-level assignments)
        self.class_ann: Dict[str, ast.AST] = {}           # name -> annotation expr (class-level)
        self.subclasses: List["ClassInfo"] = []
        self.decorators = [ast.unparse(d) for d in node.decorator_list]

    def __repr__(self):
        return "<Class %s>" % self.qname

    def lookup(self, name: str) -> Optional["FuncInfo"]:
        for c in self.mro:
            if name in c.methods:
                return c.methods[name]
        return None

    def lookup_getter(self, name: str) -> Optional["FuncInfo"]:
        for c in self.mro:
            if name in c.getters:
                return c.getters[name]
            if name in c.methods or name in c.class_attrs:
                return None
        return None

    def lookup_setter(self, name: str) -> Optional["FuncInfo"]:
        for c in self.mro:
            if name in c.setters:
                return c.setters[name]
            if name in c.getters:
                return None
        return None

    def defines_attr(self, name: str) -> bool:
        return any(name in c.methods or name in c.getters or name in c.class_attrs or name in c.class_ann
                   for c in self.mro)

    def all_subclasses(self) -> List["ClassInfo"]:
        out, todo = [], list(self.subclasses)
        while todo:
            c = todo.pop()
            if c not in out:
                out.append(c)
                todo.extend(c.subclasses)
        return out

    def is_subclass_of(self, other: "ClassInfo") -> bool:
        return other in self.mro


class FuncInfo:
    def __init__(self, qname: str, name: str, node, module: Module, cls: Optional[ClassInfo],
                 parent: Optional["FuncInfo"], kind: str):
        self.qname = qname
        self.name = name
        self.node = node                      # FunctionDef | AsyncFunctionDef | Lambda
        self.module = module
        self.cls = cls                        # class whose body defines it (None for module / nested functions)
        self.parent = parent                  # enclosing function for closures / lambdas
        self.kind = kind                      # method|static|class|getter|setter|function|lambda|closure
        self.decorators: List[str] = []
        if not isinstance(node, ast.Lambda):
            self.decorators = [ast.unparse(d) for d in node.decorator_list]
        self.nested: Dict[str, "FuncInfo"] = {}
        self.nested_classes: Dict[str, ClassInfo] = {}
        self.is_overload_stub = any(d.endswith("overload") for d in self.decorators)
        self.is_abstract = any(d.endswith("abstractmethod") for d in self.decorators)

    def __repr__(self):
        return "<Func %s>" % self.qname

    @property
    def lineno(self):
        return self.node.lineno

    @property
    def body(self) -> List[ast.stmt]:
        if isinstance(self.node, ast.Lambda):
            r = ast.Return(value=self.node.body)
            ast.copy_location(r, self.node.body)
            return [r]
        return self.node.body

    @property
    def self_class(self) -> Optional[ClassInfo]:
        """Class that `self` refers to inside this function (closures inherit it from their parent)."""
        f = self
        while f is not None:
            if f.cls is not None and f.kind in ("method", "getter", "setter", "class"):
                return f.cls
            f = f.parent
        return None

    @property
    def self_name(self) -> Optional[str]:
        """Name of the receiver parameter visible in this function's body."""
        f = self
        while f is not None:
            if f.cls is not None and f.kind in ("method", "getter", "setter", "class"):
                args = f.node.args
                pos = list(args.posonlyargs) + list(args.args)
                return pos[0].arg if pos else None
            f = f.parent
        return None

    def params(self) -> List[str]:
        a = self.node.args
        names = [x.arg for x in list(a.posonlyargs) + list(a.args)]
        return names

    def all_param_names(self) -> List[str]:
        a = self.node.args
        names = [x.arg for x in list(a.posonlyargs) + list(a.args) + list(a.kwonlyargs)]
        if a.vararg:
            names.append(a.vararg.arg)
        if a.kwarg:
            names.append(a.kwarg.arg)
        return names

    def loc(self) -> str:
        return "%s:%d" % (self.module.relpath, self.node.lineno)


class Program:
    def __init__(self, root: str = None, units: Iterable[str] = None):
        self.root = root or REPO
        self.modules: Dict[str, Module] = {}
        self.classes: Dict[str, ClassInfo] = {}       # qname -> ClassInfo
        self.functions: Dict[str, FuncInfo] = {}      # qname -> FuncInfo
        self.by_class_name: Dict[str, List[ClassInfo]] = {}
        self.methods_by_name: Dict[str, List[FuncInfo]] = {}
        self._load(units)
        self._collect()
        self._resolve_bases()

    # ---------------------------------------------------------------- loading
    def _load(self, units):
        files = []
        if units is None:
            pkgdir = os.path.join(self.root, PKG)
            if not os.path.isdir(pkgdir):
                raise AnalysisError("package directory %s not found" % pkgdir)
            for dp, dn, fn in os.walk(pkgdir):
                rel = os.path.relpath(dp, self.root)
                if rel.split(os.sep)[:2] == [PKG, "tests"]:
                    dn[:] = []
                    continue
                dn.sort()
                for f in sorted(fn):
                    if f.endswith(".py"):
                        files.append(os.path.join(rel, f))
            for e in EXTRA_UNITS:
                if os.path.exists(os.path.join(self.root, e)):
                    files.append(e)
        else:
            files = list(units)
        for rel in files:
            path = os.path.join(self.root, rel)
            with open(path, encoding="utf-8") as fh:
                src = fh.read()
            try:
                tree = ast.parse(src, filename=path)
            except SyntaxError as e:
                raise AnalysisError("cannot parse %s: %s" % (rel, e))
            parts = rel[:-3].split(os.sep)
            is_pkg = parts[-1] == "__init__"
            if is_pkg:
                parts = parts[:-1]
            name = ".".join(parts)
            from .reinline import reinline_module
            inl = reinline_module(tree, name)       # new single-use private helpers are spliced back into their caller (sa/reinline.py)
            if inl:
                self.reinlined = getattr(self, "reinlined", []) + ["%s:%s" % (name, q) for q in inl]
            from .canon import canonicalise
            tree = canonicalise(tree, rel)      # one spelling for equivalent comparisons / negated branches (see sa/canon.py)
            self.modules[name] = Module(name, path, rel, src, tree, is_pkg)

    # ---------------------------------------------------------------- collection
    def _abs_module(self, mod: Module, level: int, name: Optional[str]) -> str:
        if level == 0:
            return name or ""
        base = mod.name.split(".")
        if not mod.is_pkg:
            base = base[:-1]
        if level > 1:
            base = base[: len(base) - (level - 1)]
        if name:
            base = base + name.split(".")
        return ".".join(base)

    def _collect(self):
        for mod in self.modules.values():
            self._collect_imports(mod, mod.tree.body)
            self._collect_scope(mod, mod.tree.body, None, None, mod.name)

    def _collect_imports(self, mod: Module, body):
        for st in body:
            if isinstance(st, ast.Import):
                for al in st.names:
                    local = al.asname or al.name.split(".")[0]
                    target = al.name if al.asname else al.name.split(".")[0]
                    mod.imports[local] = ("mod", target)
            elif isinstance(st, ast.ImportFrom):
                target = self._abs_module(mod, st.level, st.module)
                for al in st.names:
                    if al.name == "*":
                        mod.star_imports.append(target)
                    else:
                        mod.imports[al.asname or al.name] = ("sym", target, al.name)
            elif isinstance(st, (ast.If, ast.Try)):
                # imports under `if TYPE_CHECKING:` / try-except are honoured for name resolution
                for field in ("body", "orelse", "finalbody"):
                    self._collect_imports(mod, getattr(st, field, []) or [])
                for h in getattr(st, "handlers", []) or []:
                    self._collect_imports(mod, h.body)

    def _collect_scope(self, mod: Module, body, cls: Optional[ClassInfo], func: Optional[FuncInfo], prefix: str):
        for st in body:
            if isinstance(st, (ast.FunctionDef, ast.AsyncFunctionDef)):
                self._add_function(mod, st, cls, func, prefix)
            elif isinstance(st, ast.ClassDef):
                self._add_class(mod, st, func, prefix)
            elif isinstance(st, (ast.If, ast.Try, ast.With)) and cls is None:
                for field in ("body", "orelse", "finalbody"):
                    self._collect_scope(mod, getattr(st, field, []) or [], cls, func, prefix)
                for h in getattr(st, "handlers", []) or []:
                    self._collect_scope(mod, h.body, cls, func, prefix)
            elif isinstance(st, (ast.If, ast.Try, ast.With)) and cls is not None:
                for field in ("body", "orelse", "finalbody"):
                    self._collect_scope(mod, getattr(st, field, []) or [], cls, func, prefix)
            elif isinstance(st, ast.Assign) and func is None:
                for t in st.targets:
                    if isinstance(t, ast.Name):
                        if cls is not None:
                            cls.class_attrs[t.id] = st.value
                        else:
                            mod.globals[t.id] = st.value
                    elif isinstance(t, ast.Tuple) and isinstance(st.value, ast.Tuple) and len(t.elts) == len(st.value.elts):
                        for tt, vv in zip(t.elts, st.value.elts):
                            if isinstance(tt, ast.Name):
                                (cls.class_attrs if cls is not None else mod.globals)[tt.id] = vv
            elif isinstance(st, ast.AnnAssign) and func is None and isinstance(st.target, ast.Name):
                if cls is not None:
                    cls.class_ann[st.target.id] = st.annotation
                    if st.value is not None:
                        cls.class_attrs[st.target.id] = st.value
                elif st.value is not None:
                    mod.globals[st.target.id] = st.value

    def _add_class(self, mod: Module, node: ast.ClassDef, func: Optional[FuncInfo], prefix: str):
        qname = prefix + "." + node.name
        ci = ClassInfo(qname, node.name, node, mod, func)
        self.classes[qname] = ci
        self.by_class_name.setdefault(node.name, []).append(ci)
        if func is None and prefix == mod.name:
            mod.classes[node.name] = ci
        elif func is not None:
            func.nested_classes[node.name] = ci
        self._collect_scope(mod, node.body, ci, func, qname)

    def _add_function(self, mod: Module, node, cls: Optional[ClassInfo], parent: Optional[FuncInfo], prefix: str):
        decos = [ast.unparse(d) for d in node.decorator_list]
        kind = "function"
        qname = prefix + "." + node.name
        if cls is not None:
            kind = "method"
            if any(d == "staticmethod" for d in decos):
                kind = "static"
            elif any(d == "classmethod" for d in decos):
                kind = "class"
            elif any(d == "property" or d.endswith(".getter") for d in decos):
                kind = "getter"
            elif any(d.endswith(".setter") for d in decos):
                kind = "setter"
                qname += "@setter"
            elif any(d.endswith(".deleter") for d in decos):
                kind = "setter"
                qname += "@deleter"
        elif parent is not None:
            kind = "closure"
        fi = FuncInfo(qname, node.name, node, mod, cls, parent, kind)
        if fi.is_overload_stub:
            return
        self.functions[qname] = fi
        if cls is not None:
            if kind == "getter":
                cls.getters[node.name] = fi
            elif kind == "setter":
                if qname.endswith("@setter"):
                    cls.setters[node.name] = fi
            else:
                cls.methods[node.name] = fi
            self.methods_by_name.setdefault(node.name, []).append(fi)
        elif parent is not None:
            parent.nested[node.name] = fi
        else:
            mod.functions[node.name] = fi
        self._collect_nested(mod, fi)

    def _collect_nested(self, mod: Module, fi: FuncInfo):
        """Closures, nested classes, lambdas (named by what they are assigned to, else by position order)."""
        lam_count = [0]

        def visit(n, top=True):
            for ch in ast.iter_child_nodes(n):
                if isinstance(ch, (ast.FunctionDef, ast.AsyncFunctionDef)):
                    self._add_function(mod, ch, None, fi, fi.qname + ".<locals>")
                elif isinstance(ch, ast.ClassDef):
                    self._add_class(mod, ch, fi, fi.qname + ".<locals>")
                elif isinstance(ch, ast.Lambda):
                    lam_count[0] += 1
                    self._add_lambda(mod, ch, fi, "<lambda#%d>" % lam_count[0])
                    # lambdas nested in lambdas are collected by _add_lambda
                else:
                    visit(ch, False)

        body_container = fi.node
        if isinstance(body_container, ast.Lambda):
            visit(body_container)
        else:
            for st in body_container.body:
                if isinstance(st, (ast.FunctionDef, ast.AsyncFunctionDef)):
                    self._add_function(mod, st, None, fi, fi.qname + ".<locals>")
                elif isinstance(st, ast.ClassDef):
                    self._add_class(mod, st, fi, fi.qname + ".<locals>")
                else:
                    # assignments `self.X = lambda ...` / `x = lambda ...` get a stable name
                    if isinstance(st, ast.Assign) and isinstance(st.value, ast.Lambda) and len(st.targets) == 1:
                        t = st.targets[0]
                        if isinstance(t, ast.Attribute) and isinstance(t.value, ast.Name) and t.value.id == fi.self_name and fi.self_class:
                            lf = self._add_lambda(mod, st.value, fi, "<lambda:%s>" % t.attr, attr_of=fi.self_class, attr=t.attr)
                            continue
                        if isinstance(t, ast.Name):
                            self._add_lambda(mod, st.value, fi, "<lambda:%s>" % t.id, local=t.id)
                            continue
                    visit(st)

    def _add_lambda(self, mod, node: ast.Lambda, parent: FuncInfo, label: str, attr_of: ClassInfo = None,
                    attr: str = None, local: str = None):
        qname = parent.qname + ".<locals>." + label
        n = 1
        while qname in self.functions:
            n += 1
            qname = parent.qname + ".<locals>." + label + "~%d" % n
        kind = "lambda"
        fi = FuncInfo(qname, label, node, mod, None, parent, kind)
        self.functions[qname] = fi
        if attr_of is not None:
            # lambda stored in an instance attribute behaves like a method without `self`
            attr_of.methods.setdefault(attr, fi)
            fi.lambda_attr = (attr_of, attr)
        if local is not None:
            parent.nested[local] = fi
        else:
            parent.nested.setdefault(label, fi)
        self._collect_nested(mod, fi)
        return fi

    # ---------------------------------------------------------------- name resolution
    def resolve_symbol(self, modname: str, name: str, _seen=None):
        """Resolve `name` as seen at module level of `modname` to ClassInfo | FuncInfo | Module | ('global', mod, expr) | ('ext', dotted) | None."""
        _seen = _seen or set()
        key = (modname, name)
        if key in _seen:
            return None
        _seen.add(key)
        mod = self.modules.get(modname)
        if mod is None:
            return ("ext", modname + "." + name)
        if name in mod.classes:
            return mod.classes[name]
        if name in mod.functions:
            return mod.functions[name]
        if name in mod.imports:
            imp = mod.imports[name]
            if imp[0] == "mod":
                return self.modules.get(imp[1]) or ("ext", imp[1])
            sub = imp[1] + "." + imp[2]
            if sub in self.modules:
                return self.modules[sub]
            if imp[1] in self.modules:
                return self.resolve_symbol(imp[1], imp[2], _seen)
            return ("ext", imp[1] + "." + imp[2])
        if name in mod.globals:
            return ("global", mod, mod.globals[name])
        for star in mod.star_imports:
            if star in self.modules:
                r = self.resolve_symbol(star, name, _seen)
                if r is not None and not (isinstance(r, tuple) and r[0] == "ext"):
                    return r
        if mod.is_pkg and (modname + "." + name) in self.modules:
            return self.modules[modname + "." + name]
        return None

    def resolve_dotted(self, mod: Module, expr: ast.AST):
        """Resolve Name / dotted Attribute chains that denote modules, classes or functions."""
        if isinstance(expr, ast.Name):
            return self.resolve_symbol(mod.name, expr.id)
        if isinstance(expr, ast.Attribute):
            base = self.resolve_dotted(mod, expr.value)
            if isinstance(base, Module):
                return self.resolve_symbol(base.name, expr.attr)
            if isinstance(base, tuple) and base[0] == "ext":
                return ("ext", base[1] + "." + expr.attr)
            if isinstance(base, ClassInfo):
                f = base.lookup(expr.attr)
                if f:
                    return f
                for c in base.mro:
                    if expr.attr in c.class_attrs:
                        return ("classattr", c, expr.attr, c.class_attrs[expr.attr])
            return None
        if isinstance(expr, ast.Constant) and isinstance(expr.value, str):
            # string annotation
            try:
                sub = ast.parse(expr.value, mode="eval").body
            except SyntaxError:
                return None
            return self.resolve_dotted(mod, sub)
        return None

    def _resolve_bases(self):
        for ci in self.classes.values():
            for b in ci.base_exprs:
                r = self.resolve_dotted(ci.module, b)
                if r is None and ci.outer_func is not None and isinstance(b, ast.Name):
                    r = ci.outer_func.nested_classes.get(b.id)
                if isinstance(r, ClassInfo):
                    ci.bases.append(r)
                    r.subclasses.append(ci)
                else:
                    ci.ext_bases.append(ast.unparse(b))
        for ci in self.classes.values():
            ci.mro = self._c3(ci)

    def _c3(self, ci: ClassInfo, _stack=()) -> List[ClassInfo]:
        if ci in _stack:
            return [ci]
        seqs = [self._c3(b, _stack + (ci,)) for b in ci.bases] + [list(ci.bases)]
        out = [ci]
        seqs = [list(s) for s in seqs if s]
        while seqs:
            for s in seqs:
                cand = s[0]
                if not any(cand in t[1:] for t in seqs):
                    break
            else:
                # inconsistent hierarchy: fall back to depth-first
                cand = seqs[0][0]
            out.append(cand)
            seqs = [[x for x in s if x is not cand] for s in seqs]
            seqs = [s for s in seqs if s]
        return out

    # ---------------------------------------------------------------- convenience
    def cls(self, qname_or_name: str) -> ClassInfo:
        if qname_or_name in self.classes:
            return self.classes[qname_or_name]
        cands = self.by_class_name.get(qname_or_name, [])
        if len(cands) == 1:
            return cands[0]
        raise AnalysisError("anchor class %r not found (candidates: %s)" % (qname_or_name, [c.qname for c in cands]))

    def func(self, spec: str) -> FuncInfo:
        """`Class.method`, `Class.prop@getter`, `Class.prop@setter`, `module.function` or a full qname."""
        if spec in self.functions:
            return self.functions[spec]
        if "." in spec:
            head, tail = spec.rsplit(".", 1)
            which = None
            if "@" in tail:
                tail, which = tail.split("@")
            try:
                ci = self.cls(head)
            except AnalysisError:
                ci = None
            if ci is not None:
                if which == "setter":
                    f = ci.setters.get(tail)
                elif which == "getter":
                    f = ci.getters.get(tail)
                else:
                    f = ci.methods.get(mangle(ci.name, tail)) or ci.methods.get(tail) or ci.getters.get(tail)
                if f:
                    return f
            m = self.modules.get(head)
            if m and tail in m.functions:
                return m.functions[tail]
        raise AnalysisError("anchor function %r not found" % spec)

    def has_func(self, spec: str) -> bool:
        try:
            self.func(spec)
            return True
        except AnalysisError:
            return False

    def src_line(self, mod: Module, lineno: int) -> str:
        if 1 <= lineno <= len(mod.lines):
            return mod.lines[lineno - 1].strip()
        return ""

    def engine_functions(self, module_names: Iterable[str]) -> List[FuncInfo]:
        mods = set(module_names)
        return [f for f in self.functions.values() if f.module.name in mods]


def norm(node: ast.AST) -> str:
    """Normalised source text of a node (formatting- and line-independent)."""
    return ast.unparse(node)
