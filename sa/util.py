"""Small helpers shared by the rule modules."""
from __future__ import annotations

import ast
from typing import Optional

from . import pat


def cfg_root(n):
    """The part of a CFG node's AST that is evaluated at that node."""
    if n.ast is None or n.kind in ("with_exit", "except"):
        return None
    if n.kind == "iter":
        return n.ast.iter
    if n.kind == "with_enter":
        return n.ast.context_expr
    if n.kind == "stmt" and isinstance(n.ast, (ast.FunctionDef, ast.AsyncFunctionDef, ast.ClassDef)):
        return None
    return n.ast


def node_has_call(n, patt) -> bool:
    r = cfg_root(n)
    return r is not None and any(isinstance(x, ast.Call) and pat.match(patt, x) is not None for x in ast.walk(r))


def node_contains(n, sub: ast.AST) -> bool:
    r = cfg_root(n)
    return r is not None and any(x is sub for x in ast.walk(r))


def node_stores_attr(n, attr, value_pat=None, recv="self") -> bool:
    r = cfg_root(n)
    if r is None or not isinstance(r, (ast.Assign, ast.AugAssign, ast.AnnAssign)):
        return False
    tg = r.targets if isinstance(r, ast.Assign) else [r.target]
    for t in tg:
        if isinstance(t, ast.Attribute) and t.attr == attr and (recv is None or (isinstance(t.value, ast.Name) and t.value.id == recv)):
            if value_pat is None or (r.value is not None and pat.match(value_pat, r.value) is not None):
                return True
    return False


def has_fact(facts, patt: str, pol: bool, binds=None) -> bool:
    """Is there a literal with polarity `pol` whose atom matches the pattern?"""
    for (txt, p) in facts:
        if p != pol:
            continue
        try:
            e = ast.parse(txt, mode="eval").body
        except SyntaxError:
            continue
        if pat.match(patt, e, binds) is not None:
            return True
    return False


def fact_binds(facts, patt: str, pol: bool):
    out = []
    for (txt, p) in facts:
        if p != pol:
            continue
        try:
            e = ast.parse(txt, mode="eval").body
        except SyntaxError:
            continue
        m = pat.match(patt, e)
        if m is not None:
            out.append(m)
    return out


def exists_in(facts, subject_pat: str, members: set, pol: bool = True) -> bool:
    """Do the facts imply `<subject> in members` (pol=True) or `<subject> not in members` (pol=False)?
    Recognises ==, is, in (tuple/list/set literal)."""
    for (txt, p) in facts:
        try:
            e = ast.parse(txt, mode="eval").body
        except SyntaxError:
            continue
        if not (isinstance(e, ast.Compare) and len(e.ops) == 1):
            continue
        if pat.match(subject_pat, e.left) is None:
            # symmetrical form  CONST == subject
            if isinstance(e.ops[0], (ast.Eq, ast.Is)) and pat.match(subject_pat, e.comparators[0]) is not None and isinstance(e.left, ast.Name):
                names = {e.left.id}
            else:
                continue
        else:
            rhs = e.comparators[0]
            if isinstance(e.ops[0], (ast.Eq, ast.Is)) and isinstance(rhs, (ast.Name, ast.Attribute)):
                names = {ast.unparse(rhs).split(".")[-1]}
            elif isinstance(e.ops[0], ast.In) and isinstance(rhs, (ast.Tuple, ast.List, ast.Set)):
                names = {ast.unparse(x).split(".")[-1] for x in rhs.elts}
            else:
                continue
        if pol and p and names <= members:
            return True
        if (not pol) and (not p) and members <= names:
            return True
    return False


def call_name(c: ast.Call) -> Optional[str]:
    if isinstance(c.func, ast.Attribute):
        return c.func.attr
    if isinstance(c.func, ast.Name):
        return c.func.id
    return None


def fact_in(facts, text: str, pol: bool) -> bool:
    """Membership of a literal given as text, independent of operand order / double negation in the source."""
    from .canon import canon_text
    return (canon_text(text), pol) in facts or (text, pol) in facts


def extra_facts(facts, allowed):
    """Literals of `facts` that match none of the allowed (pattern, polarity) pairs (patterns may use $metavariables)."""
    out = []
    for (txt, pol) in sorted(facts):
        try:
            e = ast.parse(txt, mode="eval").body
        except SyntaxError:
            out.append((txt, pol))
            continue
        if not any(pol == apol and pat.match(ap, e) is not None for ap, apol in allowed):
            out.append((txt, pol))
    return out


def local_assigned_from(ctx, f, call_pattern: str, index: int = None):
    """Name of the local variable that receives the value of the (single) call matching `call_pattern` in f
    (for `a, b = call(...)` give the tuple index).  None when there is no such unique assignment."""
    names = set()
    for n in ctx.own_nodes(f):
        if isinstance(n, (ast.Assign, ast.AnnAssign)) and n.value is not None and isinstance(n.value, ast.Call) and pat.match(call_pattern, n.value) is not None:
            tg = n.targets[0] if isinstance(n, ast.Assign) else n.target
            if index is None and isinstance(tg, ast.Name):
                names.add(tg.id)
            elif index is not None and isinstance(tg, (ast.Tuple, ast.List)) and index < len(tg.elts) and isinstance(tg.elts[index], ast.Name):
                names.add(tg.elts[index].id)
    return sorted(names)[0] if len(names) == 1 else None


def side_names(ctx, f, sa=None):
    """(changed, synced) as spelled in f.  Order of preference: the complementary parameter pair inferred by the side analysis;
    a parameter p with a local assigned OTHER_SIDE[p] / other_side(p) / 1 - p; the conventional names."""
    if sa is not None:
        prs = sorted(sa.pairs.get(f.qname, ()))
        if prs:
            return prs[0]
    params = f.all_param_names()
    for n in ctx.own_nodes(f):
        if isinstance(n, ast.Assign) and isinstance(n.targets[0], ast.Name):
            for p_ in params:
                if pat.match("OTHER_SIDE[%s]" % p_, n.value) is not None or pat.match("other_side(%s)" % p_, n.value) is not None or pat.match("1 - %s" % p_, n.value) is not None:
                    return p_, n.targets[0].id
    ch = "changed" if "changed" in params else None
    sy = "synced" if "synced" in params else None
    return ch, sy


def disjunctions(facts):
    """The compound literals of `facts` (disjunctions in negation normal form, see guards.nnf) as lists of disjunct texts."""
    out = []
    for (txt, pol) in facts:
        if not pol:
            continue
        try:
            e = ast.parse(txt, mode="eval").body
        except SyntaxError:
            continue
        if isinstance(e, ast.BoolOp) and isinstance(e.op, ast.Or):
            out.append([ast.unparse(v) for v in e.values])
    return out


def with_private_helpers(ctx, f, depth: int = 2):
    """f plus the private methods of its class that f calls on self and that nothing else calls (an extract-method refactoring
    moves statements there): rules about 'what f does' read these bodies as part of f."""
    out = [f]
    frontier = [f]
    for _ in range(depth):
        nxt = []
        for g in frontier:
            if g.cls is None or not getattr(g, "self_name", None):
                continue
            for n in ctx.own_nodes(g):
                if isinstance(n, ast.Call) and isinstance(n.func, ast.Attribute) and isinstance(n.func.value, ast.Name) and n.func.value.id == g.self_name \
                        and n.func.attr.startswith("_") and not n.func.attr.endswith("__"):
                    h = g.cls.lookup(n.func.attr)
                    if h is not None and h not in out and {s.func.qname for s in ctx.callers(h)} <= {x.qname for x in out}:
                        out.append(h)
                        nxt.append(h)
        frontier = nxt
    return out


def unalias(ctx, f, e):
    """`provider = self.providers[side]` hoisted into a local: the expression a plain local stands for (single assignment, attribute /
    subscript chain without calls); anything else is returned unchanged."""
    if isinstance(e, ast.Name):
        defs = [n.value for n in ctx.own_nodes(f) if isinstance(n, (ast.Assign, ast.AnnAssign)) and getattr(n, "value", None) is not None
                and any(isinstance(t, ast.Name) and t.id == e.id for t in (n.targets if isinstance(n, ast.Assign) else [n.target]))]
        if len(defs) == 1 and all(isinstance(x, (ast.Attribute, ast.Subscript, ast.Name, ast.Load, ast.Constant)) for x in ast.walk(defs[0])):
            return defs[0]
    return e


def method_calls(ctx, f, recv_pattern: str, method: str):
    """Calls `<recv>.<method>(...)` in f where <recv> matches the pattern directly or through a hoisted local alias."""
    out = []
    for n in ctx.own_nodes(f):
        if isinstance(n, ast.Call) and isinstance(n.func, ast.Attribute) and n.func.attr == method and pat.match(recv_pattern, unalias(ctx, f, n.func.value)) is not None:
            out.append(n)
    return out


def test_is(n, pattern: str):
    """Does the CFG test node evaluate the pattern's condition?  Both are compared in negation normal form, so a De Morgan respelling of the
    source matches; returns +1 when the test IS the condition, -1 when it is its negation (true and false edges swapped), 0 otherwise."""
    from .guards import nnf
    if n.kind != "test":
        return 0
    p = pat.compile_pat(pattern)
    if pat.match(nnf(p), nnf(n.ast)) is not None:
        return 1
    if pat.match(nnf(p, False), nnf(n.ast)) is not None:
        return -1
    return 0
