"""Tiny structural pattern matcher over Python expressions / statements.

Patterns are written as Python source with metavariables:
    $X      matches any expression and binds it (a second occurrence must be structurally equal)
    $_      matches any expression, binds nothing
    $$$     (only as a call argument / list element) matches any remaining positional and keyword arguments
Names in the pattern match the same name in the code; attribute names and constants match literally.
"""
from __future__ import annotations

import ast
import re
from typing import Dict, Optional, List

_MV = "__mv_"
_cache: Dict[str, ast.AST] = {}


def compile_pat(p: str) -> ast.AST:
    if p in _cache:
        return _cache[p]
    src = p.replace("$$$", _MV + "REST__")
    src = re.sub(r"\$([A-Za-z_][A-Za-z0-9_]*)", lambda m: _MV + m.group(1), src)
    tree = ast.parse(src.strip())
    from .canon import canonicalise
    tree = canonicalise(tree)
    node = tree.body[0]
    if isinstance(node, ast.Expr):
        node = node.value
    _cache[p] = node
    return node


def _is_mv(n) -> Optional[str]:
    if isinstance(n, ast.Name) and n.id.startswith(_MV):
        return n.id[len(_MV):]
    return None


def same(a: ast.AST, b: ast.AST) -> bool:
    # the same expression in load and in store position (a comprehension's target and its uses) is the same expression
    return ast.dump(a).replace("ctx=Store()", "ctx=Load()") == ast.dump(b).replace("ctx=Store()", "ctx=Load()")


def match(pat, node, binds: Dict[str, ast.AST] = None) -> Optional[Dict[str, ast.AST]]:
    if isinstance(pat, str):
        pat = compile_pat(pat)
    b = dict(binds or {})
    return b if _m(pat, node, b) else None


def _m(p, n, b) -> bool:
    mv = _is_mv(p)
    if mv is not None:
        if mv == "_":
            return isinstance(n, ast.AST)
        if mv in b:
            return isinstance(n, ast.AST) and same(b[mv], n)
        if not isinstance(n, ast.AST):
            return False
        b[mv] = n
        return True
    if type(p) is not type(n):
        return False
    if isinstance(p, ast.Compare) and len(p.ops) == 1 and len(n.ops) == 1 and type(p.ops[0]) is type(n.ops[0]) \
            and isinstance(p.ops[0], (ast.Eq, ast.NotEq, ast.Is, ast.IsNot)):
        # equality is symmetric: try both operand orders (bindings are rolled back between attempts)
        for (pl, pr) in ((p.left, p.comparators[0]), (p.comparators[0], p.left)):
            trial = dict(b)
            if _m(pl, n.left, trial) and _m(pr, n.comparators[0], trial):
                b.clear()
                b.update(trial)
                return True
        return False
    if isinstance(p, ast.AST):
        for field in p._fields:
            if field in ("ctx", "type_comment", "kind", "lineno", "col_offset", "end_lineno", "end_col_offset"):
                continue
            pv, nv = getattr(p, field, None), getattr(n, field, None)
            if isinstance(p, ast.Call) and field in ("args", "keywords"):
                if field == "args":
                    if pv and _is_mv(pv[-1]) == "REST__":
                        if len(nv) < len(pv) - 1:
                            return False
                        if not all(_m(x, y, b) for x, y in zip(pv[:-1], nv)):
                            return False
                        continue
                else:
                    if p.args and _is_mv(p.args[-1]) == "REST__":
                        # keywords named in the pattern must be present; others are free
                        for kw in pv:
                            found = [k for k in nv if k.arg == kw.arg]
                            if not found or not _m(kw.value, found[0].value, b):
                                return False
                        continue
            if not _mv_field(pv, nv, b):
                return False
        return True
    return p == n


def _mv_field(pv, nv, b) -> bool:
    if isinstance(pv, list):
        if not isinstance(nv, list) or len(pv) != len(nv):
            return False
        return all(_m(x, y, b) for x, y in zip(pv, nv))
    if isinstance(pv, ast.AST):
        return _m(pv, nv, b)
    return pv == nv


def find(pat, root: ast.AST, binds=None) -> List[tuple]:
    """All (node, bindings) under root (inclusive) that match pat; does not descend into nested defs/lambdas."""
    if isinstance(pat, str):
        pat = compile_pat(pat)
    out = []

    def rec(n):
        r = match(pat, n, binds)
        if r is not None:
            out.append((n, r))
        for ch in ast.iter_child_nodes(n):
            if isinstance(ch, (ast.FunctionDef, ast.AsyncFunctionDef, ast.ClassDef, ast.Lambda)):
                continue
            rec(ch)

    rec(root)
    return out


def subst(pat, binds: Dict[str, ast.AST]) -> ast.AST:
    """Instantiate a pattern with bindings (used to build the expected guard from a call site)."""
    if isinstance(pat, str):
        pat = compile_pat(pat)

    class S(ast.NodeTransformer):
        def visit_Name(self, n):
            mv = _is_mv(n)
            if mv is not None and mv in binds:
                return binds[mv]
            return n

    import copy
    return S().visit(copy.deepcopy(pat))
