"""Linear-inequality normal form over named symbols (DESIGN.md 2.8, used by C17.A2).

`a <= b - c`, `b - a >= c`, `a + c <= b` all normalise to the same (coefficients, relation) pair, where the relation is
`<=0` or `<0` after moving everything to the left-hand side.  Anything outside +, -, names (through a caller-supplied
symbol function) and numeric constants raises Undecided.
"""
from __future__ import annotations

import ast
from fractions import Fraction
from typing import Callable, Dict, Optional, Tuple


class Undecided(Exception):
    pass


def linear(e: ast.AST, sym: Callable[[ast.AST], Optional[str]]) -> Dict[str, Fraction]:
    s = sym(e)
    if s is not None:
        return {s: Fraction(1)}
    if isinstance(e, ast.Constant) and isinstance(e.value, (int, float)) and not isinstance(e.value, bool):
        return {"1": Fraction(e.value).limit_denominator(10 ** 9)} if e.value else {}
    if isinstance(e, ast.BinOp) and isinstance(e.op, (ast.Add, ast.Sub)):
        a, b = linear(e.left, sym), linear(e.right, sym)
        out = dict(a)
        for k, v in b.items():
            out[k] = out.get(k, Fraction(0)) + (v if isinstance(e.op, ast.Add) else -v)
        return {k: v for k, v in out.items() if v != 0}
    if isinstance(e, ast.UnaryOp) and isinstance(e.op, ast.USub):
        return {k: -v for k, v in linear(e.operand, sym).items()}
    if isinstance(e, ast.BinOp) and isinstance(e.op, ast.Mult):
        for c, x in ((e.left, e.right), (e.right, e.left)):
            if isinstance(c, ast.Constant) and isinstance(c.value, (int, float)):
                return {k: v * Fraction(c.value).limit_denominator(10 ** 9) for k, v in linear(x, sym).items()}
    raise Undecided("`%s` is not linear over the recognised symbols" % ast.unparse(e))


def normal_form(cmp: ast.Compare, sym) -> Tuple[Tuple[Tuple[str, Fraction], ...], str]:
    if not (isinstance(cmp, ast.Compare) and len(cmp.ops) == 1):
        raise Undecided("not a single comparison: %s" % ast.unparse(cmp))
    op = cmp.ops[0]
    l, r = linear(cmp.left, sym), linear(cmp.comparators[0], sym)
    d = dict(l)
    for k, v in r.items():
        d[k] = d.get(k, Fraction(0)) - v
    d = {k: v for k, v in d.items() if v != 0}
    if isinstance(op, (ast.LtE, ast.Lt)):
        rel = "<=0" if isinstance(op, ast.LtE) else "<0"
    elif isinstance(op, (ast.GtE, ast.Gt)):
        d = {k: -v for k, v in d.items()}
        rel = "<=0" if isinstance(op, ast.GtE) else "<0"
    else:
        raise Undecided("relation %s is not an ordering" % type(op).__name__)
    return tuple(sorted(d.items())), rel
