"""Canonicalisation against extract-method refactorings (DESIGN.md 7.9).

The rules are anchored in the functions of the pinned tree (`sa/inventory.json`: every function name per module, regenerated with
`tools/gen_inventory.py` after a deliberate change).  When a developer moves a few statements of such a function into a NEW private helper
with a single call site, every anchored rule would look at a function that no longer contains its statements.  Before the program model is
built, each module is therefore brought back to the shape the rules know: a private method that is not in the inventory, is referenced
exactly once in its module - as a call on self / cls / the class, in a method of the same class - and whose body can be spliced
syntactically, is inlined at that call site and removed.

What can be spliced (`transform`): guard clauses are turned into if/else, a loop that returns from its body into `for ..: break` + `else:`;
a return inside try / with is given up on; parameters are substituted by the (pure) argument expressions or bound by an assignment, the
helper's own locals are renamed apart.  Call forms: expression statement, `x = h(..)`, `return h(..)`, and `if [not] h(..):` (the if-body is
duplicated at every return site; constant returns select an arm).  Anything else is left alone - the rules then report what they always
report when an anchor moved: exit 2, undecided.

This is a program transformation of the ANALYSED copy only, and it is behaviour-preserving by construction (it is the inverse of the
refactoring); it never touches /repo.
"""
from __future__ import annotations

import ast
import copy
import json
import os
from typing import Dict, List, Optional, Set

_INV = None


def inventory() -> Dict[str, List[str]]:
    global _INV
    if _INV is None:
        p = os.path.join(os.path.dirname(os.path.abspath(__file__)), "inventory.json")
        _INV = json.load(open(p)) if os.path.exists(p) else {}
    return _INV


class _NotInlinable(Exception):
    pass


def _has_return(st) -> bool:
    for x in ast.walk(st):
        if isinstance(x, (ast.FunctionDef, ast.AsyncFunctionDef, ast.Lambda, ast.ClassDef)) and x is not st:
            continue
        if isinstance(x, ast.Return):
            return True
    return False


def _own_breaks(loop) -> bool:
    """does the loop contain a break / continue-independent `break` of its own (not of a nested loop)?"""
    def rec(stmts):
        for s in stmts:
            if isinstance(s, ast.Break):
                return True
            if isinstance(s, (ast.For, ast.While, ast.AsyncFor, ast.FunctionDef, ast.AsyncFunctionDef, ast.ClassDef)):
                continue
            for fld in ("body", "orelse", "finalbody"):
                sub = getattr(s, fld, None)
                if isinstance(sub, list) and sub and isinstance(sub[0], ast.stmt) and rec(sub):
                    return True
            for h in getattr(s, "handlers", []) or []:
                if rec(h.body):
                    return True
        return False
    return rec(loop.body)


def _jumps(stmts) -> bool:
    return any(isinstance(x, (ast.Break, ast.Continue)) for s in stmts for x in ast.walk(s))


def transform(stmts: List[ast.stmt], on_return, on_fall) -> List[ast.stmt]:
    """Statement list that behaves like `stmts` with every `return X` replaced by the statements on_return(X, node) and falling off the end
    by on_fall() - after either, control continues behind the spliced block.  Guard clauses become if/else (the rest is duplicated into
    the arms); a loop that returns from its body becomes `for ...: ... break` + `else: <rest>` (only when it has no break / else of its own)."""
    for i, s in enumerate(stmts):
        if not _has_return(s):
            continue
        rest = stmts[i + 1:]
        if isinstance(s, ast.Return):
            return stmts[:i] + on_return(s.value, s)
        if isinstance(s, ast.If):
            body = transform(list(s.body) + copy.deepcopy(rest), on_return, on_fall)
            orelse = transform(list(s.orelse) + copy.deepcopy(rest), on_return, on_fall)
            return stmts[:i] + [ast.copy_location(ast.If(test=s.test, body=body or [ast.Pass()], orelse=orelse), s)]
        if isinstance(s, (ast.For, ast.While)) and not s.orelse and not _own_breaks(s):
            def in_loop(body):
                out = []
                for t in body:
                    if isinstance(t, ast.Return):
                        repl = on_return(t.value, t)
                        if _jumps(repl):
                            raise _NotInlinable("jump in the continuation of a return inside a loop")
                        out += repl + [ast.copy_location(ast.Break(), t)]
                        break
                    if isinstance(t, ast.If) and _has_return(t):
                        out.append(ast.copy_location(ast.If(test=t.test, body=in_loop(list(t.body)) or [ast.Pass()], orelse=in_loop(list(t.orelse))), t))
                    elif _has_return(t):
                        raise _NotInlinable("return nested in %s inside a loop" % type(t).__name__)
                    else:
                        out.append(t)
                return out
            new = copy.copy(s)
            new.body = in_loop(list(s.body))
            new.orelse = transform(list(rest), on_return, on_fall) or []
            return stmts[:i] + [new]
        raise _NotInlinable("return inside %s" % type(s).__name__)
    return stmts + on_fall()


def _pure(e: ast.AST) -> bool:
    return all(isinstance(x, (ast.Name, ast.Attribute, ast.Constant, ast.Subscript, ast.Load, ast.Tuple, ast.UnaryOp, ast.USub, ast.Not, ast.BinOp, ast.Sub, ast.Add))
               for x in ast.walk(e))


def _assigned(fn) -> Set[str]:
    out: Set[str] = set()
    for x in ast.walk(fn):
        if isinstance(x, ast.Name) and isinstance(x.ctx, (ast.Store, ast.Del)):
            out.add(x.id)
        elif isinstance(x, ast.ExceptHandler) and x.name:
            out.add(x.name)
        elif isinstance(x, (ast.Import, ast.ImportFrom)):
            for al in x.names:
                out.add((al.asname or al.name).split(".")[0])
    return out


def _instantiate(helper: ast.FunctionDef, call: ast.Call, caller: ast.FunctionDef, is_static: bool, recv: ast.AST) -> List[ast.stmt]:
    """Helper body with parameters replaced by the call's arguments and locals renamed apart from the caller's names."""
    a = helper.args
    if a.vararg or a.kwarg or a.posonlyargs:
        raise _NotInlinable("*args / **kwargs")
    params = [p.arg for p in a.args]
    self_name = None
    if not is_static:
        if not params:
            raise _NotInlinable("no self")
        self_name, params = params[0], params[1:]
    if any(isinstance(x, ast.Starred) for x in call.args) or any(k.arg is None for k in call.keywords):
        raise _NotInlinable("star arguments")
    if len(call.args) > len(params):
        raise _NotInlinable("too many arguments")
    binding: Dict[str, ast.AST] = {}
    for p, v in zip(params, call.args):
        binding[p] = v
    kwonly = [p.arg for p in a.kwonlyargs]
    for k in call.keywords:
        if k.arg not in params + kwonly or k.arg in binding:
            raise _NotInlinable("keyword %s" % k.arg)
        binding[k.arg] = k.value
    defaults = dict(zip(params[len(params) - len(a.defaults):], a.defaults))
    defaults.update({p.arg: d for p, d in zip(a.kwonlyargs, a.kw_defaults) if d is not None})
    for p in params + kwonly:
        if p not in binding:
            if p not in defaults:
                raise _NotInlinable("missing argument %s" % p)
            binding[p] = defaults[p]
    body = copy.deepcopy([s for s in helper.body if not (isinstance(s, ast.Expr) and isinstance(s.value, ast.Constant) and isinstance(s.value.value, str))])
    holder = ast.Module(body=body, type_ignores=[])
    assigned = _assigned(holder)
    caller_names = {x.id for x in ast.walk(caller) if isinstance(x, ast.Name)} | {p.arg for p in caller.args.args + caller.args.kwonlyargs}
    pre: List[ast.stmt] = []
    subst: Dict[str, ast.AST] = {}
    rename: Dict[str, str] = {}
    for p, v in binding.items():
        if p in assigned or not _pure(v):
            # the helper rebinds the parameter, or the argument has effects: bind it once, under a fresh name if needed
            new = p if p not in caller_names else p + "__inl"
            rename[p] = new
            pre.append(ast.copy_location(ast.Assign(targets=[ast.Name(id=new, ctx=ast.Store())], value=copy.deepcopy(v)), call))
        else:
            subst[p] = v
    for n in assigned:
        if n in binding:
            continue
        if n in caller_names:
            rename[n] = n + "__inl"
    if self_name is not None:
        subst[self_name] = recv

    class S(ast.NodeTransformer):
        def visit_Name(self, n):
            if n.id in rename:
                return ast.copy_location(ast.Name(id=rename[n.id], ctx=n.ctx), n)
            if n.id in subst and isinstance(n.ctx, ast.Load):
                return ast.copy_location(copy.deepcopy(subst[n.id]), n)
            return n

        def visit_ExceptHandler(self, h):
            self.generic_visit(h)
            if h.name in rename:
                h.name = rename[h.name]
            return h
    body = [S().visit(s) for s in body]
    return pre + body


def _is_self_call(call: ast.AST, name: str, self_names: Set[str], cls_name: str):
    if isinstance(call, ast.Call) and isinstance(call.func, ast.Attribute) and call.func.attr == name:
        r = call.func.value
        if isinstance(r, ast.Name) and (r.id in self_names or r.id == cls_name):
            return True
        if isinstance(r, ast.Call) and isinstance(r.func, ast.Name) and r.func.id == "super":
            return False
    return False


def _stmt_lists(fn):
    out = []

    def rec(node):
        for fld in ("body", "orelse", "finalbody"):
            lst = getattr(node, fld, None)
            if isinstance(lst, list) and lst and isinstance(lst[0], ast.stmt):
                out.append(lst)
                for s in lst:
                    if not isinstance(s, (ast.FunctionDef, ast.AsyncFunctionDef, ast.ClassDef)):
                        rec(s)
        for h in getattr(node, "handlers", []) or []:
            rec(h)
    rec(fn)
    return out


def reinline_module(tree: ast.Module, modname: str) -> List[str]:
    """Inline every new single-use private helper of every class of the module; returns the names that were inlined."""
    known = set(inventory().get(modname, []))
    if not known:
        return []           # no inventory for this module: nothing is 'new'
    done: List[str] = []
    for _round in range(4):
        progress = False
        for cls in [n for n in ast.walk(tree) if isinstance(n, ast.ClassDef)]:
            methods = [m for m in cls.body if isinstance(m, ast.FunctionDef)]
            for h in methods:
                qn = "%s.%s" % (cls.name, h.name)
                if qn in known or not h.name.startswith("_") or (h.name.startswith("__") and h.name.endswith("__")):
                    continue
                decos = [ast.unparse(d) for d in h.decorator_list]
                if any(d not in ("staticmethod",) for d in decos):
                    continue
                if any(isinstance(x, (ast.Yield, ast.YieldFrom, ast.Await, ast.FunctionDef, ast.AsyncFunctionDef, ast.Lambda, ast.Global, ast.Nonlocal)) and x is not h for x in ast.walk(h)):
                    continue
                mangled = "_%s%s" % (cls.name.lstrip("_"), h.name) if h.name.startswith("__") else None
                refs = [x for x in ast.walk(tree) if (isinstance(x, ast.Attribute) and x.attr in (h.name, mangled)) or (isinstance(x, ast.Name) and x.id == h.name)
                        or (isinstance(x, ast.Constant) and x.value == h.name)]
                if len(refs) != 1 or not isinstance(refs[0], ast.Attribute):
                    continue
                site = None
                for caller in methods:
                    if caller is h:
                        continue
                    self_names = {caller.args.args[0].arg} if caller.args.args else set()
                    for lst in _stmt_lists(caller):
                        for i, st in enumerate(lst):
                            call = None
                            form = None
                            if isinstance(st, ast.Expr) and _is_self_call(st.value, h.name, self_names, cls.name):
                                call, form = st.value, "stmt"
                            elif isinstance(st, ast.Assign) and len(st.targets) == 1 and isinstance(st.targets[0], ast.Name) and _is_self_call(st.value, h.name, self_names, cls.name):
                                call, form = st.value, "assign"
                            elif isinstance(st, ast.AnnAssign) and isinstance(st.target, ast.Name) and st.value is not None and _is_self_call(st.value, h.name, self_names, cls.name):
                                call, form = st.value, "assign"
                            elif isinstance(st, ast.Return) and _is_self_call(st.value, h.name, self_names, cls.name):
                                call, form = st.value, "return"
                            elif isinstance(st, ast.If):
                                t, neg = st.test, False
                                if isinstance(t, ast.UnaryOp) and isinstance(t.op, ast.Not):
                                    t, neg = t.operand, True
                                if _is_self_call(t, h.name, self_names, cls.name):
                                    call, form = t, ("ifnot" if neg else "if")
                            if call is not None and call.func is refs[0]:
                                site = (caller, lst, i, st, call, form)
                if site is None:
                    continue
                caller, lst, i, st, call, form = site
                try:
                    body = _instantiate(h, call, caller, "staticmethod" in decos, call.func.value)
                    if form == "stmt":
                        new = transform(body, lambda v, r: ([ast.copy_location(ast.Expr(value=v), r)] if v is not None and any(isinstance(x, ast.Call) for x in ast.walk(v)) else []),
                                        lambda: [])
                    elif form == "assign":
                        tg = st.targets[0] if isinstance(st, ast.Assign) else st.target
                        mk = lambda v, r: [ast.copy_location(ast.Assign(targets=[ast.Name(id=tg.id, ctx=ast.Store())], value=v if v is not None else ast.Constant(value=None)), r)]   # noqa: E731
                        new = transform(body, mk, lambda: [ast.copy_location(ast.Assign(targets=[ast.Name(id=tg.id, ctx=ast.Store())], value=ast.Constant(value=None)), st)])
                    elif form == "return":
                        # every return of the helper is a return of the caller: nothing to restructure
                        new = body + ([] if body and isinstance(body[-1], (ast.Return, ast.Raise)) else [ast.copy_location(ast.Return(value=None), st)])
                    else:
                        A, B = (st.orelse, st.body) if form == "ifnot" else (st.body, st.orelse)

                        def arm(v, r, A=A, B=B):
                            if v is None or (isinstance(v, ast.Constant) and not v.value):
                                return copy.deepcopy(list(B))
                            if isinstance(v, ast.Constant) and v.value:
                                return copy.deepcopy(list(A))
                            return [ast.copy_location(ast.If(test=v, body=copy.deepcopy(list(A)) or [ast.Pass()], orelse=copy.deepcopy(list(B))), r)]
                        new = transform(body, arm, lambda B=B: copy.deepcopy(list(B)))
                except _NotInlinable:
                    continue
                lst[i:i + 1] = new or [ast.copy_location(ast.Pass(), st)]
                cls.body.remove(h)
                if not cls.body:
                    cls.body.append(ast.Pass())
                done.append(qn)
                progress = True
                break
            if progress:
                break
        if not progress:
            break
    if done:
        ast.fix_missing_locations(tree)
    return done
