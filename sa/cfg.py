"""Statement-level control-flow graphs with exceptional edges and cut queries (DESIGN.md 2.3).

Node kinds
  entry / exit / raise      function entry, normal exit (return or fall off the end), exceptional exit
  stmt                      a simple statement
  test                      the condition of an `if` / `while` / `assert`-free branch; out edges labelled 'T' / 'F'
  iter                      a `for` header; 'T' = next item bound, 'F' = exhausted
  with_enter / with_exit    evaluation of a context expression / leaving the block normally
  except                    entry of an exception handler
  join                      structural merge point (finally copies, loop exits)

Edges are (dst, label) with label in {None, 'T', 'F', 'exc'}.
"""
from __future__ import annotations

import ast
from typing import Callable, Dict, Iterable, List, Optional, Set, Tuple

CATCH_ALL = {"Exception", "BaseException"}


class Node:
    __slots__ = ("id", "kind", "ast", "lineno", "handler_types", "depth", "copy_of", "noreturn")

    def __init__(self, nid: int, kind: str, node: Optional[ast.AST]):
        self.id = nid
        self.kind = kind
        self.ast = node
        self.lineno = getattr(node, "lineno", 0) if node is not None else 0
        self.handler_types: Optional[List[str]] = None
        self.copy_of = None
        self.noreturn = False

    def __repr__(self):
        txt = ""
        if self.ast is not None:
            try:
                txt = ast.unparse(self.ast).split("\n")[0][:60]
            except Exception:
                txt = type(self.ast).__name__
        return "<%d %s L%d %s>" % (self.id, self.kind, self.lineno, txt)


class _Ctx:
    __slots__ = ("exc", "ret", "brk", "cont")

    def __init__(self, exc, ret, brk=None, cont=None):
        self.exc = exc      # list of node ids that receive exceptions raised here
        self.ret = ret      # node id that receives `return`
        self.brk = brk
        self.cont = cont

    def with_(self, **kw):
        c = _Ctx(self.exc, self.ret, self.brk, self.cont)
        for k, v in kw.items():
            setattr(c, k, v)
        return c


def _names_of_handler(h: ast.ExceptHandler) -> List[str]:
    if h.type is None:
        return ["BaseException"]
    ts = h.type.elts if isinstance(h.type, ast.Tuple) else [h.type]
    out = []
    for t in ts:
        if isinstance(t, ast.Attribute):
            out.append(t.attr)
        elif isinstance(t, ast.Name):
            out.append(t.id)
        else:
            out.append(ast.unparse(t))
    return out


def may_raise(node: ast.AST, attr_raises=None) -> bool:
    """Can evaluating this statement / expression raise?  Attribute accesses are decided by `attr_raises(attr_node)`
    when given (property getters/setters and intercepted stores are calls; plain fields of a typed receiver are not)."""
    if isinstance(node, (ast.Pass, ast.Break, ast.Continue, ast.Global, ast.Nonlocal)):
        return False
    for n in ast.walk(node):
        if isinstance(n, (ast.Call, ast.Subscript, ast.BinOp, ast.Raise, ast.Assert, ast.Await,
                          ast.Yield, ast.YieldFrom, ast.Delete, ast.Import, ast.ImportFrom)):
            return True
        if isinstance(n, ast.Attribute):
            if attr_raises is None or attr_raises(n):
                return True
    return False


class CFG:
    def __init__(self, body: List[ast.stmt], noreturn: Callable[[ast.stmt], bool] = None,
                 is_subclass: Callable[[str, str], Optional[bool]] = None, name: str = "",
                 attr_raises: Callable[[ast.Attribute], bool] = None):
        """noreturn(stmt) -> True if the statement never completes normally (e.g. a call of Runnable.backoff).
        is_subclass(a, b) -> True/False when known, None when unknown (class names as written)."""
        self.name = name
        self.nodes: List[Node] = []
        self.succ: Dict[int, List[Tuple[int, Optional[str]]]] = {}
        self.pred: Dict[int, List[Tuple[int, Optional[str]]]] = {}
        self.by_ast: Dict[int, List[Node]] = {}
        self._noreturn = noreturn or (lambda s: False)
        self._is_subclass = is_subclass or (lambda a, b: None)
        self._attr_raises = attr_raises
        self.entry = self._new("entry", None)
        self.exit = self._new("exit", None)
        self.raise_exit = self._new("raise", None)
        ctx = _Ctx([self.raise_exit.id], self.exit.id)
        outs = self._block(body, [(self.entry.id, None)], ctx)
        for (p, lab) in outs:
            self._edge(p, self.exit.id, lab)

    # ------------------------------------------------------------ construction
    def _new(self, kind, node) -> Node:
        n = Node(len(self.nodes), kind, node)
        self.nodes.append(n)
        self.succ[n.id] = []
        self.pred[n.id] = []
        if node is not None:
            self.by_ast.setdefault(id(node), []).append(n)
        return n

    def _edge(self, a: int, b: int, label=None):
        if (b, label) not in self.succ[a]:
            self.succ[a].append((b, label))
            self.pred[b].append((a, label))

    def _connect(self, preds, node: Node):
        for (p, lab) in preds:
            self._edge(p, node.id, lab)

    def _exc_edges(self, node: Node, ctx: _Ctx, raised: Optional[str] = None):
        """Exception edges from `node`; when the raised class is known, stop at the first handler that surely catches it."""
        for tgt in ctx.exc:
            self._edge(node.id, tgt, "exc")

    def _block(self, stmts: List[ast.stmt], preds, ctx: _Ctx):
        for st in stmts:
            preds = self._stmt(st, preds, ctx)
        return preds

    def _stmt(self, st: ast.stmt, preds, ctx: _Ctx):
        if isinstance(st, ast.If):
            t = self._new("test", st.test)
            self._connect(preds, t)
            if may_raise(st.test, self._attr_raises):
                self._exc_edges(t, ctx)
            outs = self._block(st.body, [(t.id, "T")], ctx)
            if st.orelse:
                outs = outs + self._block(st.orelse, [(t.id, "F")], ctx)
            else:
                outs = outs + [(t.id, "F")]
            return outs
        if isinstance(st, ast.While):
            t = self._new("test", st.test)
            self._connect(preds, t)
            if may_raise(st.test, self._attr_raises):
                self._exc_edges(t, ctx)
            after = self._new("join", None)
            const_true = isinstance(st.test, ast.Constant) and bool(st.test.value) is True
            body_out = self._block(st.body, [(t.id, "T")], ctx.with_(brk=after.id, cont=t.id))
            for (p, lab) in body_out:
                self._edge(p, t.id, lab)
            if not const_true:
                els = self._block(st.orelse, [(t.id, "F")], ctx) if st.orelse else [(t.id, "F")]
                for (p, lab) in els:
                    self._edge(p, after.id, lab)
            return [(after.id, None)]
        if isinstance(st, (ast.For, ast.AsyncFor)):
            it = self._new("iter", st)
            self._connect(preds, it)
            self._exc_edges(it, ctx)
            after = self._new("join", None)
            body_out = self._block(st.body, [(it.id, "T")], ctx.with_(brk=after.id, cont=it.id))
            for (p, lab) in body_out:
                self._edge(p, it.id, lab)
            els = self._block(st.orelse, [(it.id, "F")], ctx) if st.orelse else [(it.id, "F")]
            for (p, lab) in els:
                self._edge(p, after.id, lab)
            return [(after.id, None)]
        if isinstance(st, (ast.With, ast.AsyncWith)):
            cur = preds
            enters = []
            for item in st.items:
                en = self._new("with_enter", item)
                self._connect(cur, en)
                self._exc_edges(en, ctx)
                cur = [(en.id, None)]
                enters.append(en)
            outs = self._block(st.body, cur, ctx)
            ex = self._new("with_exit", st)
            self._connect(outs, ex)
            return [(ex.id, None)]
        if isinstance(st, ast.Try) or (hasattr(ast, "TryStar") and isinstance(st, getattr(ast, "TryStar"))):
            return self._try(st, preds, ctx)
        if isinstance(st, (ast.FunctionDef, ast.AsyncFunctionDef, ast.ClassDef)):
            n = self._new("stmt", st)
            self._connect(preds, n)
            return [(n.id, None)]
        if hasattr(ast, "Match") and isinstance(st, getattr(ast, "Match")):
            subj = self._new("test", st.subject)
            self._connect(preds, subj)
            outs = []
            for case in st.cases:
                outs += self._block(case.body, [(subj.id, "T")], ctx)
            outs.append((subj.id, "F"))
            return outs
        # simple statements
        n = self._new("stmt", st)
        self._connect(preds, n)
        if isinstance(st, ast.Return):
            if st.value is not None and may_raise(st.value, self._attr_raises):
                self._exc_edges(n, ctx)
            self._edge(n.id, ctx.ret, None)
            return []
        if isinstance(st, ast.Raise):
            self._exc_edges(n, ctx)
            return []
        if isinstance(st, ast.Break):
            if ctx.brk is not None:
                self._edge(n.id, ctx.brk, None)
            return []
        if isinstance(st, ast.Continue):
            if ctx.cont is not None:
                self._edge(n.id, ctx.cont, None)
            return []
        if may_raise(st, self._attr_raises):
            self._exc_edges(n, ctx)
        if self._noreturn(st):
            n.noreturn = True
            return []
        return [(n.id, None)]

    def _try(self, st, preds, ctx: _Ctx):
        has_finally = bool(st.finalbody)
        outer = ctx
        if has_finally:
            # separate copies of the finally body for: exception, return, break, continue, normal completion
            j_exc = self._new("join", None)
            outs = self._block(st.finalbody, [(j_exc.id, None)], ctx)
            for (p, lab) in outs:
                for tgt in ctx.exc:
                    self._edge(p, tgt, "exc")
            j_ret = self._new("join", None)
            outs = self._block(st.finalbody, [(j_ret.id, None)], ctx)
            for (p, lab) in outs:
                self._edge(p, ctx.ret, lab)
            brk = cont = None
            if ctx.brk is not None:
                jb = self._new("join", None)
                outs = self._block(st.finalbody, [(jb.id, None)], ctx)
                for (p, lab) in outs:
                    self._edge(p, ctx.brk, lab)
                brk = jb.id
            if ctx.cont is not None:
                jc = self._new("join", None)
                outs = self._block(st.finalbody, [(jc.id, None)], ctx)
                for (p, lab) in outs:
                    self._edge(p, ctx.cont, lab)
                cont = jc.id
            outer = _Ctx([j_exc.id], j_ret.id, brk, cont)
        # handlers
        handler_nodes = []
        catch_all = False
        for h in st.handlers:
            hn = self._new("except", h)
            hn.handler_types = _names_of_handler(h)
            handler_nodes.append(hn)
            if any(t in CATCH_ALL for t in hn.handler_types):
                if "BaseException" in hn.handler_types or h.type is None:
                    catch_all = True
        exc_targets = [hn.id for hn in handler_nodes]
        # an exception not matched by any handler propagates outwards; `except Exception` still lets
        # BaseException through, which only matters for C18.L1 and is decided there on the handler list itself
        if not any(any(t in CATCH_ALL for t in hn.handler_types) for hn in handler_nodes):
            exc_targets = exc_targets + list(outer.exc)
        body_ctx = outer.with_(exc=exc_targets)
        body_out = self._block(st.body, preds, body_ctx)
        if st.orelse:
            body_out = self._block(st.orelse, body_out, outer)
        outs = list(body_out)
        for h, hn in zip(st.handlers, handler_nodes):
            outs += self._block(h.body, [(hn.id, None)], outer)
        if has_finally:
            jn = self._new("join", None)
            for (p, lab) in outs:
                self._edge(p, jn.id, lab)
            outs = self._block(st.finalbody, [(jn.id, None)], ctx)
        return outs

    # ------------------------------------------------------------ queries
    def nodes_of(self, astnode: ast.AST) -> List[Node]:
        return self.by_ast.get(id(astnode), [])

    def find(self, pred: Callable[[Node], bool]) -> List[Node]:
        return [n for n in self.nodes if pred(n)]

    def stmt_nodes_containing(self, sub: ast.AST) -> List[Node]:
        """CFG nodes whose AST contains `sub` (identity)."""
        out = []
        for n in self.nodes:
            if n.ast is None:
                continue
            root = n.ast
            if n.kind == "iter":
                # only the iterable / target belong to the header
                parts = [root.iter, root.target]
            elif n.kind == "with_enter":
                parts = [root.context_expr] + ([root.optional_vars] if root.optional_vars is not None else [])
            elif n.kind in ("with_exit",):
                parts = []
            elif n.kind == "except":
                parts = [root.type] if root.type is not None else []
            elif n.kind == "stmt" and isinstance(root, (ast.FunctionDef, ast.AsyncFunctionDef, ast.ClassDef)):
                parts = []
            else:
                parts = [root]
            for p in parts:
                for x in ast.walk(p):
                    if x is sub:
                        out.append(n)
                        break
                else:
                    continue
                break
        return out

    def reach(self, srcs: Iterable[int], is_target: Callable[[Node], bool], avoid: Callable[[Node], bool] = None,
              follow: Callable[[int, int, Optional[str]], bool] = None, include_src: bool = False) -> Optional[List[Node]]:
        """Shortest path from any of `srcs` to a node satisfying is_target that crosses no node satisfying avoid.

        The source nodes themselves are not tested against avoid / target unless include_src.
        `follow(a, b, label)` filters edges (e.g. ignore 'exc' edges)."""
        avoid = avoid or (lambda n: False)
        follow = follow or (lambda a, b, l: True)
        parent: Dict[int, Optional[int]] = {}
        queue = []
        for s in srcs:
            if s in parent:
                continue
            if include_src:
                if avoid(self.nodes[s]):
                    continue
                if is_target(self.nodes[s]):
                    return [self.nodes[s]]
            parent[s] = None
            queue.append(s)
        i = 0
        while i < len(queue):
            a = queue[i]
            i += 1
            for (b, lab) in self.succ[a]:
                if not follow(a, b, lab):
                    continue
                nb = self.nodes[b]
                if b in parent and not (parent[b] is None and is_target(nb)):
                    continue        # visited (a source that is also a target can still be re-entered: cycles)
                if is_target(nb) and not avoid(nb):
                    path = [nb]
                    x = a
                    while x is not None:
                        path.append(self.nodes[x])
                        x = parent[x]
                    return list(reversed(path))
                if avoid(nb):
                    continue
                parent[b] = a
                queue.append(b)
        return None

    def reachable(self, srcs: Iterable[int], avoid: Callable[[Node], bool] = None,
                  follow: Callable[[int, int, Optional[str]], bool] = None) -> Set[int]:
        avoid = avoid or (lambda n: False)
        follow = follow or (lambda a, b, l: True)
        seen = set()
        todo = list(srcs)
        while todo:
            a = todo.pop()
            for (b, lab) in self.succ[a]:
                if b in seen or not follow(a, b, lab):
                    continue
                if avoid(self.nodes[b]):
                    continue
                seen.add(b)
                todo.append(b)
        return seen

    def co_reachable(self, dsts: Iterable[int], avoid: Callable[[Node], bool] = None,
                     follow: Callable[[int, int, Optional[str]], bool] = None) -> Set[int]:
        """Nodes from which some node of dsts is reachable (backwards closure)."""
        avoid = avoid or (lambda n: False)
        follow = follow or (lambda a, b, l: True)
        seen = set()
        todo = list(dsts)
        while todo:
            b = todo.pop()
            for (a, lab) in self.pred[b]:
                if a in seen or not follow(a, b, lab):
                    continue
                if avoid(self.nodes[a]):
                    continue
                seen.add(a)
                todo.append(a)
        return seen

    def intended(self, a: int, b: int, label) -> bool:
        """Edge filter: normal control flow plus *deliberate* exceptional exits (raise statements and calls of
        never-returning functions such as Runnable.backoff); incidental 'this call might throw' edges are left out."""
        if label != "exc":
            return True
        na = self.nodes[a]
        return na.noreturn or (na.kind == "stmt" and isinstance(na.ast, ast.Raise))

    def dominators(self, follow=None) -> Dict[int, Set[int]]:
        follow = follow or (lambda a, b, l: True)
        ids = [n.id for n in self.nodes]
        reach = self.reachable([self.entry.id], follow=follow) | {self.entry.id}
        dom = {i: set(reach) for i in reach}
        dom[self.entry.id] = {self.entry.id}
        changed = True
        order = [i for i in ids if i in reach]
        while changed:
            changed = False
            for i in order:
                if i == self.entry.id:
                    continue
                ps = [p for (p, lab) in self.pred[i] if p in reach and follow(p, i, lab)]
                if not ps:
                    continue
                new = set.intersection(*[dom[p] for p in ps]) | {i}
                if new != dom[i]:
                    dom[i] = new
                    changed = True
        return dom

    def dump(self) -> str:
        lines = []
        for n in self.nodes:
            lines.append("%r -> %s" % (n, ", ".join("%d%s" % (b, "[" + l + "]" if l else "") for b, l in self.succ[n.id])))
        return "\n".join(lines)


NORMAL = lambda a, b, l: l != "exc"   # noqa: E731  edge filter: normal control flow only


def describe_path(path: List[Node]) -> str:
    parts = []
    for n in path:
        if n.kind in ("join",):
            continue
        if n.ast is not None:
            try:
                txt = ast.unparse(n.ast).split("\n")[0][:70]
            except Exception:
                txt = n.kind
            parts.append("L%d:%s" % (n.lineno, txt))
        else:
            parts.append(n.kind)
    return " -> ".join(parts)
