"""Analysis context shared by the rules: cached CFGs, facts, call-graph helpers, AST utilities."""
from __future__ import annotations

import ast
from typing import Callable, Dict, Iterable, List, Optional, Set, Tuple

from .model import Program, FuncInfo, ClassInfo, AnalysisError, norm
from .resolve import Resolver, CallSite
from .cfg import CFG, Node, NORMAL, describe_path
from .guards import Facts, local_facts, literals
from . import pat

ENGINE_MODULES = ("cloudsync.sync.manager", "cloudsync.sync.state", "cloudsync.event", "cloudsync.cs",
                  "cloudsync.smartsync", "cloudsync.runnable", "cloudsync.notification")


class Ctx:
    def __init__(self, prog: Program = None, res: Resolver = None):
        self.prog = prog or Program()
        self.res = res or Resolver(self.prog)
        self._cfg: Dict[str, CFG] = {}
        self._facts: Dict[str, Facts] = {}
        self._never: Dict[str, bool] = {}
        self._callers: Optional[Dict[str, List[CallSite]]] = None
        self._class_names = {}
        for ci in self.prog.classes.values():
            self._class_names.setdefault(ci.name, ci)

    # ------------------------------------------------------------------ lookups
    def func(self, spec: str) -> FuncInfo:
        return self.prog.func(spec)

    def cls(self, name: str) -> ClassInfo:
        return self.prog.cls(name)

    def sites(self, f: FuncInfo) -> List[CallSite]:
        return self.res.sites.get(f.qname, [])

    def own_nodes(self, f: FuncInfo) -> List[ast.AST]:
        return self.res.own_nodes(f)

    # ------------------------------------------------------------------ never-returning functions
    def never_returns(self, f: FuncInfo) -> bool:
        q = f.qname
        if q in self._never:
            return self._never[q]
        self._never[q] = False          # recursion guard
        if f.is_abstract or isinstance(f.node, ast.Lambda):
            return False
        if any(isinstance(n, (ast.Yield, ast.YieldFrom)) for n in self.own_nodes(f)):
            return False
        g = CFG(f.body, noreturn=lambda st: self._stmt_noreturn(f, st))
        r = g.exit.id not in g.reachable([g.entry.id], follow=NORMAL)
        self._never[q] = r
        return r

    def _stmt_noreturn(self, f: FuncInfo, st: ast.stmt) -> bool:
        if not (isinstance(st, ast.Expr) and isinstance(st.value, ast.Call)):
            return False
        for s in self.sites(f):
            if s.node is st.value and s.kind == "call":
                return bool(s.under) and all(self.never_returns(t) for t in s.under)
        return False

    # ------------------------------------------------------------------ CFG and facts
    def cfg(self, f: FuncInfo) -> CFG:
        q = f.qname
        if q not in self._cfg:
            # attribute accesses that are really calls (property getter/setter, intercepted store) may raise;
            # a plain field of `self` / of a typed receiver with no interception does not
            calls = {id(s.node) for s in self.sites(f) if s.kind in ("getter", "setter", "setattr")}

            def attr_raises(n, calls=calls, f=f):
                if id(n) in calls:
                    return True
                t = self.res.type_of(f, n.value)
                if not t:
                    return True             # unknown receiver: stay conservative
                if any(term[0] == "inst" for term in t):
                    for term in t:
                        if term[0] == "inst" and self.prog.classes[term[1]].lookup("__getattr__") and isinstance(n.ctx, ast.Load):
                            return False    # SideState / SyncEntry field read
                    return False
                return any(term[0] in ("ext",) for term in t) and False

            self._cfg[q] = CFG(f.body, noreturn=lambda st: self._stmt_noreturn(f, st), name=q, attr_raises=attr_raises)
        return self._cfg[q]

    def facts(self, f: FuncInfo) -> Facts:
        q = f.qname
        if q not in self._facts:
            self._facts[q] = Facts(self.cfg(f))
        return self._facts[q]

    def node_of(self, f: FuncInfo, sub: ast.AST) -> List[Node]:
        """CFG nodes of f whose statement/condition contains the AST node `sub`."""
        return self.cfg(f).stmt_nodes_containing(sub)

    def helper_of(self, f: FuncInfo):
        """(caller, call site) when f is a private method with exactly one call site, in another method of its own class (the shape an
        extract-method refactoring produces); None otherwise."""
        if f.cls is None or not f.name.startswith("_") or f.name.endswith("__") or isinstance(f.node, ast.Lambda):
            return None
        sites = [s for s in self.callers(f) if s.kind == "call"]
        if len(sites) != 1 or sites[0].func is f or sites[0].func.cls is None:
            return None
        if sites[0].func.cls is not f.cls and f.cls not in sites[0].func.cls.mro:
            return None
        return sites[0].func, sites[0].node

    def owner(self, f: FuncInfo, depth: int = 3) -> FuncInfo:
        """The method whose body f's statements belong to when extracted single-caller helpers are read as part of their caller."""
        for _ in range(depth):
            h = self.helper_of(f)
            if h is None:
                break
            f = h[0]
        return f

    def facts_inlined(self, f: FuncInfo, sub: ast.AST, depth: int = 3) -> Set[Tuple[str, bool]]:
        """facts_at, plus - for a single-caller private helper - the facts that hold at its call site (in the caller's names)."""
        out = set(self.facts_at(f, sub))
        for _ in range(depth):
            h = self.helper_of(f)
            if h is None:
                break
            out |= set(self.facts_at(h[0], h[1]))
            f = h[0]
        return out

    def facts_at(self, f: FuncInfo, sub: ast.AST) -> Set[Tuple[str, bool]]:
        """Literals that hold whenever expression `sub` (somewhere in f's body) is evaluated.
        With several CFG copies of the statement (finally duplication) the intersection is returned."""
        nodes = self.node_of(f, sub)
        fx = self.facts(f)
        res = None
        for n in nodes:
            if not fx.reachable(n):
                continue
            cur = set(fx.facts(n))
            root = n.ast
            if n.kind == "iter":
                root = n.ast.iter
            elif n.kind == "with_enter":
                root = n.ast.context_expr
            cur |= local_facts(root, sub)
            res = cur if res is None else (res & cur)
        return res or set()

    # ------------------------------------------------------------------ call graph
    def callees(self, f: FuncInfo, over: bool = True, kinds: Iterable[str] = None) -> List[FuncInfo]:
        out = []
        for s in self.sites(f):
            if kinds and s.kind not in kinds:
                continue
            for t in (s.over if over else s.under):
                if t not in out:
                    out.append(t)
        # closures and lambdas defined here may run when called; they are reached through their call sites
        return out

    def callers(self, f: FuncInfo) -> List[CallSite]:
        if self._callers is None:
            self._callers = {}
            for q, sites in self.res.sites.items():
                for s in sites:
                    for t in s.over:
                        self._callers.setdefault(t.qname, []).append(s)
        return self._callers.get(f.qname, [])

    def reach_funcs(self, roots: Iterable[FuncInfo], over: bool = True, stop: Callable[[FuncInfo], bool] = None) -> Dict[str, Optional[Tuple[str, CallSite]]]:
        """Transitive callees with a parent pointer (caller qname, call site) for witness chains."""
        parent: Dict[str, Optional[Tuple[str, CallSite]]] = {}
        todo = []
        for r in roots:
            parent[r.qname] = None
            todo.append(r)
        while todo:
            f = todo.pop()
            if stop and stop(f):
                continue
            for s in self.sites(f):
                for t in (s.over if over else s.under):
                    if t.qname not in parent:
                        parent[t.qname] = (f.qname, s)
                        todo.append(t)
        return parent

    def chain(self, parent: Dict[str, Optional[Tuple[str, CallSite]]], q: str) -> str:
        parts = []
        cur = q
        while cur is not None and parent.get(cur) is not None:
            pq, s = parent[cur]
            parts.append("%s@%s" % (short(cur), s.loc()))
            cur = pq
        parts.append(short(cur) if cur else "?")
        return " <- ".join(parts)

    # ------------------------------------------------------------------ AST helpers
    def calls(self, f: FuncInfo, name: str = None, recv_pat: str = None) -> List[ast.Call]:
        """Call nodes in f's own body whose callee attribute/function name is `name`."""
        out = []
        for n in self.own_nodes(f):
            if isinstance(n, ast.Call):
                fn = n.func
                nm = fn.attr if isinstance(fn, ast.Attribute) else (fn.id if isinstance(fn, ast.Name) else None)
                if name is None or nm == name:
                    if recv_pat is None or (isinstance(fn, ast.Attribute) and pat.match(recv_pat, fn.value) is not None):
                        out.append(n)
        return out

    def site_of(self, f: FuncInfo, node: ast.AST, kind: str = None) -> Optional[CallSite]:
        for s in self.sites(f):
            if s.node is node and (kind is None or s.kind == kind):
                return s
        return None

    def resolved_calls_to(self, f: FuncInfo, targets: Iterable[FuncInfo], over=True) -> List[CallSite]:
        tq = {t.qname for t in targets}
        return [s for s in self.sites(f) if any(t.qname in tq for t in (s.over if over else s.under))]

    def is_subclass_name(self, a: str, b: str) -> Optional[bool]:
        ca, cb = self._class_names.get(a), self._class_names.get(b)
        if ca is None or cb is None:
            builtin = {"Exception": ["BaseException"], "BaseException": []}
            if a == b:
                return True
            if b == "BaseException":
                return True
            if b == "Exception" and ca is not None:
                return True
            return None
        return cb in ca.mro

    def line(self, f: FuncInfo, node: ast.AST) -> str:
        return "%s:%d" % (f.module.relpath, getattr(node, "lineno", f.node.lineno))


def short(q: Optional[str]) -> str:
    if not q:
        return "?"
    return q.replace("cloudsync.", "", 1)


def stmt_key(f: FuncInfo, node: ast.AST, maxlen: int = 90) -> str:
    """Line-independent instance key: qualified function + normalised construct text."""
    txt = norm(node).split("\n")[0]
    if len(txt) > maxlen:
        txt = txt[:maxlen]
    return "%s|%s" % (short(f.qname), txt)


def _assigned_names(st: ast.AST):
    out = []
    tg = []
    if isinstance(st, ast.Assign):
        tg = list(st.targets)
    elif isinstance(st, (ast.AugAssign, ast.AnnAssign)):
        tg = [st.target]
    elif isinstance(st, (ast.For, ast.AsyncFor)):
        tg = [st.target]
    elif isinstance(st, ast.withitem) and st.optional_vars is not None:
        tg = [st.optional_vars]
    while tg:
        t = tg.pop()
        if isinstance(t, (ast.Tuple, ast.List)):
            tg.extend(t.elts)
        elif isinstance(t, ast.Starred):
            tg.append(t.value)
        elif isinstance(t, ast.Name):
            out.append(t.id)
    return out


def reaching_defs(ctx: "Ctx", f: FuncInfo, use: ast.AST, name: str):
    """Assignment statements to local `name` that reach the evaluation of `use` (a node inside f's body).
    Returns (list of defining AST statements, reaches_from_entry: bool)."""
    g = ctx.cfg(f)
    use_nodes = g.stmt_nodes_containing(use)
    defs = [n for n in g.nodes if n.ast is not None and n.kind in ("stmt", "iter", "with_enter") and name in _assigned_names(n.ast)]
    def_ids = {n.id for n in defs}
    use_ids = {n.id for n in use_nodes}
    out = []
    for d in defs:
        if g.reach([d.id], lambda n: n.id in use_ids, avoid=lambda n: n.id in def_ids and n.id not in use_ids) is not None:
            out.append(d.ast)
    from_entry = g.reach([g.entry.id], lambda n: n.id in use_ids, avoid=lambda n: n.id in def_ids and n.id not in use_ids) is not None
    return out, from_entry
