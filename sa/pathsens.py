"""A cut query that discards the paths a reader would call impossible at a glance.

`CFG.reach` is path-insensitive: `if x is not None: validate(x)` followed by `if x is None: x = default` has a CFG path that skips both
arms.  `find_path` is the same query as a depth-first search that remembers the outcome of every test it passed (normalised text ->
truth value, `not` and negated comparison operators folded into the polarity) and refuses an edge that contradicts a remembered outcome,
forgetting an outcome as soon as something the test mentions may have been stored.  `x = <constant>` fixes `x` / `x is None`.
It only ever removes paths, so a `None` answer is as sound as the store-invalidation is (calls invalidate attribute / call / subscript tests).
"""
from __future__ import annotations

import ast
from typing import Callable, Iterable, List, Optional

from .cfg import CFG, Node
from .defassign import _norm_test, _names_of, _stored_names


def find_path(g: CFG, starts: Iterable[int], is_target: Callable[[Node], bool], avoid: Callable[[Node], bool] = None,
              follow: Callable[[int, int, str], bool] = None, budget: int = 50000) -> Optional[List[Node]]:
    avoid = avoid or (lambda n: False)
    follow = follow or (lambda a, b, l: True)
    seen = set()
    stack = [(s, (), (s,)) for s in starts]
    while stack and budget > 0:
        budget -= 1
        nid, mem, path = stack.pop()
        node = g.nodes[nid]
        if len(path) > 1 and is_target(node):
            return [g.nodes[i] for i in path]
        if len(path) > 1 and avoid(node):
            continue
        key = (nid, mem)
        if key in seen:
            continue
        seen.add(key)
        memd = dict(mem)
        a = node.ast
        if node.kind == "stmt" and isinstance(a, ast.Assign) and len(a.targets) == 1 and isinstance(a.targets[0], ast.Name) and isinstance(a.value, ast.Constant):
            nm, val = a.targets[0].id, a.value.value
            for txt in [t for t in memd if nm in _names_of(t)]:
                del memd[txt]
            memd["%s is None" % nm] = val is None
            memd[nm] = bool(val)
        else:
            st = _stored_names(node)
            if st:
                for txt in list(memd):
                    if _names_of(txt) & st or ("<call>" in st and ("(" in txt or "." in txt or "[" in txt)):
                        del memd[txt]
        for (b, lab) in g.succ[nid]:
            if not follow(nid, b, lab):
                continue
            m2 = memd
            if node.kind == "test" and lab in ("T", "F"):
                txt, pos = _norm_test(node.ast)
                pol = (lab == "T") == pos
                if txt in memd and memd[txt] != pol:
                    continue
                # `x` false implies nothing about `x is None`, but `x is None` true implies `x` false
                if txt.endswith(" is None") and pol and memd.get(txt[:-8]) is True:
                    continue
                if memd.get(txt + " is None") is True and pol:
                    continue
                m2 = dict(memd)
                m2[txt] = pol
            stack.append((b, tuple(sorted(m2.items())), path + (b,)))
    return None
