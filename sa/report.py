"""Rule-instance bookkeeping, known findings, evidence and exit codes (DESIGN.md 3)."""
from __future__ import annotations

import ast
import json
import os
import time
from typing import Dict, List, Optional

from . import VERIF, REPO

# evidence / replay files go to /verif unless a scratch run (self-test, triage of another tree) redirects them
OUTROOT = os.environ.get("VERIF_OUT", VERIF)
from .model import AnalysisError, FuncInfo

OK, VIOLATION, NOTE = "ok", "violation", "note"


class Instance:
    __slots__ = ("rule", "key", "loc", "verdict", "detail", "nontrivial", "witness", "func")

    def __init__(self, rule, key, loc, verdict, detail, nontrivial, witness=None, func=None):
        self.rule = rule
        self.key = key
        self.loc = loc
        self.verdict = verdict
        self.detail = detail
        self.nontrivial = nontrivial
        self.witness = witness
        self.func = func

    def as_dict(self):
        d = {"rule": self.rule, "instance": self.key, "at": self.loc, "verdict": self.verdict, "detail": self.detail}
        if self.witness:
            d["witness"] = self.witness
        return d


class Report:
    def __init__(self, prop: str, tier: str):
        self.prop = prop
        self.tier = tier
        self.instances: List[Instance] = []
        self.rules: Dict[str, str] = {}          # rule id -> one-line statement
        self.expect: Dict[str, int] = {}
        self.errors: List[str] = []
        self.assumptions: List[str] = []
        self.extra: Dict[str, object] = {}
        self.t0 = time.time()

    # ---- rule API
    def rule(self, rid: str, text: str, expect_min: int = 1):
        self.rules[rid] = text
        self.expect[rid] = expect_min

    def _add(self, rule, key, loc, verdict, detail, nontrivial, witness, func):
        if rule not in self.rules:
            raise AnalysisError("rule %s used before being declared" % rule)
        if isinstance(loc, FuncInfo):
            func = func or loc.qname
            loc = loc.loc()
        self.instances.append(Instance(rule, key, loc, verdict, detail, nontrivial, witness, func))

    def ok(self, rule, key, loc, detail="", nontrivial=True, func=None):
        self._add(rule, key, loc, OK, detail, nontrivial, None, func)

    def violation(self, rule, key, loc, detail, witness=None, func=None):
        self._add(rule, key, loc, VIOLATION, detail, True, witness, func)

    def note(self, rule, key, loc, detail, func=None):
        self._add(rule, key, loc, NOTE, detail, False, None, func)

    def check(self, rule, key, loc, cond: bool, detail_ok="", detail_bad="", witness=None, nontrivial=True, func=None):
        if cond:
            self.ok(rule, key, loc, detail_ok, nontrivial, func)
        else:
            self.violation(rule, key, loc, detail_bad or detail_ok, witness, func)
        return cond

    def error(self, msg: str):
        self.errors.append(msg)

    def assume(self, text: str):
        if text not in self.assumptions:
            self.assumptions.append(text)

    # ---- finishing
    def finish(self) -> int:
        known = load_known()
        # expected instance counts (a vanished mechanism is an analysis error, never a silent pass)
        for rid, n in self.expect.items():
            got = sum(1 for i in self.instances if i.rule == rid and i.verdict in (OK, VIOLATION))
            if got < n:
                self.errors.append("rule=%s reason=found %d instance(s), expected at least %d (anchor or mechanism vanished)" % (rid, got, n))
        viols = [i for i in self.instances if i.verdict == VIOLATION]
        fresh, listed = [], []
        for v in viols:
            ent = known.get((self.prop, v.rule, v.key))
            if ent is not None and ent.get("status") == "known":
                listed.append((v, ent))
            else:
                fresh.append(v)
        outdir = os.path.join(OUTROOT, "out", self.prop)
        os.makedirs(outdir, exist_ok=True)
        for fn in os.listdir(outdir):
            if fn.endswith(".json"):
                os.unlink(os.path.join(outdir, fn))
        for v, ent in listed:
            print("KNOWN-FINDING: property=%s %s %s -- %s" % (self.prop, v.rule, v.key, ent.get("what", v.detail)))
        for n, v in enumerate(fresh):
            path = os.path.join(outdir, "%d.json" % n)
            with open(path, "w") as fh:
                json.dump({"property": self.prop, "rule": v.rule, "rule_text": self.rules.get(v.rule, ""), "instance": v.key,
                           "at": v.loc, "function": v.func, "detail": v.detail, "witness": v.witness, "repo": REPO}, fh, indent=1)
            print("VIOLATION property=%s replay=%s" % (self.prop, path))
            print("  %s rule=%s instance=%s -- %s%s" % (v.loc, v.rule, v.key, v.detail, (" -- witness: " + v.witness) if v.witness else ""))
        for e in self.errors:
            print("ANALYSIS-ERROR property=%s %s" % (self.prop, e))
        self._write_evidence(len(fresh), len(listed))
        if fresh:
            return 1            # a decided violation stands even if another rule could not be decided
        return 2 if self.errors else 0

    def _write_evidence(self, nviol, nknown):
        decided = [i for i in self.instances if i.verdict in (OK, VIOLATION)]
        distinct = {(i.rule, i.key) for i in decided if i.nontrivial}
        samples = [i.as_dict() for i in decided[:3]]
        # one sample per rule so a reader sees what each rule's obligations look like
        seen = {s["rule"] for s in samples}
        for i in decided:
            if i.rule not in seen:
                seen.add(i.rule)
                samples.append(i.as_dict())
        samples += [i.as_dict() for i in self.instances if i.verdict == VIOLATION and i.as_dict() not in samples]
        notes = [i.as_dict() for i in self.instances if i.verdict == NOTE]
        cov = {
            "explanation": "Static analysis of the source under %s (ast -> program model -> receiver-typed call graph -> "
                           "per-function CFG); each obligation is one rule instance anchored in a construct of the current "
                           "source, decided by the rule's predicate (dominance / cut query / reachability / set or normal-form "
                           "equality). No code of the repository is executed. Rules: %s" % (
                               REPO, "; ".join("%s = %s" % kv for kv in sorted(self.rules.items()))),
            "obligations": len(decided),
            "discharged": sum(1 for i in decided if i.verdict == OK),
            "evaluations": len(decided),
            "distinct_nontrivial": len(distinct),
            "rule": "one case per (rule, anchored construct); non-trivial = decided by a CFG / call-graph / dataflow / "
                    "normal-form query rather than by the mere presence of a name; distinct by (rule id, instance key)",
            "samples": samples,
            "per_rule": {rid: {"instances": sum(1 for i in decided if i.rule == rid),
                               "violations": sum(1 for i in decided if i.rule == rid and i.verdict == VIOLATION),
                               "expect_min": self.expect.get(rid, 0)} for rid in sorted(self.rules)},
            "rule_texts": dict(sorted(self.rules.items())),
            "notes": notes,
            "known_findings_matched": nknown,
            "analysis_errors": self.errors,
            "trusted_base": ["CPython ast parser", "the /verif/sa engine (model, resolver, cfg, guards)",
                             "seed tables naming the mechanisms (an absent seed is an analysis error)"],
            "exhaustive": False,
        }
        cov.update(self.extra)
        ev = {
            "property_id": self.prop,
            "tier": self.tier,
            "seed": int(os.environ.get("VERIF_SEED", "0") or 0),
            "level": "other",
            "coverage": cov,
            "assumptions": self.assumptions + [
                "application overrides of translate / resolve_conflict / prioritize / handle_notification do not touch engine state",
                "no code outside /repo/cloudsync mutates engine objects; reflection is limited to the getattr/setattr forms present today",
            ],
            "wall_s": round(time.time() - self.t0, 3),
            "violations": nviol,
        }
        evdir = os.path.join(OUTROOT, "evidence")
        os.makedirs(evdir, exist_ok=True)
        with open(os.path.join(evdir, "%s.json" % self.prop), "w") as fh:
            json.dump(ev, fh, indent=1, default=str)


def load_known() -> Dict[tuple, dict]:
    path = os.path.join(VERIF, "known_findings.json")
    out = {}
    if os.path.exists(path):
        with open(path) as fh:
            data = json.load(fh)
        for ent in data.get("findings", []):
            out[(ent["property"], ent["rule"], ent["key"])] = ent
    return out


def section(rep: "Report", fn):
    """Run one rule section; a lost anchor inside it is recorded (exit 2 unless a violation is found elsewhere) without stopping the sections that follow."""
    try:
        return fn()
    except AnalysisError as e:
        rep.error("rule=anchor reason=%s" % e)
        return None
