"""Path-condition facts: which branch literals hold on *every* path reaching a CFG node (DESIGN.md 2.5).

A forward must-analysis over the CFG: the true edge of a test adds the literals implied by the condition, the
false edge those implied by its negation (through and/or/not); joins intersect; a store kills the facts that
mention the stored name or access path.  Early `return/continue/raise` in the other arm therefore guard what
follows exactly like an enclosing `if`, and a merge of two differently guarded arms guards nothing.
"""
from __future__ import annotations

import ast
from typing import Dict, FrozenSet, List, Optional, Set, Tuple

from .cfg import CFG, Node

Lit = Tuple[str, bool]          # (normalised atom text, polarity)


_NEG_OP = {ast.Eq: ast.NotEq, ast.NotEq: ast.Eq, ast.Is: ast.IsNot, ast.IsNot: ast.Is, ast.In: ast.NotIn, ast.NotIn: ast.In,
           ast.Lt: ast.GtE, ast.GtE: ast.Lt, ast.Gt: ast.LtE, ast.LtE: ast.Gt}


def nnf(e: ast.AST, pol: bool = True) -> ast.AST:
    """Negation normal form of `e` (pol=True) or of `not e` (pol=False): negations pushed through and/or/not; a negated comparison flips its
    operator only for (in)equality / identity / membership (order comparisons keep an explicit `not`: `not a < b` is not `a >= b` for NaN or
    partial orders).  Used to give compound guard literals ONE spelling whatever De Morgan form the source uses."""
    if isinstance(e, ast.UnaryOp) and isinstance(e.op, ast.Not):
        return nnf(e.operand, not pol)
    if isinstance(e, ast.BoolOp):
        op = e.op if pol else (ast.Or() if isinstance(e.op, ast.And) else ast.And())
        vals = []
        for v in e.values:
            nv = nnf(v, pol)
            if isinstance(nv, ast.BoolOp) and type(nv.op) is type(op):
                vals += nv.values
            else:
                vals.append(nv)
        return ast.BoolOp(op=op, values=vals)
    if not pol:
        if isinstance(e, ast.Compare) and len(e.ops) == 1 and type(e.ops[0]) in (ast.Eq, ast.NotEq, ast.Is, ast.IsNot, ast.In, ast.NotIn):
            return ast.Compare(left=e.left, ops=[_NEG_OP[type(e.ops[0])]()], comparators=e.comparators)
        return ast.UnaryOp(op=ast.Not(), operand=e)
    return e


def literals(cond: ast.AST, pol: bool = True) -> Set[Lit]:
    """Literals that certainly hold when `cond` evaluates to truthiness `pol`."""
    if isinstance(cond, ast.UnaryOp) and isinstance(cond.op, ast.Not):
        return literals(cond.operand, not pol)
    if isinstance(cond, ast.BoolOp):
        if isinstance(cond.op, ast.And) and pol:
            out = set()
            for v in cond.values:
                out |= literals(v, True)
            return out
        if isinstance(cond.op, ast.Or) and not pol:
            out = set()
            for v in cond.values:
                out |= literals(v, False)
            return out
        # a disjunction that holds (or a conjunction that fails): one compound literal, spelled in negation normal form with polarity True
        return {(ast.unparse(nnf(cond, pol)), True)}
    if isinstance(cond, ast.Compare) and len(cond.ops) == 1:
        # normalise negated comparison operators into polarity
        op = cond.ops[0]
        flip = {ast.NotEq: ast.Eq, ast.IsNot: ast.Is, ast.NotIn: ast.In}
        if type(op) in flip:
            c2 = ast.Compare(left=cond.left, ops=[flip[type(op)]()], comparators=cond.comparators)
            return {(ast.unparse(c2), not pol)}
    if isinstance(cond, ast.NamedExpr):
        return literals(cond.value, pol) | {(ast.unparse(cond.target), pol)}
    return {(ast.unparse(cond), pol)}


def _stored_paths(st: ast.AST) -> List[str]:
    """Access paths (as text) written by a statement node."""
    out = []
    targets = []
    if isinstance(st, ast.Assign):
        targets = list(st.targets)
    elif isinstance(st, (ast.AugAssign, ast.AnnAssign)):
        targets = [st.target]
    elif isinstance(st, (ast.For, ast.AsyncFor)):
        targets = [st.target]
    elif isinstance(st, ast.withitem):
        targets = [st.optional_vars] if st.optional_vars is not None else []
    elif isinstance(st, ast.ExceptHandler):
        return [st.name] if st.name else []
    elif isinstance(st, ast.Delete):
        targets = list(st.targets)
    elif isinstance(st, (ast.FunctionDef, ast.ClassDef, ast.AsyncFunctionDef)):
        return [st.name]
    for n in ast.walk(st) if not isinstance(st, (ast.For, ast.AsyncFor, ast.withitem)) else []:
        if isinstance(n, ast.NamedExpr):
            targets.append(n.target)
    todo = list(targets)
    while todo:
        t = todo.pop()
        if isinstance(t, (ast.Tuple, ast.List)):
            todo.extend(t.elts)
        elif isinstance(t, ast.Starred):
            todo.append(t.value)
        elif t is not None:
            out.append(ast.unparse(t))
    return out


def _mentions(atom: str, path: str) -> bool:
    """Does the atom text mention the access path `path` as a whole token sequence?"""
    i = atom.find(path)
    while i >= 0:
        before = atom[i - 1] if i > 0 else " "
        after = atom[i + len(path)] if i + len(path) < len(atom) else " "
        if not (before.isalnum() or before == "_" or before == ".") and not (after.isalnum() or after == "_"):
            return True
        i = atom.find(path, i + 1)
    return False


class Facts:
    def __init__(self, cfg: CFG):
        self.cfg = cfg
        self.at: Dict[int, Optional[FrozenSet[Lit]]] = {n.id: None for n in cfg.nodes}
        self._atoms: Dict[str, ast.AST] = {}
        self._solve()

    def _out(self, n: Node, label, inn: FrozenSet[Lit]) -> FrozenSet[Lit]:
        if n.kind == "test" and label in ("T", "F"):
            lits = literals(n.ast, label == "T")
            return inn | frozenset(lits)
        if n.kind in ("stmt", "iter", "with_enter", "except"):
            if label == "exc" and n.kind == "stmt":
                return inn      # the store may not have happened; facts before it still hold, facts about the target are stale
            node = n.ast
            paths = _stored_paths(node)
            if paths:
                return frozenset(l for l in inn if not any(_mentions(l[0], p) for p in paths))
        return inn

    def _solve(self):
        cfg = self.cfg
        self.at[cfg.entry.id] = frozenset()
        work = [cfg.entry.id]
        while work:
            a = work.pop()
            inn = self.at[a]
            na = cfg.nodes[a]
            for (b, lab) in cfg.succ[a]:
                out = self._out(na, lab, inn)
                # an exception edge leaves the statement half-done: drop facts about anything it stores
                if lab == "exc" and na.kind == "stmt":
                    paths = _stored_paths(na.ast)
                    if paths:
                        out = frozenset(l for l in out if not any(_mentions(l[0], p) for p in paths))
                cur = self.at[b]
                new = out if cur is None else (cur & out)
                if new != cur:
                    self.at[b] = new
                    work.append(b)

    def facts(self, node: Node) -> FrozenSet[Lit]:
        f = self.at.get(node.id)
        return f if f is not None else frozenset()

    def reachable(self, node: Node) -> bool:
        return self.at.get(node.id) is not None


def local_facts(root: ast.AST, sub: ast.AST) -> Set[Lit]:
    """Literals implied by short-circuit evaluation for `sub` being evaluated inside expression/statement `root`."""
    out: Set[Lit] = set()

    def contains(n, target):
        return any(x is target for x in ast.walk(n))

    def rec(n):
        if n is sub:
            return True
        if isinstance(n, ast.BoolOp):
            for i, v in enumerate(n.values):
                if contains(v, sub):
                    for prev in n.values[:i]:
                        out.update(literals(prev, isinstance(n.op, ast.And)))
                    return rec(v)
            return False
        if isinstance(n, ast.IfExp):
            if contains(n.body, sub):
                out.update(literals(n.test, True))
                return rec(n.body)
            if contains(n.orelse, sub):
                out.update(literals(n.test, False))
                return rec(n.orelse)
            return rec(n.test)
        if isinstance(n, (ast.ListComp, ast.SetComp, ast.GeneratorExp, ast.DictComp)):
            elts = [n.elt] if not isinstance(n, ast.DictComp) else [n.key, n.value]
            if any(contains(e, sub) for e in elts):
                for g in n.generators:
                    for c in g.ifs:
                        out.update(literals(c, True))
        for ch in ast.iter_child_nodes(n):
            if contains(ch, sub):
                return rec(ch)
        return False

    rec(root)
    return out


def has(facts, text: str, pol: bool) -> bool:
    return (text, pol) in facts


def atom_asts(facts) -> List[Tuple[ast.AST, bool]]:
    out = []
    for (txt, pol) in facts:
        try:
            out.append((ast.parse(txt, mode="eval").body, pol))
        except SyntaxError:
            continue
    return out
