"""Definite assignment of locals over the statement CFG (DESIGN.md 7.8).

For every local of a function: is there a path from the entry to a read of the local that passes no assignment of it?  A definition whose
statement raised has not happened: out of a defining node only its normal edges count as 'defined'.  The search is path-sensitive in the
cheap way that removes the usual false reports: a path is discarded when it takes both the true and the false edge of tests with the same
text while nothing the test mentions was stored in between (`if a: x = 1 ... if a: use(x)`).
"""
from __future__ import annotations

import ast
import builtins
from typing import Dict, List, Optional, Set, Tuple

from .cfg import CFG, Node

_BUILTINS = set(dir(builtins))


def _targets(t, out):
    if isinstance(t, (ast.Tuple, ast.List)):
        for e in t.elts:
            _targets(e, out)
    elif isinstance(t, ast.Starred):
        _targets(t.value, out)
    elif isinstance(t, ast.Name):
        out.add(t.id)


def assigned_in(node: Node) -> Set[str]:
    """Names bound by the CFG node itself (not by nested statements)."""
    out: Set[str] = set()
    a = node.ast
    if a is None:
        return out
    if node.kind == "iter":
        _targets(a.target, out)
        return out
    if node.kind == "with_enter":
        if a.optional_vars is not None:
            _targets(a.optional_vars, out)
        return out
    if node.kind == "except":
        if getattr(a, "name", None):
            out.add(a.name)
        return out
    if node.kind == "test":
        for x in ast.walk(a):
            if isinstance(x, ast.NamedExpr) and isinstance(x.target, ast.Name):
                out.add(x.target.id)
        return out
    if node.kind != "stmt":
        return out
    if isinstance(a, ast.Assign):
        for t in a.targets:
            _targets(t, out)
    elif isinstance(a, (ast.AugAssign, ast.AnnAssign)):
        if not (isinstance(a, ast.AnnAssign) and a.value is None):
            _targets(a.target, out)
    elif isinstance(a, (ast.Import, ast.ImportFrom)):
        for al in a.names:
            out.add((al.asname or al.name).split(".")[0])
    elif isinstance(a, (ast.FunctionDef, ast.AsyncFunctionDef, ast.ClassDef)):
        out.add(a.name)
    for x in ast.walk(a) if not isinstance(a, (ast.FunctionDef, ast.AsyncFunctionDef, ast.ClassDef)) else []:
        if isinstance(x, ast.NamedExpr) and isinstance(x.target, ast.Name):
            out.add(x.target.id)
    return out


def _own_expr_nodes(node: Node):
    """AST nodes evaluated by this CFG node (header expression only for compound statements)."""
    a = node.ast
    if a is None:
        return []
    if node.kind == "iter":
        roots = [a.iter]
    elif node.kind == "with_enter":
        roots = [a.context_expr]
    elif node.kind == "except":
        roots = [a.type] if a.type is not None else []
    elif node.kind == "test":
        roots = [a]
    elif node.kind == "stmt":
        if isinstance(a, (ast.FunctionDef, ast.AsyncFunctionDef)):
            roots = list(a.decorator_list) + [d for d in a.args.defaults] + [d for d in a.args.kw_defaults if d is not None]
        elif isinstance(a, ast.ClassDef):
            roots = list(a.decorator_list) + list(a.bases)
        else:
            roots = [a]
    else:
        roots = []
    out = []
    stack = list(roots)
    while stack:
        x = stack.pop()
        out.append(x)
        for ch in ast.iter_child_nodes(x):
            if isinstance(ch, (ast.Lambda, ast.FunctionDef, ast.AsyncFunctionDef, ast.ClassDef)):
                continue            # runs later, if at all
            stack.append(ch)
    return out


def read_in(node: Node) -> Dict[str, ast.AST]:
    out = {}
    comp_bound: Set[str] = set()
    nodes = _own_expr_nodes(node)
    for x in nodes:
        if isinstance(x, ast.comprehension):
            t: Set[str] = set()
            _targets(x.target, t)
            comp_bound |= t
    for x in nodes:
        if isinstance(x, ast.Name) and isinstance(x.ctx, ast.Load) and x.id not in comp_bound:
            out.setdefault(x.id, x)
    a = node.ast
    if node.kind == "stmt" and isinstance(a, ast.AugAssign) and isinstance(a.target, ast.Name):
        out.setdefault(a.target.id, a.target)
    return out


import re as _re
# calls that only look: they cannot change the outcome of a remembered test (names of the repository's query helpers and of builtins)
_PURE = _re.compile(r"^(is_[a-z_]+|has_[a-z_]+|needs_sync|paths_match|paths_differ|hash_conflict|path_conflict|isinstance|hasattr|getattr|len|str|int|bool|repr|"
                    r"debug|info|warning|error|exception|log|startswith|endswith|lower|upper|dirname|basename|join|split|normalize_path|normalize_path_separators|"
                    r"is_subpath|is_subpath_of_root|translate|lookup_oid|lookup_path|get|items|values|keys|copy|time|monotonic|getLogger|isEnabledFor)$")


def _stored_names(node: Node) -> Set[str]:
    """Names / attribute roots a node may change (used to invalidate remembered test outcomes)."""
    out = set(assigned_in(node))
    for x in _own_expr_nodes(node):
        if isinstance(x, (ast.Attribute, ast.Subscript)) and isinstance(x.ctx, (ast.Store, ast.Del)):
            r = x
            while isinstance(r, (ast.Attribute, ast.Subscript)):
                r = r.value
            if isinstance(r, ast.Name):
                out.add(r.id)
        if isinstance(x, ast.Call):
            nm = x.func.attr if isinstance(x.func, ast.Attribute) else (x.func.id if isinstance(x.func, ast.Name) else "")
            if not _PURE.match(nm):
                out.add("<call>")
    return out


def undefined_uses(g: CFG, params: Set[str], module_names: Set[str], declared_global: Set[str]) -> List[Tuple[str, Node, List[int]]]:
    """(local, use node, path) for every local that can be read before any assignment."""
    locals_: Set[str] = set()
    for n in g.nodes:
        locals_ |= assigned_in(n)
    locals_ -= params
    locals_ -= declared_global
    results = []
    succ = g.succ
    for name in sorted(locals_):
        defs = {n.id for n in g.nodes if name in assigned_in(n)}
        uses = {n.id: n for n in g.nodes if name in read_in(n)}
        if not uses:
            continue
        # DFS with remembered test outcomes (text -> polarity); bounded
        start = (g.entry.id, ())
        seen = set()
        stack = [(g.entry.id, (), (g.entry.id,))]
        found = None
        budget = 20000
        while stack and found is None and budget > 0:
            budget -= 1
            nid, mem, path = stack.pop()
            key = (nid, mem)
            if key in seen:
                continue
            seen.add(key)
            node = g.nodes[nid]
            if nid in uses and nid != g.entry.id:
                # an AugAssign / `x = x + 1` reads before it writes; a plain def node that also reads counts as a use first
                found = (node, list(path))
                break
            memd = dict(mem)
            # `x = <constant>` fixes the outcome of the simple tests of x that follow (while x is None: ...)
            a = node.ast
            if node.kind == "stmt" and isinstance(a, ast.Assign) and len(a.targets) == 1 and isinstance(a.targets[0], ast.Name) and isinstance(a.value, ast.Constant):
                nm, val = a.targets[0].id, a.value.value
                for txt in [t for t in memd if nm in _names_of(t)]:
                    del memd[txt]
                memd["%s is None" % nm] = val is None
                memd[nm] = bool(val)
                st = set()
            else:
                st = _stored_names(node)
            if st:
                for txt in list(memd):
                    names = {w for w in _names_of(txt)}
                    if names & st or ("<call>" in st and ("(" in txt or "." in txt or "[" in txt)):
                        del memd[txt]
            for (b, lab) in succ[nid]:
                if nid in defs and lab != "exc":
                    continue            # the assignment happened
                m2 = memd
                if node.kind == "test" and lab in ("T", "F"):
                    txt, pos = _norm_test(node.ast)
                    pol = (lab == "T") == pos
                    if txt in memd and memd[txt] != pol:
                        continue        # contradicts an earlier outcome of the same test
                    m2 = dict(memd)
                    m2[txt] = pol
                stack.append((b, tuple(sorted(m2.items())), path + (b,)))
        if found is not None:
            results.append((name, found[0], found[1]))
    return results


_FLIP = {ast.NotEq: ast.Eq, ast.IsNot: ast.Is, ast.NotIn: ast.In}


def _norm_test(e: ast.AST):
    """(text, positive?) with `not` and negated comparison operators folded into the polarity."""
    pos = True
    while isinstance(e, ast.UnaryOp) and isinstance(e.op, ast.Not):
        e, pos = e.operand, not pos
    if isinstance(e, ast.Compare) and len(e.ops) == 1 and type(e.ops[0]) in _FLIP:
        e = ast.Compare(left=e.left, ops=[_FLIP[type(e.ops[0])]()], comparators=e.comparators)
        pos = not pos
    return ast.unparse(e), pos


def _names_of(txt: str) -> Set[str]:
    try:
        e = ast.parse(txt, mode="eval")
    except SyntaxError:
        return set()
    return {x.id for x in ast.walk(e) if isinstance(x, ast.Name)}


def module_level_names(tree: ast.Module) -> Set[str]:
    """Every name a module binds at top level (assignments, defs, classes, imports, for/with/except targets), through if/try/with/for blocks."""
    out: Set[str] = set()

    def rec(stmts):
        for st in stmts:
            if isinstance(st, (ast.FunctionDef, ast.AsyncFunctionDef, ast.ClassDef)):
                out.add(st.name)
                continue
            if isinstance(st, ast.Assign):
                for t in st.targets:
                    _targets(t, out)
            elif isinstance(st, (ast.AugAssign, ast.AnnAssign)):
                _targets(st.target, out)
            elif isinstance(st, (ast.Import, ast.ImportFrom)):
                for al in st.names:
                    if al.name != "*":
                        out.add((al.asname or al.name).split(".")[0])
            elif isinstance(st, (ast.For, ast.AsyncFor)):
                _targets(st.target, out)
            elif isinstance(st, (ast.With, ast.AsyncWith)):
                for it in st.items:
                    if it.optional_vars is not None:
                        _targets(it.optional_vars, out)
            for x in ast.walk(st) if not isinstance(st, (ast.FunctionDef, ast.AsyncFunctionDef, ast.ClassDef)) else []:
                if isinstance(x, ast.NamedExpr) and isinstance(x.target, ast.Name):
                    out.add(x.target.id)
            for fld in ("body", "orelse", "finalbody"):
                sub = getattr(st, fld, None)
                if isinstance(sub, list) and sub and isinstance(sub[0], ast.stmt):
                    rec(sub)
            for h in getattr(st, "handlers", []) or []:
                if h.name:
                    out.add(h.name)
                rec(h.body)
    rec(tree.body)
    return out


def unknown_names(g: CFG, known: Set[str]) -> List[Tuple[str, Node]]:
    """Names read by the function that nothing binds: not a local, parameter, enclosing local, module-level name or builtin."""
    locals_: Set[str] = set()
    for n in g.nodes:
        locals_ |= assigned_in(n)
    out = []
    seen = set()
    for n in g.nodes:
        for name in read_in(n):
            if name in locals_ or name in known or name in _BUILTINS or name in seen:
                continue
            seen.add(name)
            out.append((name, n))
    return out
