"""One-bit lock-set analysis over the receiver-typed call graph (DESIGN.md 2.6).

Generic in what a 'lock region' is (a predicate on `with` items) and what a 'site' is (a predicate producing the
sensitive AST nodes of a function), so that C15 (state lock / state mutations) and C16.P2 (`with self._api()` /
raising OS calls) share it.
"""
from __future__ import annotations

import ast
from typing import Callable, Dict, Iterable, List, Optional, Set, Tuple

from .model import FuncInfo
from .ctx import Ctx, short


class LockSet:
    def __init__(self, ctx: Ctx, is_lock_item: Callable[[FuncInfo, ast.withitem], bool],
                 sites_of: Callable[[FuncInfo], List[Tuple[ast.AST, str]]],
                 over: bool = True, skip: Callable[[FuncInfo], bool] = None):
        self.ctx = ctx
        self.is_lock_item = is_lock_item
        self.sites_of = sites_of
        self.over = over
        self.skip = skip or (lambda f: False)
        self._inlock: Dict[str, Set[int]] = {}
        self._sites: Dict[str, List[Tuple[ast.AST, str]]] = {}

    def locked_nodes(self, f: FuncInfo) -> Set[int]:
        """ids of AST nodes of f lexically inside a lock region."""
        q = f.qname
        if q in self._inlock:
            return self._inlock[q]
        inside: Set[int] = set()

        def rec(n, held):
            if isinstance(n, (ast.FunctionDef, ast.AsyncFunctionDef, ast.ClassDef, ast.Lambda)) and n is not f.node:
                return
            if held:
                inside.add(id(n))
            if isinstance(n, (ast.With, ast.AsyncWith)):
                h = held
                for it in n.items:
                    rec(it.context_expr, h)
                    if it.optional_vars is not None:
                        rec(it.optional_vars, h)
                    if self.is_lock_item(f, it):
                        h = True
                for st in n.body:
                    rec(st, h)
                return
            for ch in ast.iter_child_nodes(n):
                rec(ch, held)

        if isinstance(f.node, ast.Lambda):
            rec(f.node.body, False)
        else:
            for st in f.node.body:
                rec(st, False)
        self._inlock[q] = inside
        return inside

    def regions(self, f: FuncInfo) -> List[ast.With]:
        out = []
        for n in self.ctx.own_nodes(f):
            if isinstance(n, (ast.With, ast.AsyncWith)) and any(self.is_lock_item(f, it) for it in n.items):
                out.append(n)
        return out

    def fsites(self, f: FuncInfo):
        q = f.qname
        if q not in self._sites:
            self._sites[q] = self.sites_of(f)
        return self._sites[q]

    def unlocked_from(self, root: FuncInfo, held: bool = False):
        """Sensitive sites reachable from `root` with the lock bit clear.

        Returns (violations, visited) where violations = list of (func, node, description, chain text) and
        visited = number of (function, bit) states explored."""
        parent: Dict[Tuple[str, bool], Optional[Tuple[Tuple[str, bool], object]]] = {}
        start = (root.qname, held)
        parent[start] = None
        todo = [start]
        viol = []
        nsites = 0
        while todo:
            state = todo.pop()
            q, h = state
            f = self.ctx.prog.functions[q]
            if self.skip(f):
                continue
            inside = self.locked_nodes(f)
            for node, desc in self.fsites(f):
                nsites += 1
                if not h and id(node) not in inside:
                    viol.append((f, node, desc, self._chain(parent, state)))
            for s in self.ctx.sites(f):
                hs = h or id(s.node) in inside
                if s.kind in ("enter", "exit") and not hs:
                    # the context expression of the lock `with` itself
                    pass
                for t in (s.over if self.over else s.under):
                    st = (t.qname, hs)
                    if st not in parent:
                        parent[st] = (state, s)
                        todo.append(st)
        return viol, len(parent), nsites

    def _chain(self, parent, state) -> str:
        parts = []
        cur = state
        while cur is not None:
            p = parent.get(cur)
            if p is None:
                parts.append(short(cur[0]))
                break
            prev, site = p
            parts.append("%s (called at %s)" % (short(cur[0]), site.loc()))
            cur = prev
        return " <- ".join(parts)
