"""Canonicalisation of the analysed AST (and of rule patterns), so that rules see one spelling of equivalent code:

  * `a == b` / `!=` / `is` / `is not`: the constant-like operand (literal, ALL_CAPS name, Enum.MEMBER) goes to the right;
    two non-constant operands are ordered by their text
  * `not not x`  ->  `x`
  * `if not c: A else: B`  ->  `if c: B else: A`   (plain else only; elif chains keep their order)

Line numbers are preserved; nothing here changes behaviour for the value kinds the repository compares.
"""
from __future__ import annotations

import ast


def _constant_like(e: ast.AST) -> bool:
    if isinstance(e, ast.Constant):
        return True
    if isinstance(e, ast.Name) and e.id.isupper() and len(e.id) > 1:
        return True
    if isinstance(e, ast.Attribute) and e.attr.isupper() and len(e.attr) > 1:
        return True
    if isinstance(e, (ast.Tuple, ast.List, ast.Set)) and all(_constant_like(x) for x in e.elts):
        return True
    if isinstance(e, ast.UnaryOp) and isinstance(e.op, ast.USub) and isinstance(e.operand, ast.Constant):
        return True
    return False


def _is_mv(e) -> bool:
    return isinstance(e, ast.Name) and e.id.startswith("__mv_")


class Canon(ast.NodeTransformer):
    def visit_Compare(self, n: ast.Compare):
        self.generic_visit(n)
        if len(n.ops) == 1 and isinstance(n.ops[0], (ast.Eq, ast.NotEq, ast.Is, ast.IsNot)):
            l, r = n.left, n.comparators[0]
            if _is_mv(l) or _is_mv(r):
                # patterns with metavariables are matched symmetrically by sa.pat; only move a constant to the right
                if _constant_like(l) and not _constant_like(r):
                    n.left, n.comparators[0] = r, l
                return n
            cl, cr = _constant_like(l), _constant_like(r)
            swap = False
            if cl and not cr:
                swap = True
            elif cl == cr and ast.unparse(l) > ast.unparse(r):
                swap = True
            if swap:
                n.left, n.comparators[0] = r, l
        return n

    def visit_UnaryOp(self, n: ast.UnaryOp):
        self.generic_visit(n)
        if isinstance(n.op, ast.Not) and isinstance(n.operand, ast.UnaryOp) and isinstance(n.operand.op, ast.Not):
            return n.operand.operand
        return n

    def visit_If(self, n: ast.If):
        self.generic_visit(n)
        if isinstance(n.test, ast.UnaryOp) and isinstance(n.test.op, ast.Not) and n.orelse and \
                not (len(n.orelse) == 1 and isinstance(n.orelse[0], ast.If)):
            n.test = n.test.operand
            n.body, n.orelse = n.orelse, n.body
        return n

    def visit_IfExp(self, n: ast.IfExp):
        self.generic_visit(n)
        if isinstance(n.test, ast.UnaryOp) and isinstance(n.test.op, ast.Not):
            n.test = n.test.operand
            n.body, n.orelse = n.orelse, n.body
        return n


def canonicalise(tree: ast.AST) -> ast.AST:
    return Canon().visit(tree)


def canon_text(text: str) -> str:
    """Canonical spelling of an expression given as text (used to look facts up)."""
    try:
        e = ast.parse(text, mode="eval").body
    except SyntaxError:
        return text
    return ast.unparse(Canon().visit(e))
