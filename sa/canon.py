"""Canonicalisation of the analysed AST (and of rule patterns), so that rules see one spelling of equivalent code:

  * `a == b` / `!=` / `is` / `is not`: the constant-like operand (literal, ALL_CAPS name, Enum.MEMBER) goes to the right;
    two non-constant operands are ordered by their text
  * `not not x`  ->  `x`
  * `if not c: A else: B`  ->  `if c: B else: A`   (plain else only; elif chains keep their order)
  * `if a: if b: X` without else branches  ->  `if a and b: X`
  * an explaining variable: `x = <and / or / not / comparison>` immediately followed by `if x:` (or `if not x:`), with `x` used nowhere else in the function,
    is read as `if <the expression>:` - the test is evaluated at the same point either way

Line numbers are preserved; nothing here changes behaviour for the value kinds the repository compares.
"""
from __future__ import annotations

import ast


def _constant_like(e: ast.AST) -> bool:
    if isinstance(e, ast.Constant):
        return True
    if isinstance(e, ast.Name) and e.id.isupper() and len(e.id) > 1:
        return True
    if isinstance(e, ast.Attribute) and e.attr.isupper() and len(e.attr) > 1:
        return True
    if isinstance(e, (ast.Tuple, ast.List, ast.Set)) and all(_constant_like(x) for x in e.elts):
        return True
    if isinstance(e, ast.UnaryOp) and isinstance(e.op, ast.USub) and isinstance(e.operand, ast.Constant):
        return True
    return False


def _is_mv(e) -> bool:
    return isinstance(e, ast.Name) and e.id.startswith("__mv_")


class Canon(ast.NodeTransformer):
    def visit_Compare(self, n: ast.Compare):
        self.generic_visit(n)
        if len(n.ops) == 1 and isinstance(n.ops[0], (ast.Eq, ast.NotEq, ast.Is, ast.IsNot)):
            l, r = n.left, n.comparators[0]
            if _is_mv(l) or _is_mv(r):
                # patterns with metavariables are matched symmetrically by sa.pat; only move a constant to the right
                if _constant_like(l) and not _constant_like(r):
                    n.left, n.comparators[0] = r, l
                return n
            cl, cr = _constant_like(l), _constant_like(r)
            swap = False
            if cl and not cr:
                swap = True
            elif cl == cr and ast.unparse(l) > ast.unparse(r):
                swap = True
            if swap:
                n.left, n.comparators[0] = r, l
        return n

    def visit_UnaryOp(self, n: ast.UnaryOp):
        self.generic_visit(n)
        if isinstance(n.op, ast.Not) and isinstance(n.operand, ast.UnaryOp) and isinstance(n.operand.op, ast.Not):
            return n.operand.operand
        return n

    def visit_If(self, n: ast.If):
        self.generic_visit(n)
        # `if a: if b: X` (no else on either) is `if a and b: X`
        while not n.orelse and len(n.body) == 1 and isinstance(n.body[0], ast.If) and not n.body[0].orelse:
            inner = n.body[0]
            vals = (list(n.test.values) if isinstance(n.test, ast.BoolOp) and isinstance(n.test.op, ast.And) else [n.test]) + \
                   (list(inner.test.values) if isinstance(inner.test, ast.BoolOp) and isinstance(inner.test.op, ast.And) else [inner.test])
            n.test = ast.copy_location(ast.BoolOp(op=ast.And(), values=vals), n.test)
            n.body = inner.body
        if isinstance(n.test, ast.UnaryOp) and isinstance(n.test.op, ast.Not) and n.orelse and \
                not (len(n.orelse) == 1 and isinstance(n.orelse[0], ast.If)):
            n.test = n.test.operand
            n.body, n.orelse = n.orelse, n.body
        return n

    def visit_IfExp(self, n: ast.IfExp):
        self.generic_visit(n)
        if isinstance(n.test, ast.UnaryOp) and isinstance(n.test.op, ast.Not):
            n.test = n.test.operand
            n.body, n.orelse = n.orelse, n.body
        return n


def _inline_explaining(fn) -> None:
    uses = {}
    for x in ast.walk(fn):
        if isinstance(x, ast.Name):
            uses[x.id] = uses.get(x.id, 0) + 1
        elif isinstance(x, (ast.Global, ast.Nonlocal)):
            for nm in x.names:
                uses[nm] = uses.get(nm, 0) + 10
    for nm in [a.arg for a in fn.args.args + fn.args.kwonlyargs + fn.args.posonlyargs]:
        uses[nm] = uses.get(nm, 0) + 10

    def lists(node):
        for field in ("body", "orelse", "finalbody"):
            v = getattr(node, field, None)
            if isinstance(v, list) and v and isinstance(v[0], ast.stmt):
                yield v
        for h in getattr(node, "handlers", []) or []:
            yield h.body

    def rec(node):
        for lst in lists(node):
            i = 0
            while i + 1 < len(lst):
                a, b = lst[i], lst[i + 1]
                if isinstance(a, ast.Assign) and len(a.targets) == 1 and isinstance(a.targets[0], ast.Name) and isinstance(a.value, (ast.BoolOp, ast.Compare, ast.UnaryOp)) \
                        and isinstance(b, ast.If) and uses.get(a.targets[0].id) == 2 \
                        and not (isinstance(a.value, ast.UnaryOp) and not isinstance(a.value.op, ast.Not)) \
                        and not any(isinstance(x, ast.Call) and isinstance(x.func, ast.Name) and x.func.id in ("any", "all") for x in ast.walk(a.value)):
                    # (a search result `x = not any(...)` stays a flag: it is the spelling of a flag-setting loop)
                    t = b.test
                    neg = isinstance(t, ast.UnaryOp) and isinstance(t.op, ast.Not)
                    inner = t.operand if neg else t
                    if isinstance(inner, ast.Name) and inner.id == a.targets[0].id:
                        val = ast.copy_location(a.value, inner)
                        b.test = ast.copy_location(ast.UnaryOp(op=ast.Not(), operand=val), t) if neg else val
                        del lst[i]
                        continue
                    # the variable explains the FIRST operand the test evaluates: `x = A; if x or B:` is `if A or B:`
                    first = t
                    while isinstance(first, (ast.BoolOp, ast.UnaryOp)):
                        first = first.values[0] if isinstance(first, ast.BoolOp) else first.operand
                    if isinstance(first, ast.Name) and first.id == a.targets[0].id:
                        target = a.targets[0].id
                        value = a.value

                        class R(ast.NodeTransformer):
                            def visit_Name(self, n):
                                return ast.copy_location(value, n) if n.id == target else n
                        b.test = R().visit(t)
                        del lst[i]
                        continue
                i += 1
            for st in lst:
                if not isinstance(st, (ast.FunctionDef, ast.AsyncFunctionDef, ast.ClassDef)):
                    rec(st)
    rec(fn)


_LOCALS = None


def _known_locals(rel: str, cls: str, name: str):
    global _LOCALS
    if _LOCALS is None:
        import json
        import os
        p = os.path.join(os.path.dirname(os.path.abspath(__file__)), "locals_inventory.json")
        _LOCALS = json.load(open(p)) if os.path.exists(p) else {}
    return _LOCALS.get("%s:%s.%s" % (rel, cls, name))


def _LOCALS_get(key):
    _known_locals("", "", "")
    return _LOCALS.get(key)


def _shape_of(v):
    import copy
    names = {}

    class G(ast.NodeTransformer):
        def visit_Name(self, n):
            if n.id == "self":
                return n
            names.setdefault(n.id, "v%d" % len(names))
            return ast.copy_location(ast.Name(id=names[n.id], ctx=n.ctx), n)
    return ast.unparse(G().visit(copy.deepcopy(v)))


def _inline_new_aliases(fn, known) -> None:
    """A local that is NOT one of the method's pinned locals, is assigned exactly once, from a call-free attribute / subscript chain, and is only read afterwards, is
    a hoisted alias (`side_state = ent[side]`): its uses are read as the chain, unless the function stores to a prefix of that chain (the slot may be replaced)."""
    import copy
    stores = {}
    for x in ast.walk(fn):
        if isinstance(x, ast.Name) and isinstance(x.ctx, (ast.Store, ast.Del)):
            stores[x.id] = stores.get(x.id, 0) + 1
    params = {a.arg for a in fn.args.args + fn.args.kwonlyargs + fn.args.posonlyargs}
    stored_chains = {ast.unparse(t) for x in ast.walk(fn) if isinstance(x, (ast.Assign, ast.AugAssign, ast.Delete))
                     for t in (x.targets if isinstance(x, (ast.Assign, ast.Delete)) else [x.target]) if isinstance(t, (ast.Subscript, ast.Attribute))}
    cands = {}
    for st in ast.walk(fn):
        if isinstance(st, ast.Assign) and len(st.targets) == 1 and isinstance(st.targets[0], ast.Name):
            nm = st.targets[0].id
            v = st.value
            if nm in params or stores.get(nm) != 1 or isinstance(v, (ast.Name, ast.Constant)):
                continue
            if _shape_of(v) in known:
                continue        # the pinned method already keeps a chain of this shape in a local: its rules know it by that local
            if not all(isinstance(x, (ast.Attribute, ast.Subscript, ast.Name, ast.Load, ast.Constant)) for x in ast.walk(v)):
                continue
            roots = {x.id for x in ast.walk(v) if isinstance(x, ast.Name)}
            if any(stores.get(r_, 0) > (0 if r_ in params else 1) for r_ in roots if r_ != "self"):
                continue        # a root of the chain is reassigned
            chain = ast.unparse(v)
            if any(chain == sc or chain.startswith(sc + "[") or chain.startswith(sc + ".") for sc in stored_chains):
                continue        # the slot itself (or a prefix of it) is stored to in this function
            cands[nm] = (st, v)
    if not cands:
        return

    class R(ast.NodeTransformer):
        def visit_Name(self, n):
            if isinstance(n.ctx, ast.Load) and n.id in cands:
                return ast.copy_location(copy.deepcopy(cands[n.id][1]), n)
            return n

        def visit_Assign(self, n):
            if any(n is st for (st, _v) in cands.values()):
                return None
            return self.generic_visit(n)
    R().visit(fn)
    for node in ast.walk(fn):
        for field in ("body", "orelse", "finalbody"):
            v = getattr(node, field, None)
            if isinstance(v, list) and not v and field == "body":
                setattr(node, field, [ast.Pass()])


def _inline_new_constants(tree: ast.Module, known) -> None:
    """a module-level `NAME = <literal>` that the pinned module does not have is a named magic number: its uses are read as the literal"""
    consts = {}
    for st in tree.body:
        if isinstance(st, (ast.Assign, ast.AnnAssign)) and getattr(st, "value", None) is not None and isinstance(st.value, ast.Constant) \
                and isinstance(st.value.value, (int, float, str)) and not isinstance(st.value.value, bool):
            tg = st.targets[0] if isinstance(st, ast.Assign) else st.target
            if isinstance(tg, ast.Name) and tg.id not in known:
                consts[tg.id] = st.value
    if not consts:
        return
    # not when something rebinds the name
    rebound = {x.id for x in ast.walk(tree) if isinstance(x, ast.Name) and isinstance(x.ctx, ast.Store)}
    counts = {}
    for st in tree.body:
        if isinstance(st, (ast.Assign, ast.AnnAssign)):
            tg = st.targets[0] if isinstance(st, ast.Assign) else st.target
            if isinstance(tg, ast.Name):
                counts[tg.id] = counts.get(tg.id, 0) + 1

    class R(ast.NodeTransformer):
        def visit_Name(self, n):
            if isinstance(n.ctx, ast.Load) and n.id in consts and counts.get(n.id) == 1:
                return ast.copy_location(ast.Constant(value=consts[n.id].value), n)
            return n
    for node in tree.body:
        if isinstance(node, (ast.FunctionDef, ast.AsyncFunctionDef, ast.ClassDef)):
            R().visit(node)


def canonicalise(tree: ast.AST, rel: str = None) -> ast.AST:
    if rel is not None and isinstance(tree, ast.Module):
        km = _LOCALS_get("%s:<module>" % rel)
        if km is not None:
            _inline_new_constants(tree, set(km))
    if rel is not None:
        for cls in [x for x in ast.walk(tree) if isinstance(x, ast.ClassDef)]:
            for fn in [m for m in cls.body if isinstance(m, (ast.FunctionDef, ast.AsyncFunctionDef))]:
                known = _known_locals(rel, cls.name, fn.name)
                if known is not None:
                    _inline_new_aliases(fn, set(known))
    for fn in [x for x in ast.walk(tree) if isinstance(x, (ast.FunctionDef, ast.AsyncFunctionDef))]:
        _inline_explaining(fn)
    return Canon().visit(tree)


def canon_text(text: str) -> str:
    """Canonical spelling of an expression given as text (used to look facts up)."""
    try:
        e = ast.parse(text, mode="eval").body
    except SyntaxError:
        return text
    return ast.unparse(Canon().visit(e))
