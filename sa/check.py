"""CLI: python3-vt -m sa.check Cxx [--tier quick|thorough]

exit 0: every rule instance of the property holds (known findings are printed as KNOWN-FINDING lines)
exit 1: at least one violation not listed in known_findings.json (VIOLATION property=.. replay=.. lines)
exit 2: analysis error / undecided (ANALYSIS-ERROR lines) - never a silent pass
"""
from __future__ import annotations

import argparse
import importlib
import os
import sys
import traceback

from . import VERIF, REPO
from .model import AnalysisError
from .report import Report


def run_property(prop: str, tier: str, selftest: bool = True) -> int:
    rep = Report(prop, tier)
    try:
        from .ctx import Ctx
        ctx = Ctx()
        mod = importlib.import_module("rules.%s" % prop)
        from .runrules import run_module
        run_module(mod, ctx, rep, tier)
        from . import darule
        darule.apply(ctx, rep)
        rep.extra["analysed"] = {
            "repo": REPO,
            "modules": len(ctx.prog.modules),
            "classes": len(ctx.prog.classes),
            "functions": len(ctx.prog.functions),
            "call_sites_engine_modules": ctx.res.stats(_engine()),
        }
        st = rep.extra["analysed"]["call_sites_engine_modules"]
        total = sum(st.values()) or 1
        unresolved = st.get("unresolved", 0)
        rep.extra["analysed"]["unresolved_rate"] = round(unresolved / total, 4)
        if unresolved / total > 0.02:
            rep.error("rule=engine reason=call resolution degraded: %d of %d engine call sites unresolved" % (unresolved, total))
        if tier == "thorough" and selftest and os.environ.get("VERIF_NO_SELFTEST") != "1":
            from selftest import runner
            runner.run_for(prop, rep)
    except AnalysisError as e:
        rep.error("rule=anchor reason=%s" % e)
    except Exception as e:      # analyser bug: never report it as a violation
        tb = traceback.format_exc().strip().splitlines()
        rep.error("rule=internal reason=%s: %s (%s)" % (type(e).__name__, e, tb[-3].strip() if len(tb) >= 3 else ""))
        if os.environ.get("VERIF_DEBUG"):
            traceback.print_exc()
    return rep.finish()


def _engine():
    from .ctx import ENGINE_MODULES
    return ENGINE_MODULES


def main(argv=None):
    ap = argparse.ArgumentParser()
    ap.add_argument("prop")
    ap.add_argument("--tier", default=os.environ.get("VERIF_TIER", "quick"), choices=["quick", "thorough"])
    ap.add_argument("--no-selftest", action="store_true")
    a = ap.parse_args(argv)
    if VERIF not in sys.path:
        sys.path.insert(0, VERIF)
    try:
        rc = run_property(a.prop, a.tier, selftest=not a.no_selftest)
    except BaseException as e:      # a traceback would exit 1 and read as a violation: a broken analyser is exit 2
        if isinstance(e, (SystemExit, KeyboardInterrupt)):
            raise
        print("ANALYSIS-ERROR property=%s rule=internal reason=%s: %s" % (a.prop, type(e).__name__, e))
        rc = 2
    sys.stdout.flush()
    sys.exit(rc)


if __name__ == "__main__":
    main()
