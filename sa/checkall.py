"""python3-vt -m sa.checkall [--tier quick] [props...] : run several properties in one process (one parse, one Ctx).
Prints one summary line per property: `<prop> exit=<0|1|2> violations=<n> errors=<n>`.  Used by the self-test and the seeded-change matrix;
the registered MANIFEST commands use sa.check (one property per process)."""
from __future__ import annotations

import importlib
import io
import os
import sys
import contextlib
import traceback

from . import VERIF
from .model import AnalysisError
from .report import Report, VIOLATION

ALL = ["C%02d" % i for i in range(1, 21)]


def main(argv=None):
    argv = list(argv or sys.argv[1:])
    tier = "quick"
    if "--tier" in argv:
        i = argv.index("--tier")
        tier = argv[i + 1]
        del argv[i:i + 2]
    verbose = "-v" in argv
    if verbose:
        argv.remove("-v")
    props = argv or ALL
    if VERIF not in sys.path:
        sys.path.insert(0, VERIF)
    from .ctx import Ctx
    try:
        ctx = Ctx()
    except Exception as e:
        for p in props:
            print("%s exit=2 violations=0 errors=1 :: cannot build the program model: %s" % (p, e))
        sys.exit(2)
    worst = 0
    for prop in props:
        rep = Report(prop, tier)
        try:
            mod = importlib.import_module("rules.%s" % prop)
            from .runrules import run_module
            run_module(mod, ctx, rep, tier)
            from . import darule
            darule.apply(ctx, rep)
        except AnalysisError as e:
            rep.error("rule=anchor reason=%s" % e)
        except Exception as e:
            tb = traceback.format_exc().strip().splitlines()
            rep.error("rule=internal reason=%s: %s (%s)" % (type(e).__name__, e, tb[-3].strip() if len(tb) >= 3 else ""))
        buf = io.StringIO()
        with contextlib.redirect_stdout(buf):
            try:
                rc = rep.finish()
            except Exception as e:       # a defect of the reporting step itself is an undecided run, never a pass
                rc = 2
                print("ANALYSIS-ERROR property=%s rule=internal reason=report: %s: %s" % (prop, type(e).__name__, e))
        out = buf.getvalue()
        viol = [l for l in out.splitlines() if l.startswith("  ") and "rule=" in l]
        errs = [l for l in out.splitlines() if l.startswith("ANALYSIS-ERROR")]
        print("%s exit=%d violations=%d errors=%d%s" % (prop, rc, len(viol), len(errs),
                                                         (" :: " + " | ".join(v.strip()[:160] for v in (viol + errs)[:3])) if (viol or errs) else ""))
        if verbose:
            sys.stdout.write(out)
        worst = max(worst, rc)
    sys.exit(worst)


if __name__ == "__main__":
    main()
