"""setup_cmd: nothing is built; verify that the analyser can run here (python3-vt, stdlib ast, /repo readable)."""
import ast
import os
import sys

from . import REPO


def main():
    ok = True
    if sys.version_info < (3, 9):
        print("selfcheck: python >= 3.9 needed for ast.unparse")
        ok = False
    pkg = os.path.join(REPO, "cloudsync")
    if not os.path.isdir(pkg):
        print("selfcheck: %s not found" % pkg)
        ok = False
    else:
        n = 0
        for dp, dn, fn in os.walk(pkg):
            for f in fn:
                if f.endswith(".py"):
                    with open(os.path.join(dp, f), encoding="utf-8") as fh:
                        ast.parse(fh.read())
                    n += 1
        print("selfcheck: parsed %d files under %s" % (n, pkg))
    from .model import Program
    from .resolve import Resolver
    p = Program()
    Resolver(p)
    print("selfcheck: program model ok (%d functions)" % len(p.functions))
    sys.exit(0 if ok else 1)


if __name__ == "__main__":
    main()
