"""Model of the shared sync state: which containers and entry fields are tracked, and what counts as a mutation site.

Shared by C15 (lock-set), C11 (index ownership / read-only look-ups) and C08 (private-field ownership).
"""
from __future__ import annotations

import ast

from .model import AnalysisError, FuncInfo
from .ctx import Ctx

TRACKED_CONTAINERS = {"_oids", "_paths", "_changeset_storage", "_dirtyset", "requestset", "excludeset"}
# the property setter `_changeset` rebinds _changeset_storage
TRACKED_ATTRS = TRACKED_CONTAINERS | {"_changeset"}
MUTATORS = {"add", "discard", "remove", "pop", "clear", "update", "append", "setdefault", "popitem", "extend", "insert",
            "difference_update", "intersection_update", "symmetric_difference_update", "__setitem__", "__delitem__"}

# deliberately untracked, with the reason (DESIGN.md C15): data_id / cursor rows go through the storage interface
# (its own mutex: C09.R6); EventManager._queue is private to the event manager and not covered by the state lock.


def _has_inst(t, qnames):
    return any(term[0] == "inst" and term[1] in qnames for term in t)



class StateModel:
    def __init__(self, ctx: Ctx):
        self.ctx = ctx
        p = ctx.prog
        self.state_cls = p.cls("SyncState")
        self.state_q = {self.state_cls.qname} | {c.qname for c in self.state_cls.all_subclasses()}
        self.entry_q = {p.cls("SyncEntry").qname, p.cls("SideState").qname}
        self.entry_inits = {p.func("SyncEntry.__init__").qname, p.func("SideState.__init__").qname}
        # anchors: the tracked containers must exist as attributes assigned in the constructors
        init_attrs = set()
        for c in [self.state_cls] + self.state_cls.all_subclasses():
            init = c.methods.get("__init__")
            if init:
                # the constructor and the private helpers it calls on self (one level: `self._reset()`)
                fs = [init]
                for n in ctx.own_nodes(init):
                    if isinstance(n, ast.Call) and isinstance(n.func, ast.Attribute) and isinstance(n.func.value, ast.Name) and n.func.value.id == init.self_name:
                        h = c.lookup(n.func.attr) if hasattr(c, "lookup") else c.methods.get(n.func.attr)
                        if h is not None and h not in fs and getattr(h, "self_name", None):
                            fs.append(h)
                for fn in fs:
                    for n in ctx.own_nodes(fn):
                        if isinstance(n, ast.Attribute) and isinstance(n.ctx, ast.Store) and isinstance(n.value, ast.Name) and n.value.id == fn.self_name:
                            init_attrs.add(n.attr)
        missing = TRACKED_CONTAINERS - init_attrs
        if missing:
            raise AnalysisError("tracked state attribute(s) %s no longer assigned in SyncState/SmartSyncState.__init__" % sorted(missing))
        self.state_inits = {c.methods["__init__"].qname for c in [self.state_cls] + self.state_cls.all_subclasses() if "__init__" in c.methods}

    # ---------------------------------------------------------------- mutation sites
    def _rooted_in_tracked(self, f, e, aliases, attrs=TRACKED_ATTRS) -> bool:
        """Is expression `e` an access path into a tracked container of a SyncState?"""
        while True:
            if isinstance(e, ast.Subscript):
                e = e.value
            elif isinstance(e, ast.Call) and isinstance(e.func, ast.Attribute) and e.func.attr in ("get", "setdefault", "values", "items", "keys"):
                e = e.func.value
            elif isinstance(e, ast.Attribute):
                if e.attr in attrs and _has_inst(self.ctx.res.type_of(f, e.value), self.state_q):
                    return True
                return False
            elif isinstance(e, ast.Name):
                return e.id in aliases
            else:
                return False

    def mutation_sites(self, f: FuncInfo, attrs=TRACKED_ATTRS, entries=True):
        ctx, res = self.ctx, self.ctx.res
        out = []
        nodes = ctx.own_nodes(f)
        # local aliases of tracked containers
        aliases = set()
        for _ in range(2):
            for n in nodes:
                if isinstance(n, ast.Assign) and len(n.targets) == 1 and isinstance(n.targets[0], ast.Name):
                    if self._rooted_in_tracked(f, n.value, aliases, attrs) and not isinstance(n.value, ast.Name):
                        # element reads such as `ent = self._oids[side][oid]` yield entries, not containers:
                        # only keep aliases whose type is a container
                        t = res.type_of(f, n.value)
                        if not _has_inst(t, self.entry_q):
                            aliases.add(n.targets[0].id)
                elif isinstance(n, (ast.For, ast.comprehension)) and self._rooted_in_tracked(f, n.iter, aliases, attrs):
                    for x in ast.walk(n.target):
                        if isinstance(x, ast.Name):
                            t = res.type_of(f, x)
                            if any(term[0] in ("dict", "seq") for term in t) or not t:
                                if not _has_inst(t, self.entry_q):
                                    aliases.add(x.id)
        in_entry_init = f.qname in self.entry_inits
        for n in nodes:
            if isinstance(n, ast.Attribute) and isinstance(n.ctx, (ast.Store, ast.Del)):
                rt = res.type_of(f, n.value)
                if entries and _has_inst(rt, self.entry_q):
                    if in_entry_init and isinstance(n.value, ast.Name) and n.value.id == f.self_name:
                        continue
                    out.append((n, "store to entry field `%s`" % ast.unparse(n)))
                elif n.attr in attrs and _has_inst(rt, self.state_q):
                    out.append((n, "rebinding of tracked container `%s`" % ast.unparse(n)))
            elif isinstance(n, ast.Subscript) and isinstance(n.ctx, (ast.Store, ast.Del)):
                if self._rooted_in_tracked(f, n.value, aliases, attrs):
                    out.append((n, "item store/delete in tracked container `%s`" % ast.unparse(n)))
                elif entries and _has_inst(res.type_of(f, n.value), self.entry_q):
                    out.append((n, "side-state replacement `%s`" % ast.unparse(n)))
            elif isinstance(n, ast.Call) and isinstance(n.func, ast.Attribute):
                if n.func.attr in MUTATORS and self._rooted_in_tracked(f, n.func.value, aliases, attrs):
                    out.append((n, "mutating call on tracked container `%s`" % ast.unparse(n)[:80]))
                elif n.func.attr == "__setattr__" and isinstance(n.func.value, ast.Name) and n.func.value.id == "object" and n.args:
                    if entries and _has_inst(res.type_of(f, n.args[0]), self.entry_q):
                        if in_entry_init:
                            continue
                        out.append((n, "raw field store `%s`" % ast.unparse(n)))
        return out

