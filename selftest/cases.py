"""Self-test corpus: per property, seeded faults (must be reported) and benign variants (must stay silent)."""
from __future__ import annotations

import os

from . import transforms

FAULTS = {}     # property -> list of (name, relpath, old, new, [expected rule prefixes])
BENIGN = {}     # property -> list of (name, relpath, old, new)


def _edit(rel, old, new):
    def apply(root):
        p = os.path.join(root, rel)
        s = open(p, encoding="utf-8").read()
        if s.count(old) != 1:
            return False
        open(p, "w", encoding="utf-8").write(s.replace(old, new))
        return True
    return apply


def for_property(prop):
    out = []
    for name, fn in transforms.GENERIC_BENIGN.items():
        out.append(dict(name="generic:" + name, kind="benign", apply=lambda root, fn=fn: fn(root)))
    for (name, rel, old, new, expect) in FAULTS.get(prop, []):
        out.append(dict(name=name, kind="fault", apply=_edit(rel, old, new), expect=expect))
    for (name, rel, old, new) in BENIGN.get(prop, []):
        out.append(dict(name=name, kind="benign", apply=_edit(rel, old, new)))
    return out
