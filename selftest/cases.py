"""Self-test corpus: per property, seeded faults (must be reported) and benign variants (must stay silent)."""
from __future__ import annotations

import os

from . import transforms

import glob
import json
import subprocess

from .corpus import FAULTS, BENIGN     # property -> [(name, relpath, old, new, [expected rule prefixes])] / [(name, relpath, old, new)]

HERE = os.path.dirname(os.path.dirname(os.path.abspath(__file__)))


def _patch(path):
    def apply(root):
        r = subprocess.run("patch -p1 -s --no-backup-if-mismatch < %s" % path, shell=True, cwd=root, capture_output=True, text=True)
        return r.returncode == 0
    return apply


def seeded_for(prop):
    """Independently written regressions kept under /verif/seeded (see seeded/*/meta.json): they must be reported too."""
    out = []
    for meta in sorted(glob.glob(os.path.join(HERE, "seeded", "*", "meta.json"))):
        try:
            m = json.load(open(meta))
        except Exception:
            continue
        if prop in m.get("detected_by", []) and m.get("expect_detected", True):
            out.append(dict(name="seeded:" + os.path.basename(os.path.dirname(meta)), kind="fault", apply=_patch(os.path.join(os.path.dirname(meta), "patch.diff")), expect=[]))
    return out


def _edit(rel, old, new):
    def apply(root):
        p = os.path.join(root, rel)
        s = open(p, encoding="utf-8").read()
        if s.count(old) != 1:
            return False
        open(p, "w", encoding="utf-8").write(s.replace(old, new))
        return True
    return apply


def for_property(prop):
    out = []
    for name, fn in transforms.GENERIC_BENIGN.items():
        out.append(dict(name="generic:" + name, kind="benign", apply=lambda root, fn=fn: fn(root)))
    for (name, rel, old, new, expect) in FAULTS.get(prop, []):
        out.append(dict(name=name, kind="fault", apply=_edit(rel, old, new), expect=expect))
    for (name, rel, old, new) in BENIGN.get(prop, []):
        out.append(dict(name=name, kind="benign", apply=_edit(rel, old, new)))
    out += seeded_for(prop)
    # behaviour-preserving refactorings written by independent sub-agents (/verif/benign): every check must stay silent
    for patch in sorted(glob.glob(os.path.join(HERE, "benign", "*.diff"))):
        out.append(dict(name="benign:" + os.path.basename(patch), kind="benign", apply=_patch(patch)))
    return out
