"""Single-construct mutants of the engine's source (statement deleted, condition negated, and/or swapped, side index swapped, `is None`
turned into truthiness) - shared by tools/mutation_map.py (all functions, all checks) and by the thorough tier (the functions one property's
rules anchor in, that property's check): a sensitivity measurement of the rule set around the CURRENT source.  Never part of a verdict."""
import ast, copy, json, os, shutil, subprocess, sys, tempfile, time
from concurrent.futures import ThreadPoolExecutor

HERE = os.path.dirname(os.path.dirname(os.path.abspath(__file__)))
REPO = os.environ.get("VERIF_REPO", "/repo")
FILES = ["cloudsync/sync/manager.py", "cloudsync/sync/state.py", "cloudsync/event.py", "cloudsync/cs.py", "cloudsync/smartsync.py",
         "cloudsync/runnable.py", "cloudsync/notification.py", "cloudsync/sync/sqlite_storage.py", "cloudsync/provider.py",
         "cloudsync/hierarchical_cache.py", "cloudsync/providers/mock.py", "cloudsync/providers/filesystem.py"]


def is_log(stmt):
    if isinstance(stmt, ast.Expr) and isinstance(stmt.value, ast.Call):
        f = stmt.value.func
        while isinstance(f, ast.Attribute):
            f = f.value
        return isinstance(f, ast.Name) and f.id in ("log", "logging", "print")
    return False


def is_doc(stmt):
    return isinstance(stmt, ast.Expr) and isinstance(stmt.value, ast.Constant)


def functions(tree):
    out = []

    def rec(node, prefix):
        for ch in ast.iter_child_nodes(node):
            if isinstance(ch, ast.ClassDef):
                rec(ch, prefix + ch.name + ".")
            elif isinstance(ch, (ast.FunctionDef, ast.AsyncFunctionDef)):
                out.append((prefix + ch.name, ch))
                rec(ch, prefix + ch.name + ".<locals>.")
    rec(tree, "")
    return out


def body_lists(fn):
    """all statement lists lexically inside fn (not nested defs)"""
    out = []

    def rec(node):
        for name in ("body", "orelse", "finalbody"):
            lst = getattr(node, name, None)
            if isinstance(lst, list) and lst and isinstance(lst[0], ast.stmt):
                out.append(lst)
                for s in lst:
                    if not isinstance(s, (ast.FunctionDef, ast.AsyncFunctionDef, ast.ClassDef)):
                        rec(s)
        for h in getattr(node, "handlers", []) or []:
            rec(h)
    rec(fn)
    return out


def mutants_of(rel, src, ops, only_funcs):
    """yields (id, description, mutated source)"""
    tree = ast.parse(src)
    for qn, fn in functions(tree):
        if only_funcs and not any(qn == f or qn.endswith("." + f) for f in only_funcs):
            continue
        if any(ast.unparse(d).endswith("abstractmethod") for d in fn.decorator_list):
            continue
        # index statements by a stable path so that the mutation can be replayed on a fresh copy of the tree
        k = 0
        for li, lst in enumerate(body_lists(fn)):
            for si, st in enumerate(lst):
                line = st.lineno
                txt = ast.unparse(st).splitlines()[0][:90]
                if "DEL" in ops and isinstance(st, (ast.Assign, ast.AugAssign, ast.AnnAssign, ast.Expr, ast.Delete)) and not is_log(st) and not is_doc(st) \
                        and not (isinstance(st, ast.AnnAssign) and st.value is None):
                    yield ("%s:%s:DEL:%d" % (rel, qn, k), "%s:%d delete `%s`" % (rel, line, txt), ("DEL", qn, li, si, None))
                if "DEL" in ops and isinstance(st, (ast.Return,)) and st.value is not None and len(lst) > 1 and si < len(lst) - 1:
                    pass
                if "RAISE" in ops and isinstance(st, ast.Raise):
                    yield ("%s:%s:RAISE:%d" % (rel, qn, k), "%s:%d delete `%s`" % (rel, line, txt), ("DEL", qn, li, si, None))
                if isinstance(st, (ast.If, ast.While)) and not (isinstance(st.test, ast.Constant)):
                    if "NEG" in ops:
                        yield ("%s:%s:NEG:%d" % (rel, qn, k), "%s:%d negate `%s`" % (rel, line, ast.unparse(st.test)[:90]), ("NEG", qn, li, si, None))
                    if "ALWAYS" in ops and isinstance(st, ast.If):
                        yield ("%s:%s:TRUE:%d" % (rel, qn, k), "%s:%d condition `%s` := True" % (rel, line, ast.unparse(st.test)[:90]), ("CONST", qn, li, si, True))
                        yield ("%s:%s:FALSE:%d" % (rel, qn, k), "%s:%d condition `%s` := False" % (rel, line, ast.unparse(st.test)[:90]), ("CONST", qn, li, si, False))
                # expression-level operators inside this statement (not inside nested statements)
                exprs = []
                for fld, val in ast.iter_fields(st):
                    if fld in ("body", "orelse", "finalbody", "handlers"):
                        continue
                    vals = val if isinstance(val, list) else [val]
                    for v in vals:
                        if isinstance(v, ast.AST):
                            exprs += [x for x in ast.walk(v) if not isinstance(x, (ast.FunctionDef, ast.Lambda))]
                if not is_log(st):
                    bi = 0
                    for x in exprs:
                        if "ANDOR" in ops and isinstance(x, ast.BoolOp):
                            yield ("%s:%s:ANDOR:%d.%d" % (rel, qn, k, bi), "%s:%d and<->or in `%s`" % (rel, line, ast.unparse(x)[:90]), ("ANDOR", qn, li, si, bi))
                            bi += 1
                    di = 0
                    for x in exprs:
                        if "DROPCONJ" in ops and isinstance(x, ast.BoolOp) and len(x.values) >= 2:
                            for vi in range(len(x.values)):
                                yield ("%s:%s:DROPCONJ:%d.%d.%d" % (rel, qn, k, di, vi), "%s:%d drop operand `%s` of `%s`" % (rel, line, ast.unparse(x.values[vi])[:50], ast.unparse(x)[:70]),
                                       ("DROPCONJ", qn, li, si, (di, vi)))
                            di += 1
                    ki = 0
                    for x in exprs:
                        if "DROPKW" in ops and isinstance(x, ast.Call) and x.keywords:
                            for kj, kw in enumerate(x.keywords):
                                if kw.arg:
                                    yield ("%s:%s:DROPKW:%d.%d.%d" % (rel, qn, k, ki, kj), "%s:%d drop `%s=%s` in `%s`" % (rel, line, kw.arg, ast.unparse(kw.value)[:30], ast.unparse(x)[:60]),
                                           ("DROPKW", qn, li, si, (ki, kj)))
                            ki += 1
                    ci = 0
                    for x in exprs:
                        if "NONE" in ops and isinstance(x, ast.Compare) and len(x.ops) == 1 and isinstance(x.ops[0], (ast.Is, ast.IsNot)) \
                                and isinstance(x.comparators[0], ast.Constant) and x.comparators[0].value is None:
                            yield ("%s:%s:NONE:%d.%d" % (rel, qn, k, ci), "%s:%d `%s` -> truthiness" % (rel, line, ast.unparse(x)[:90]), ("NONE", qn, li, si, ci))
                            ci += 1
                    if "SIDE" in ops:
                        names = {x.id for x in exprs if isinstance(x, ast.Name)}
                        for a, b in (("changed", "synced"), ("LOCAL", "REMOTE"), ("side", "other")):
                            if a in names or b in names:
                                # only when used as a subscript index / call argument (not as the test of `if changed`)
                                if any(isinstance(x, ast.Subscript) and isinstance(x.slice, ast.Name) and x.slice.id in (a, b) for x in exprs):
                                    yield ("%s:%s:SIDE:%d.%s" % (rel, qn, k, a), "%s:%d swap %s<->%s in `%s`" % (rel, line, a, b, txt), ("SIDE", qn, li, si, (a, b)))
                k += 1


def apply_mutation(src, spec):
    op, qn, li, si, arg = spec
    tree = ast.parse(src)
    fn = dict(functions(tree))[qn]
    lst = body_lists(fn)[li]
    st = lst[si]
    if op == "DEL":
        lst[si] = ast.copy_location(ast.Pass(), st)
    elif op == "NEG":
        st.test = ast.UnaryOp(op=ast.Not(), operand=st.test)
    elif op == "CONST":
        st.test = ast.Constant(value=arg)
    else:
        exprs = []
        for fld, val in ast.iter_fields(st):
            if fld in ("body", "orelse", "finalbody", "handlers"):
                continue
            vals = val if isinstance(val, list) else [val]
            for v in vals:
                if isinstance(v, ast.AST):
                    exprs += [x for x in ast.walk(v) if not isinstance(x, (ast.FunctionDef, ast.Lambda))]
        if op == "ANDOR":
            x = [e for e in exprs if isinstance(e, ast.BoolOp)][arg]
            x.op = ast.Or() if isinstance(x.op, ast.And) else ast.And()
        elif op == "NONE":
            x = [e for e in exprs if isinstance(e, ast.Compare) and len(e.ops) == 1 and isinstance(e.ops[0], (ast.Is, ast.IsNot))
                 and isinstance(e.comparators[0], ast.Constant) and e.comparators[0].value is None][arg]
            neg = isinstance(x.ops[0], ast.Is)
            new = ast.UnaryOp(op=ast.Not(), operand=x.left) if neg else x.left
            # replace x by new in its parent
            for p in ast.walk(st):
                for fld, val in ast.iter_fields(p):
                    if val is x:
                        setattr(p, fld, new)
                    elif isinstance(val, list):
                        for i, v in enumerate(val):
                            if v is x:
                                val[i] = new
        elif op == "DROPCONJ":
            x = [e for e in exprs if isinstance(e, ast.BoolOp) and len(e.values) >= 2][arg[0]]
            del x.values[arg[1]]
            if len(x.values) == 1:
                only = x.values[0]
                for p in ast.walk(st):
                    for fld, val in ast.iter_fields(p):
                        if val is x:
                            setattr(p, fld, only)
                        elif isinstance(val, list):
                            for i, v in enumerate(val):
                                if v is x:
                                    val[i] = only
        elif op == "DROPKW":
            x = [e for e in exprs if isinstance(e, ast.Call) and e.keywords][arg[0]]
            del x.keywords[arg[1]]
        elif op == "SIDE":
            a, b = arg
            for e in exprs:
                if isinstance(e, ast.Subscript) and isinstance(e.slice, ast.Name) and e.slice.id in (a, b):
                    e.slice.id = b if e.slice.id == a else a
    ast.fix_missing_locations(tree)
    return ast.unparse(tree) + "\n"


def copy_tree(dst):
    def ig(d, names):
        if os.path.basename(d) == "tests":
            return [n for n in names if n not in ("fixtures", "__init__.py")]
        return [n for n in names if n == "__pycache__"]
    shutil.copytree(os.path.join(REPO, "cloudsync"), os.path.join(dst, "cloudsync"), ignore=ig)


def run_one(job):
    mid, desc, rel, spec = job[:4]
    props = list(job[4]) if len(job) > 4 else []
    t = tempfile.mkdtemp(prefix="verif_mut.")
    o = tempfile.mkdtemp(prefix="verif_mut_out.")
    try:
        copy_tree(t)
        p = os.path.join(t, rel)
        try:
            new = apply_mutation(open(p).read(), spec)
            compile(new, rel, "exec")
        except Exception as e:
            return mid, desc, None, "mutation failed: %s" % e
        open(p, "w").write(new)
        r = subprocess.run([sys.executable, "-m", "sa.checkall"] + props, cwd=HERE, capture_output=True, text=True, env=dict(os.environ, VERIF_REPO=t, VERIF_OUT=o))
        res = {}
        for l in r.stdout.splitlines():
            parts = l.split()
            if len(parts) >= 2 and parts[1].startswith("exit="):
                rules = sorted({w[5:] for w in l.split() if w.startswith("rule=")})
                res[parts[0]] = (int(parts[1][5:]), rules)
        return mid, desc, res, r.stderr[-200:] if len(res) < (len(props) or 20) else ""
    finally:
        shutil.rmtree(t, ignore_errors=True)
        shutil.rmtree(o, ignore_errors=True)




def sensitivity(prop: str, func_qnames, max_mutants: int = 240, jobs: int = 16):
    """Mutants of the functions `func_qnames` (module-qualified names as in the program model), a deterministic sample of at most
    `max_mutants`, run against the quick check of `prop` only.  Returns a summary dict for the evidence file."""
    import hashlib
    from concurrent.futures import ThreadPoolExecutor
    want = {}
    for q in func_qnames:
        parts = q.split(".")
        # cloudsync.sync.manager.SyncManager.sync -> file cloudsync/sync/manager.py, function SyncManager.sync
        for i in range(len(parts), 0, -1):
            rel = "/".join(parts[:i]) + ".py"
            if os.path.exists(os.path.join(REPO, rel)):
                want.setdefault(rel, set()).add(".".join(parts[i:]))
                break
    all_jobs = []
    for rel, fns in sorted(want.items()):
        src = open(os.path.join(REPO, rel)).read()
        for mid, desc, spec in mutants_of(rel, src, {"DEL", "NEG", "ANDOR", "SIDE", "NONE", "DROPCONJ", "DROPKW"}, []):
            if spec[1] in fns:
                all_jobs.append((mid, desc, rel, spec, [prop]))
    all_jobs.sort(key=lambda j: hashlib.sha1(j[0].encode()).hexdigest())
    picked = all_jobs[:max_mutants]
    out = dict(functions=sum(len(v) for v in want.values()), mutants_available=len(all_jobs), mutants_run=len(picked), reported=0, undecided=0, survived=0, errors=0, survivors=[])
    with ThreadPoolExecutor(jobs) as ex:
        for mid, desc, res, err in ex.map(run_one, picked):
            if not res or prop not in res:
                out["errors"] += 1
                continue
            rc = res[prop][0]
            if rc == 1:
                out["reported"] += 1
            elif rc == 2:
                out["undecided"] += 1
            else:
                out["survived"] += 1
                if len(out["survivors"]) < 60:
                    out["survivors"].append(desc)
    out["note"] = ("single-construct mutants of the functions this property's rules anchor in, run against this property's quick check on scratch copies; "
                   "a survivor is a fault the rules do not notice - a blind spot or a fault the property does not care about; measurement only, never part of the verdict")
    return out
