"""Runs the self-test cases of one property (or all) on scratch copies, in parallel.

usage: python3-vt -m selftest.runner [Cxx ...]            (stand-alone: prints a table, exit 0 iff every case behaved)
"""
from __future__ import annotations

import os
import shutil
import subprocess
import sys
import tempfile
import time
from concurrent.futures import ThreadPoolExecutor

HERE = os.path.dirname(os.path.dirname(os.path.abspath(__file__)))
REPO = os.environ.get("VERIF_REPO", "/repo")


def _copy_tree(dst: str):
    src = os.path.join(REPO, "cloudsync")

    def ig(d, names):
        if os.path.basename(d) == "tests":
            return [n for n in names if n not in ("fixtures", "__init__.py")]
        return [n for n in names if n == "__pycache__"]
    shutil.copytree(src, os.path.join(dst, "cloudsync"), ignore=ig)


def run_case(case, props):
    """case = dict(name, kind, apply(root) -> bool|None, expect=[rule prefixes])"""
    t = tempfile.mkdtemp(prefix="verif_selftest.")
    o = tempfile.mkdtemp(prefix="verif_selftest_out.")
    t0 = time.time()
    try:
        _copy_tree(t)
        try:
            applied = case["apply"](t)
        except Exception as e:      # the transformer could not find its target on this tree
            return dict(case=case["name"], kind=case["kind"], status="skipped", why="%s: %s" % (type(e).__name__, e))
        if applied is False:
            return dict(case=case["name"], kind=case["kind"], status="skipped", why="target not found on the current tree")
        # the variant must still be valid Python
        for dp, dn, fn in os.walk(t):
            for f in fn:
                if f.endswith(".py"):
                    try:
                        compile(open(os.path.join(dp, f), encoding="utf-8").read(), f, "exec")
                    except SyntaxError as e:
                        return dict(case=case["name"], kind=case["kind"], status="skipped", why="variant does not compile: %s" % e)
        r = subprocess.run([sys.executable, "-m", "sa.checkall"] + list(props), cwd=HERE, capture_output=True, text=True,
                           env=dict(os.environ, VERIF_REPO=t, VERIF_OUT=o))
        res = {}
        for l in r.stdout.splitlines():
            parts = l.split()
            if len(parts) >= 2 and parts[1].startswith("exit="):
                res[parts[0]] = (int(parts[1][5:]), l.split("::", 1)[1].strip() if "::" in l else "")
        if not res:
            return dict(case=case["name"], kind=case["kind"], status="error", why="checker produced no verdict: %s" % (r.stderr[-300:]))
        if case["kind"] == "benign":
            bad = {p: v for p, v in res.items() if v[0] != 0}
            st = "ok" if not bad else "FALSE-ALARM"
            return dict(case=case["name"], kind="benign", status=st, detail={p: v[1][:300] for p, v in bad.items()}, wall=round(time.time() - t0, 2))
        fired = {p: v for p, v in res.items() if v[0] == 1}
        want = case.get("expect") or []
        hit = bool(fired) and (not want or any(any(w in v[1] for w in want) for v in fired.values()))
        return dict(case=case["name"], kind="fault", status="ok" if hit else "MISSED", fired=sorted(fired), detail={p: v[1][:200] for p, v in res.items() if v[0] != 0},
                    wall=round(time.time() - t0, 2))
    finally:
        shutil.rmtree(t, ignore_errors=True)
        shutil.rmtree(o, ignore_errors=True)


def cases_for(prop):
    from . import cases
    return cases.for_property(prop)


def run_for(prop, rep=None, jobs=None):
    cs = cases_for(prop)
    jobs = jobs or min(16, (os.cpu_count() or 4))
    with ThreadPoolExecutor(jobs) as ex:
        results = list(ex.map(lambda c: run_case(c, [prop]), cs))
    summary = dict(
        faults=sum(1 for r in results if r["kind"] == "fault" and r["status"] != "skipped"),
        faults_reported=sum(1 for r in results if r["kind"] == "fault" and r["status"] == "ok"),
        benign=sum(1 for r in results if r["kind"] == "benign" and r["status"] != "skipped"),
        benign_silent=sum(1 for r in results if r["kind"] == "benign" and r["status"] == "ok"),
        skipped=sum(1 for r in results if r["status"] == "skipped"),
    )
    if rep is not None:
        rep.extra["selftest"] = dict(summary=summary, cases=results)
        for r in results:
            if r["status"] in ("MISSED", "FALSE-ALARM", "error"):
                rep.error("rule=selftest reason=%s case `%s`: %s %s" % (r["kind"], r["case"], r["status"], r.get("detail") or r.get("why", "")))
        if os.environ.get("VERIF_NO_SENSITIVITY") != "1":
            try:
                from . import mutants
                from sa.darule import anchored_functions
                rep.extra["mutation_sensitivity"] = mutants.sensitivity(prop, anchored_functions(rep), jobs=jobs)
            except Exception as e:      # a measurement: its failure is recorded, never a verdict
                rep.extra["mutation_sensitivity"] = dict(error="%s: %s" % (type(e).__name__, e))
        ran = summary["faults"] + summary["benign"]
        if ran < max(2, len(cs) // 2):
            rep.error("rule=selftest reason=only %d of %d self-test cases could be applied to the current tree" % (ran, len(cs)))
    return results, summary


def main(argv=None):
    argv = list(argv or sys.argv[1:])
    props = argv or ["C%02d" % i for i in range(1, 21)]
    sys.path.insert(0, HERE)
    bad = 0
    for p in props:
        results, summary = run_for(p)
        print("%s %s" % (p, summary))
        for r in results:
            if r["status"] not in ("ok",):
                print("   %-12s %-40s %s" % (r["status"], r["case"], str(r.get("detail") or r.get("why", ""))[:400]))
                if r["status"] != "skipped":
                    bad += 1
    sys.exit(1 if bad else 0)


if __name__ == "__main__":
    main()
