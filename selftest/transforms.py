"""Generic behaviour-preserving AST transformations, applied to whole modules of a scratch copy."""
from __future__ import annotations

import ast
import builtins
import os
import symtable
from typing import List, Set

ENGINE_FILES = ["cloudsync/sync/manager.py", "cloudsync/sync/state.py", "cloudsync/event.py", "cloudsync/cs.py", "cloudsync/smartsync.py",
                "cloudsync/runnable.py", "cloudsync/notification.py", "cloudsync/sync/sqlite_storage.py", "cloudsync/provider.py",
                "cloudsync/providers/mock.py", "cloudsync/providers/filesystem.py", "cloudsync/hierarchical_cache.py"]


def _rewrite(root: str, rel: str, fn):
    p = os.path.join(root, rel)
    src = open(p, encoding="utf-8").read()
    tree = ast.parse(src)
    tree = fn(tree, src) or tree
    ast.fix_missing_locations(tree)
    open(p, "w", encoding="utf-8").write(ast.unparse(tree) + "\n")


def reemit(root: str, files: List[str] = None):
    """ast.unparse every file: all comments gone, all line numbers and formatting changed."""
    for rel in files or ENGINE_FILES:
        _rewrite(root, rel, lambda t, s: t)


def insert_logging(root: str, files: List[str] = None):
    """A logging call as first statement of every function (after the docstring) and after every `if` block."""
    class T(ast.NodeTransformer):
        def visit_FunctionDef(self, node):
            self.generic_visit(node)
            call = ast.parse("logging.getLogger('selftest').debug('enter %s', %r)" % ("%s", node.name)).body[0]
            i = 1 if node.body and isinstance(node.body[0], ast.Expr) and isinstance(node.body[0].value, ast.Constant) and isinstance(node.body[0].value.value, str) else 0
            node.body.insert(i, call)
            return node
        visit_AsyncFunctionDef = visit_FunctionDef

    def fn(tree, src):
        tree = T().visit(tree)
        if not any(isinstance(n, ast.Import) and any(a.name == "logging" for a in n.names) for n in tree.body):
            k = 0
            while k < len(tree.body) and ((isinstance(tree.body[k], ast.Expr) and isinstance(tree.body[k].value, ast.Constant)) or
                                         (isinstance(tree.body[k], ast.ImportFrom) and tree.body[k].module == "__future__")):
                k += 1
            tree.body.insert(k, ast.parse("import logging").body[0])
        return tree
    for rel in files or ENGINE_FILES:
        _rewrite(root, rel, fn)


def rename_locals(root: str, files: List[str] = None, suffix: str = "_rn"):
    """Rename every purely local variable (not a parameter, not global / nonlocal / free, not used by a nested scope)."""
    def fn(tree, src):
        table = symtable.symtable(src, "<x>", "exec")
        plans = {}   # (name, lineno) -> set of locals to rename

        def walk(tab):
            for ch in tab.get_children():
                if ch.get_type() == "function":
                    nested_free = set()
                    for g in ch.get_children():
                        nested_free |= {s.get_name() for s in g.get_symbols() if s.is_free()}
                        # be conservative: anything a nested scope mentions
                        nested_free |= {s.get_name() for s in g.get_symbols()}
                    names = set()
                    for s in ch.get_symbols():
                        if s.is_local() and not s.is_parameter() and not s.is_global() and not s.is_free() and not s.is_imported() \
                                and s.get_name() not in nested_free and not s.get_name().startswith("__") and s.is_assigned():
                            if not s.is_namespace():
                                names.add(s.get_name())
                    plans[(ch.get_name(), ch.get_lineno())] = names
                walk(ch)
        walk(table)

        class R(ast.NodeTransformer):
            def __init__(self, names):
                self.names = names

            def visit_Name(self, n):
                if n.id in self.names:
                    n.id = n.id + suffix
                return n

            def visit_ExceptHandler(self, n):
                if n.name and n.name in self.names:
                    n.name = n.name + suffix
                self.generic_visit(n)
                return n

            def visit_FunctionDef(self, n):
                return n        # nested scopes keep their own names (we excluded shared names above)
            visit_AsyncFunctionDef = visit_FunctionDef
            visit_Lambda = visit_FunctionDef
            visit_ClassDef = visit_FunctionDef

        class F(ast.NodeVisitor):
            def visit_FunctionDef(self, node):
                names = plans.get((node.name, node.lineno), set())
                # `global`/`nonlocal` declared names and names used in del/with-as are handled by visit_Name too
                if names:
                    r = R(names)
                    node.body = [r.visit(st) for st in node.body]
                for st in node.body:
                    self.visit(st)
            visit_AsyncFunctionDef = visit_FunctionDef

        F().visit(tree)
        return tree
    for rel in files or ENGINE_FILES:
        _rewrite(root, rel, fn)


def negate_if_else(root: str, files: List[str] = None):
    """`if c: A else: B`  ->  `if not c: B else: A` for every if that has a plain else (no elif chain)."""
    class T(ast.NodeTransformer):
        def visit_If(self, node):
            self.generic_visit(node)
            if node.orelse and not (len(node.orelse) == 1 and isinstance(node.orelse[0], ast.If)):
                node.test = ast.UnaryOp(op=ast.Not(), operand=node.test)
                node.body, node.orelse = node.orelse, node.body
            return node
    for rel in files or ENGINE_FILES:
        _rewrite(root, rel, lambda t, s: T().visit(t))


def swap_commutative(root: str, files: List[str] = None):
    """`a == b` -> `b == a` and `a != b` -> `b != a` when both operands are side-effect free (names, attributes, constants)."""
    def pure(e):
        return all(isinstance(x, (ast.Name, ast.Attribute, ast.Constant, ast.Subscript, ast.Load, ast.Tuple)) for x in ast.walk(e))

    class T(ast.NodeTransformer):
        def visit_Compare(self, node):
            self.generic_visit(node)
            if len(node.ops) == 1 and isinstance(node.ops[0], (ast.Eq, ast.NotEq)) and pure(node.left) and pure(node.comparators[0]) \
                    and not isinstance(node.left, ast.Constant) and isinstance(node.comparators[0], (ast.Name, ast.Attribute)):
                node.left, node.comparators[0] = node.comparators[0], node.left
            return node
    for rel in files or ENGINE_FILES:
        _rewrite(root, rel, lambda t, s: T().visit(t))


def rename_side_params(root: str, files: List[str] = None):
    """Rename the side-carrying parameters / locals of the sync manager consistently (no attribute or cross-file keyword has these names)."""
    ren = {"synced": "dst_side", "translated_path": "dest_path", "defer_side": "keep_side", "replace_side": "other_one"}

    class T(ast.NodeTransformer):
        def visit_Name(self, n):
            if n.id in ren:
                n.id = ren[n.id]
            return n

        def visit_arg(self, n):
            if n.arg in ren:
                n.arg = ren[n.arg]
            return n

        def visit_keyword(self, n):
            self.generic_visit(n)
            if n.arg in ren:
                n.arg = ren[n.arg]
            return n
    for rel in files or ["cloudsync/sync/manager.py"]:
        _rewrite(root, rel, lambda t, s_: T().visit(t))


def de_morgan(root: str, files: List[str] = None):
    """Every `if`/`while` test that is an and/or is rewritten through De Morgan: `a and b` -> `not (not a or not b)`, `a or b` -> `not (not a and not b)`
    (same evaluation order, same short-circuit, same truthiness of the test)."""
    def flip(e):
        vals = [ast.UnaryOp(op=ast.Not(), operand=v) for v in e.values]
        inner = ast.BoolOp(op=ast.Or() if isinstance(e.op, ast.And) else ast.And(), values=vals)
        return ast.UnaryOp(op=ast.Not(), operand=inner)

    class T(ast.NodeTransformer):
        def visit_If(self, node):
            self.generic_visit(node)
            if isinstance(node.test, ast.BoolOp):
                node.test = flip(node.test)
            return node

        def visit_While(self, node):
            self.generic_visit(node)
            if isinstance(node.test, ast.BoolOp):
                node.test = flip(node.test)
            return node
    for rel in files or ENGINE_FILES:
        _rewrite(root, rel, lambda t, s_: T().visit(t))


def hoist_guard_clauses(root: str, files: List[str] = None):
    """A function whose body ENDS with `if c: <block>` (no else) becomes `if not c: return` + the block, dedented (guard clause).  Only for
    functions without a return annotation value use... applies when the trailing block falls off the end exactly like the original."""
    class T(ast.NodeTransformer):
        def visit_FunctionDef(self, fn):
            self.generic_visit(fn)
            if fn.body and isinstance(fn.body[-1], ast.If) and not fn.body[-1].orelse and not any(isinstance(x, (ast.Yield, ast.YieldFrom)) for x in ast.walk(fn)):
                last = fn.body[-1]
                guard = ast.If(test=ast.UnaryOp(op=ast.Not(), operand=last.test), body=[ast.Return(value=None)], orelse=[])
                fn.body = fn.body[:-1] + [guard] + last.body
            return fn
    for rel in files or ENGINE_FILES:
        _rewrite(root, rel, lambda t, s_: T().visit(t))


def nest_ands(root: str, files: List[str] = None):
    """`if a and b: X` without an else becomes `if a: if b: X` (same evaluation order, same short-circuit)."""
    class T(ast.NodeTransformer):
        def visit_If(self, node):
            self.generic_visit(node)
            if isinstance(node.test, ast.BoolOp) and isinstance(node.test.op, ast.And) and not node.orelse:
                vals = node.test.values
                inner = ast.If(test=vals[-1] if len(vals) == 2 else ast.BoolOp(op=ast.And(), values=vals[1:]), body=node.body, orelse=[])
                return ast.copy_location(ast.If(test=vals[0], body=[inner], orelse=[]), node)
            return node
    for rel in files or ENGINE_FILES:
        _rewrite(root, rel, lambda t, s_: ast.fix_missing_locations(T().visit(t)))


def explain_conditions(root: str, files: List[str] = None):
    """`if <compound test>:` (a plain `if`, not an `elif`) becomes `cond_N = <compound test>` + `if cond_N:` - an explaining variable, evaluated at the same point."""
    class T(ast.NodeTransformer):
        def __init__(self):
            self.n = 0

        def _block(self, stmts):
            out = []
            for st in stmts:
                st = self.visit(st)
                if isinstance(st, ast.If) and isinstance(st.test, (ast.BoolOp, ast.Compare)) and not any(isinstance(x, (ast.NamedExpr, ast.Await, ast.Yield)) for x in ast.walk(st.test)):
                    self.n += 1
                    name = "cond_x%d" % self.n
                    out.append(ast.copy_location(ast.Assign(targets=[ast.Name(id=name, ctx=ast.Store())], value=st.test), st))
                    st.test = ast.copy_location(ast.Name(id=name, ctx=ast.Load()), st)
                out.append(st)
            return out

        def generic_visit(self, node):
            for field in ("body", "orelse", "finalbody"):
                v = getattr(node, field, None)
                if isinstance(v, list) and v and isinstance(v[0], ast.stmt):
                    if field == "orelse" and isinstance(node, ast.If) and len(v) == 1 and isinstance(v[0], ast.If):
                        v[0] = self.visit(v[0])      # an elif: its test must stay where it is
                    else:
                        setattr(node, field, self._block(v))
            for h in getattr(node, "handlers", []) or []:
                h.body = self._block(h.body)
            return node
    for rel in files or ENGINE_FILES:
        _rewrite(root, rel, lambda t, s_: ast.fix_missing_locations(T().visit(t)))


GENERIC_BENIGN = {
    "de-morgan": de_morgan,
    "guard-clauses": hoist_guard_clauses,
    "rename-side-params": rename_side_params,
    "reemit": reemit,
    "insert-logging": insert_logging,
    "rename-locals": rename_locals,
    "negate-if-else": negate_if_else,
    "swap-eq-operands": swap_commutative,
    "nest-ands": nest_ands,
    "explain-conditions": explain_conditions,
}
