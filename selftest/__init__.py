"""Self-test of the checker (thorough tier): seeded faults must be reported, benign variants must stay silent.
Works on scratch copies of the current /repo source; the repository's code is never executed."""
