"""Hand-written self-test corpus: textual edits (relpath, old, new) applied to a scratch copy.  `old` must occur exactly once."""

M = "cloudsync/sync/manager.py"
S = "cloudsync/sync/state.py"
E = "cloudsync/event.py"
R = "cloudsync/runnable.py"
N = "cloudsync/notification.py"
Q = "cloudsync/sync/sqlite_storage.py"
P = "cloudsync/provider.py"
K = "cloudsync/providers/mock.py"
F = "cloudsync/providers/filesystem.py"
H = "cloudsync/hierarchical_cache.py"
Z = "cloudsync/smartsync.py"
C = "cloudsync/cs.py"

FAULTS = {
 "C15": [
  ("drop lock in _process_event", E, "        with self.state.lock:\n            log.debug(\"%s got event %s, fw: %s\", self.label, event, from_walk)", "        if True:\n            log.debug(\"%s got event %s, fw: %s\", self.label, event, from_walk)", ["C15.R1", "C15.R2"]),
  ("drop lock in SyncManager.do", M, "        with self.state.lock:\n            sync: SyncEntry = self.state.change(self.aging)", "        if True:\n            sync: SyncEntry = self.state.change(self.aging)", ["C15.R1"]),
  ("unlocked public mutator", C, "    def set_need_walk(self, side, need_walk=True):\n", "    def reset_entry(self, side, oid):\n        ent = self.state.lookup_oid(side, oid)\n        ent[side].changed = 1\n\n    def set_need_walk(self, side, need_walk=True):\n", ["C15.R1"]),
  ("fresh lock per call", E, "        with self.state.lock:\n            log.debug(\"%s got event %s, fw: %s\", self.label, event, from_walk)", "        import threading\n        with threading.RLock():\n            log.debug(\"%s got event %s, fw: %s\", self.label, event, from_walk)", ["C15.R1"]),
  ("non re-entrant lock", S, "        self.lock = RLock()", "        from threading import Lock\n        self.lock = Lock()", ["C15.R3"]),
  ("smart_delete_path without lock", Z, "            with self.state.lock:\n                ents = self.state.lookup_path(REMOTE, remote_path)\n                if ents:\n                    ent = ents[0]\n                    ent[REMOTE].changed = 0", "            if True:\n                ents = self.state.lookup_path(REMOTE, remote_path)\n                if ents:\n                    ent = ents[0]\n                    ent[REMOTE].changed = 0", ["C15.R1"]),
 ],
 "C09": [
  ("drop tag from UPDATE", Q, "'UPDATE cloud SET serialization = ? WHERE id = ? AND tag = ?',\n                                    [serialization, eid, tag])", "'UPDATE cloud SET serialization = ? WHERE id = ?',\n                                    [serialization, eid])", ["C09.R1"]),
  ("swap parameters of UPDATE", Q, "[serialization, eid, tag])", "[serialization, tag, eid])", ["C09.R2"]),
  ("default isolation level", Q, "                                  isolation_level=None,\n", "", ["C09.R5"]),
  ("execute outside the mutex", Q, "        eid = db_cursor.lastrowid\n        return eid", "        eid = db_cursor.lastrowid\n        self.db.execute('PRAGMA optimize')\n        return eid", ["C09.R6"]),
  ("read returns the row", Q, "            return row[0]", "            return row", ["C09.R3"]),
  ("update of a missing row is silent", Q, "        if ret == 0:\n            raise ValueError(\"id %s doesn't exist\" % eid)\n", "", ["C09.R4"]),
  ("delete raises on missing", Q, "            log.debug(\"ignoring delete: id %s doesn't exist\", eid)\n            return", "            raise ValueError(\"id %s doesn't exist\" % eid)", ["C09.R4"]),
  ("read_all ignores its tag", Q, "            query = 'SELECT id, tag, serialization FROM cloud WHERE tag = ?'\n            rows = self.__db_execute(query, [tag], fetch=True)", "            query = 'SELECT id, tag, serialization FROM cloud'\n            rows = self.__db_execute(query, fetch=True)", ["C09.R1"]),
  ("fetch after the mutex", Q, "                return retval.fetchall()\n            return retval", "                pass\n        if fetch:\n            return retval.fetchall()\n        return retval", ["C09.R6"]),
  ("cursor data under the wrong tag", S, "                updated = self._storage.update(data_tag, data, self.data_id[data_tag])", "                updated = self._storage.update(self._tag, data, self.data_id[data_tag])", ["C09.R8"]),
 ],
 "C08": [
  ("serialize drops sync_hash", S, "        ret['sync_hash'] = self.sync_hash\n", "", ["C08.R1"]),
  ("cross-wired hash fields", S, "        self.hash = serialization['hash']\n        self.changed = serialization['changed']\n        self.sync_hash = serialization['sync_hash']", "        self.hash = serialization['sync_hash']\n        self.changed = serialization['changed']\n        self.sync_hash = serialization['hash']", ["C08.R1"]),
  ("store before updated", S, "        self._parent.updated(self._side, k, v)\n\n        if k == \"exists\":\n            self._set_exists(v)", "        if k not in (\"exists\", \"mtime\"):\n            object.__setattr__(self, \"_\" + k, v)\n        self._parent.updated(self._side, k, v)\n\n        if k == \"exists\":\n            self._set_exists(v)", ["C08.R2"]),
  ("corrupt marker skips updated", S, "                self._parent.updated(self._side, k, v)\n                self._saved_exists = self.exists", "                self._saved_exists = self.exists", ["C08.R2"]),
  ("updated returns before the dirty mark", S, "                    ent[REMOTE].changed += ent._parent._punt_secs[REMOTE]\n", "                    ent[REMOTE].changed += ent._parent._punt_secs[REMOTE]\n            return\n", ["C08.R3"]),
  ("private field written in the manager", M, "        sync[side].sync_hash = sync[side].hash\n        sync[side].sync_path = sync[side].path\n        sync[side].exists = CORRUPT", "        sync[side]._sync_hash = sync[side].hash\n        sync[side].sync_path = sync[side].path\n        sync[side].exists = CORRUPT", ["C08.R4"]),
  ("commit skips clean-looking entries", S, "        for ent in self._dirtyset:\n            self._storage_update(ent)", "        for ent in self._dirtyset:\n            if ent.storage_id is None:\n                continue\n            self._storage_update(ent)", ["C08.R5"]),
  ("new row id not recorded", S, "                new_id = self._storage.create(tag, ent.serialize())\n                ent.storage_id = new_id", "                new_id = self._storage.create(tag, ent.serialize())", ["C08.R5"]),
  ("sync step without commit when nothing was done", M, "                something_got_done = self.sync(sync)\n            self.state.storage_commit()", "                something_got_done = self.sync(sync)\n            if something_got_done:\n                self.state.storage_commit()", ["C08.R6"]),
 ],
 "C11": [
  ("index write in the manager", M, "            already_dir.ignore(IgnoreReason.DISCARDED)", "            already_dir.ignore(IgnoreReason.DISCARDED)\n            self.state._oids[synced].pop(oid, None)", ["C11.X1"]),
  ("oid key not dispatched", S, "        elif key == \"oid\":\n            self._change_oid(side, ent, val)\n", "", ["C11.X2"]),
  ("changed arm never discards", S, "            else:\n                self._changeset_storage.discard(ent)\n                if ent[other_side(side)].changed and not ent[other_side(side)].oid:", "            else:\n                if ent[other_side(side)].changed and not ent[other_side(side)].oid:", ["C11.X2"]),
  ("lookup mutates", S, "        try:\n            ret = self._oids[side][oid]\n            return ret\n        except KeyError:\n            return None", "        try:\n            ret = self._oids[side][oid]\n            return ret\n        except KeyError:\n            self._oids[side].pop(oid, None)\n            return None", ["C11.X5", "C11.X1"]),
  ("finished discards while a side is changed", S, "        if ent[1].changed or ent[0].changed:\n            log.debug(\"not marking finished: %s\", ent)\n            return\n", "", ["C11.X6"]),
  ("oust only undiscarded owners", S, "                if prior_ent is not ent:\n                    # no longer indexed by oid, also clear change bit", "                if prior_ent is not ent and not prior_ent.is_conflicted:\n                    # no longer indexed by oid, also clear change bit", ["C11.X7"]),
  ("setitem installs without the path update", S, "            self.updated(side, \"oid\", val._oid)\n            self.updated(side, \"path\", val._path)\n\n        self.updated(side, \"changed\", val._changed)", "            self.updated(side, \"oid\", val._oid)\n\n        self.updated(side, \"changed\", val._changed)", ["C11.X4"]),
 ],
 "C18": [
  ("narrow the catch-all", R, "                except BaseException:\n                    self.__increment_backoff()\n                    log.exception(\"very serious exception in %s\", self.service_name)\n", "", ["C18.L1"]),
  ("handler re-raises", R, "                    log.exception(\"unhandled exception in %s\", self.service_name)\n", "                    log.exception(\"unhandled exception in %s\", self.service_name)\n                    raise\n", ["C18.L1"]),
  ("no stop test before do()", R, "                if self.__stopping or self.__shutdown:\n                    break\n\n                try:", "                try:", ["C18.L4"]),
  ("backoff without the floor", R, "min(self.max_backoff, max(self.in_backoff * self.mult_backoff, self.min_backoff))", "min(self.max_backoff, self.in_backoff * self.mult_backoff)", ["C18.L3"]),
  ("backoff without the cap", R, "min(self.max_backoff, max(self.in_backoff * self.mult_backoff, self.min_backoff))", "max(self.in_backoff * self.mult_backoff, self.min_backoff)", ["C18.L3"]),
  ("signal before shutdown is published", R, "        self.__shutdown = forever\n        self.__stopping = True\n        self.wake()", "        self.__stopping = True\n        self.wake()\n        self.__shutdown = forever", ["C18.L7"]),
  ("done() regardless of shutdown", R, "            if self.__shutdown:\n                self.done()", "            self.done()", ["C18.L5"]),
  ("restart after final stop", R, "        if self.__shutdown:\n            raise RuntimeError(\"Service was stopped, create a new instance to run.\")\n", "", ["C18.L6"]),
  ("stop_all joins one by one", R, "            run.stop(forever=forever, wait=False)", "            run.stop(forever=forever, wait=wait)", ["C18.L8"]),
  ("LIFO notifications", N, "        self.__queue: queue.Queue = queue.Queue()", "        self.__queue: queue.Queue = queue.LifoQueue()", ["C18.L9"]),
  ("handler exception escapes", N, "        except Exception:\n            log.exception(\"Error while handling a notification: %s\", e)", "        except KeyError:\n            log.exception(\"Error while handling a notification: %s\", e)", ["C18.L9"]),
  ("reset ignores nothing_happened", R, "                    if self.__clear_on_success and self.in_backoff > 0:", "                    if self.in_backoff > 0:", ["C18.L2"]),
 ],
 "C07": [
  ("commit before the provider work", M, "            something_got_done = self.pre_sync(sync)\n            if not something_got_done:", "            self.state.storage_commit()\n            something_got_done = self.pre_sync(sync)\n            if not something_got_done:", ["C07.R1"]),
  ("commit from a helper deep in the step", M, "        self._nmgr.notify(Notification(SourceEnum(side), NotificationType.SYNC_CORRUPT_IGNORED, sync[side].path))\n        sync[side].sync_hash = sync[side].hash", "        self._nmgr.notify(Notification(SourceEnum(side), NotificationType.SYNC_CORRUPT_IGNORED, sync[side].path))\n        self.state.storage_commit()\n        sync[side].sync_hash = sync[side].hash", ["C07.R1"]),
  ("entry stored directly", M, "        sync[side].exists = CORRUPT\n", "        sync[side].exists = CORRUPT\n        sync.store(self.state._tag, self.state._storage)\n", ["C07.R2"]),
  ("exists-handler always re-raises", M, "            if existing_hash != info.hash:\n                raise\n            log.debug(\"use existing %s\", info)", "            raise", ["C07.R4"]),
  ("bad row is fatal", S, "                except Exception as e:\n                    log.error(\"exception during deserialization %s\", e)\n                    self._storage.delete(tag, eid)", "                except KeyError as e:\n                    log.error(\"exception during deserialization %s\", e)\n                    self._storage.delete(tag, eid)", ["C07.R5"]),
  ("download straight to the final name", M, "            with open(partial_temp, \"wb\") as f:\n                self.providers[changed].download(sync[changed].oid, f)\n            os.rename(partial_temp, sync[changed].temp_file)", "            with open(sync[changed].temp_file, \"wb\") as f:\n                self.providers[changed].download(sync[changed].oid, f)", ["C07.R6"]),
  ("cursor saved inside the loop", E, "            self._process_event(event)\n        self._save_current_cursor()", "            self._save_current_cursor()\n            self._process_event(event)\n        self._save_current_cursor()", ["C07.R3"]),
 ],
 "C06": [
  ("cursor error does not request a walk", E, "            self.need_walk = True\n            self._forget_walk_marker()\n            self.provider.current_cursor", "            self._forget_walk_marker()\n            self.provider.current_cursor", ["C06.R3"]),
  ("fresh cursor while the walk marker stays", E, "            self.need_walk = True\n            self._forget_walk_marker()\n            self.provider.current_cursor", "            self.need_walk = True\n            self.provider.current_cursor", ["C06.R2"]),
  ("first-init cursor while the walk marker stays", E, "                    if self.need_walk:\n                        self._forget_walk_marker()\n", "", ["C06.R2"]),
  ("walk marker although the walk was interrupted", E, "                    if self.stopped:\n                        return\n                    self._process_event(event, from_walk=True)", "                    if self.stopped:\n                        break\n                    self._process_event(event, from_walk=True)", ["C06.R4"]),
  ("need_walk ignores the marker", E, "            self.need_walk = self.cursor is None or self.state.storage_get_data(self._walk_tag) is None", "            self.need_walk = self.cursor is None", ["C06.R3"]),
  ("load loop forgets the path index", S, "                        if path not in self._paths[side]:\n                            self._paths[side][path] = {}\n                        self._paths[side][path][oid] = ent\n", "", ["C06.R5"]),
  ("loaded entries constructed without _loading", S, "            self._loading = True\n            storage_dict = self._storage.read_all(cast(str, tag))", "            storage_dict = self._storage.read_all(cast(str, tag))", ["C06.R5"]),
  ("label without the roots", C, "        return f\"{self.providers[0].name}:{self.providers[0].connection_id}:{roots[0]}.\"\\\n               f\"{self.providers[1].name}:{self.providers[1].connection_id}:{roots[1]}\"", "        return f\"{self.providers[0].name}:{self.providers[0].connection_id}.\"\\\n               f\"{self.providers[1].name}:{self.providers[1].connection_id}\"", ["C06.R6"]),
 ],
 "C10": [
  ("temporary tested before out-of-space", N, "        elif isinstance(e, ex.CloudOutOfSpaceError):\n            self.notify(Notification(source, NotificationType.OUT_OF_SPACE_ERROR, path))\n", "", ["C10.T1"]),
  ("disconnected reported as temporary", N, "NotificationType.DISCONNECTED_ERROR, path))", "NotificationType.TEMPORARY_ERROR, path))", ["C10.T1"]),
  ("no punt on temporary errors", M, "            self._nmgr.notify_from_exception(SourceEnum.SYNC, e)\n            sync.punt()\n            # do we want to self.state.storage_commit() here?", "            self._nmgr.notify_from_exception(SourceEnum.SYNC, e)\n            # do we want to self.state.storage_commit() here?", ["C10.T2"]),
  ("intake ignores disconnects", E, "        except (CloudTemporaryError, CloudDisconnectedError, CloudNamespaceError) as e:", "        except (CloudTemporaryError, CloudNamespaceError) as e:", ["C10.T3"]),
  ("reconnect outside the try", E, "        try:\n            self._reconnect_if_needed()\n            if self._validate_root():", "        self._reconnect_if_needed()\n        try:\n            if self._validate_root():", ["C10.T3"]),
  ("token error forgets need_auth", E, "            self.need_auth = True\n            self.backoff()", "            self.backoff()", ["C10.T3"]),
  ("name error swallowed", M, "        except ex.CloudFileNameError:\n            self.handle_file_name_error(sync, synced, translated_path)\n            return FINISHED\n        return PUNT", "        except ex.CloudFileNameError:\n            return FINISHED\n        return PUNT", ["C10.T5"]),
  ("give-up error is fatal", M, "            except ex.CloudTooManyRetriesError:\n                response = FINISHED\n", "            except ex.CloudTooManyRetriesError:\n                response = PUNT\n", ["C10.T6"]),
 ],
 "C12": [
  ("translate with the changed side", M, "        translated_path = self.translate(synced, sync[changed].path)\n        if translated_path is None:\n            # ignore these", "        translated_path = self.translate(changed, sync[changed].path)\n        if translated_path is None:\n            # ignore these", ["C12.Y1"]),
  ("create on the changed side", M, "                info = self.providers[synced].create(translated_path, f)", "                info = self.providers[changed].create(translated_path, f)", ["C12.Y1"]),
  ("prefix without boundary", P, "        elif len(target_full) > len(folder_full) and target_full[len(folder_full)] == self.sep:\n            if target_full_case.startswith(folder_full_case):", "        elif len(target_full) > len(folder_full):\n            if target_full_case.startswith(folder_full_case):", ["C12.Y5"]),
  ("fold only one operand", P, "            folder_full_case = folder_full.lower()\n            target_full_case = target_full.lower()", "            folder_full_case = folder_full.lower()\n            target_full_case = target_full", ["C12.Y5"]),
  ("untested translation reaches mkdirs", M, "        if translated_path is None:\n            # ignore these\n            return FINISHED\n", "", ["C12.Y3"]),
  ("translate falls through to the root", C, "        if not relative:\n            log.log(TRACE, \"%s is not subpath of %s\", path, self.roots[1-side])\n            return None\n", "", ["C12.Y2"]),
  ("root can be re-pointed", P, "            raise ValueError(\"Sync root already set and cannot be changed\")\n", "            log.warning(\"Sync root changed\")\n", ["C12.Y6"]),
  ("revive without a translating path", M, "                if sync.is_irrelevant and translated_path:  # was irrelevant, but now is relevant", "                if sync.is_irrelevant:  # was irrelevant, but now is relevant", ["C12.Y7"]),
  ("not translated but still embraced", M, "                    log.log(TRACE, \">>>Not a cloud path %s, ignoring\", sync[changed].path)\n                    sync.ignore(IgnoreReason.IRRELEVANT)", "                    log.log(TRACE, \">>>Not a cloud path %s, ignoring\", sync[changed].path)", ["C12.Y4"]),
 ],
 "C16": [
  ("upload to a missing file is silent", K, "        if file is None or not file.exists:\n            raise CloudFileNotFoundError(oid)\n        if file.type != MockFSObject.FILE:", "        if file is None or not file.exists:\n            return None\n        if file.type != MockFSObject.FILE:", ["C16.P2"]),
  ("ENOSPC unmapped", F, "            if exception.errno == errno.ENOSPC:\n                raise ex.CloudOutOfSpaceError(\"no space: %s\" % exception)\n", "", ["C16.P2"]),
  ("rename outside _api", F, "        fpath = self.join(self.namespace_id, path)\n        with self._api():\n            path_from = self._oid_to_fpath(oid)", "        fpath = self.join(self.namespace_id, path)\n        if True:\n            path_from = self._oid_to_fpath(oid)", ["C16.P2"]),
  ("hash_data ignores finality", F, "            fhash, final = self._fast_hash_data(file_like)\n            if final:\n                return fhash\n            # same rule as _fast_hash_path: the prefix+suffix digest is only the hash of small files\n            file_like.seek(0)\n            return get_hash(file_like)", "            return self._fast_hash_data(file_like)[0]", ["C16.P3"]),
  ("mock delete without event", K, "        if not without_event:\n            self._register_event(MockEvent.ACTION_DELETE, file)", "        pass", ["C16.P4"]),
  ("connect accepts another account", P, "            if self.connection_id != new_id:\n                self.disconnect()\n                raise CloudTokenError(\"Cannot connect with mismatched credentials\")", "            if self.connection_id != new_id:\n                self.connection_id = new_id", ["C16.P5"]),
  ("ids change on rename for id-style providers", K, "        if self.oid_is_path:\n            source_object.oid = destination_path", "        source_object.oid = destination_path", ["C16.P6"]),
  ("exists_oid heals the tree", K, "        file = self._mock_fs.get(oid)\n        return file is not None and file.exists\n\n    @lock\n    def exists_path", "        file = self._mock_fs.get(oid)\n        if file is not None and not file.exists:\n            self._unstore_object(file)\n        return file is not None and file.exists\n\n    @lock\n    def exists_path", ["C16.P7"]),
 ],
 "C17": [
  ("flipped ageing comparison", S, "(e[LOCAL].changed <= earlier_than))", "(e[LOCAL].changed >= earlier_than))", ["C17.A2"]),
  ("now + age", S, "        earlier_than = now - age", "        earlier_than = now + age", ["C17.A2"]),
  ("zero priority is immediate", S, "                    or e.priority < 0:", "                    or e.priority <= 0:", ["C17.A2"]),
  ("descending sort", S, "        changes = sorted(change_set, key=sort_key)", "        changes = sorted(change_set, key=sort_key, reverse=True)", ["C17.A1"]),
  ("time before priority in the key", S, "sort_key = lambda a: (a.priority, max(a[LOCAL].changed or 0, a[REMOTE].changed or 0))", "sort_key = lambda a: (max(a[LOCAL].changed or 0, a[REMOTE].changed or 0), a.priority)", ["C17.A3"]),
  ("manager ignores its ageing value", M, "            sync: SyncEntry = self.state.change(self.aging)", "            sync: SyncEntry = self.state.change(0)", ["C17.A4"]),
  ("punt does not defer", S, "                if ent[LOCAL].changed:\n                    ent[LOCAL].changed += ent._parent._punt_secs[LOCAL]", "                if ent[LOCAL].changed:\n                    ent[LOCAL].changed -= ent._parent._punt_secs[LOCAL]", ["C17.A5"]),
  ("equal stamps allowed", S, "        if ent[side].changed <= self._last_changed_time:", "        if ent[side].changed < self._last_changed_time:", ["C17.A6"]),
  ("related entries stay deferred", S, "            if e.priority > 0 and ent.is_related_to(e):", "            if e.priority > 5 and ent.is_related_to(e):", ["C17.A7"]),
 ],
 "C19": [
  ("delete keeps the id", H, "            if curr_node.oid:\n                self._oid_to_node.pop(curr_node.oid, None)\n", "            pass\n", ["C19.H2"]),
  ("delete keeps the parent link", H, "        remove_node.parent = None\n\n        return remove_node", "        return remove_node", ["C19.H2"]),
  ("insert without evicting the id owner", H, "        if node.oid:\n            self.delete(oid=node.oid)\n\n        parent_node.add_child(node)", "        parent_node.add_child(node)", ["C19.H3"]),
  ("insert links before evicting the path", H, "        self.delete(path=path)\n        if node.oid:\n            self.delete(oid=node.oid)\n\n        parent_node.add_child(node)", "        parent_node.add_child(node)\n        self.delete(path=path)\n        if node.oid:\n            self.delete(oid=node.oid)\n", ["C19.H3"]),
  ("set_oid without map update", H, "            node.oid = oid\n            self._oid_to_node[oid] = node", "            node.oid = oid", ["C19.H4"]),
  ("type change keeps the old node", H, "        if node and node.type != otype:\n            self._delete(remove_node=node)\n            node = None", "        if node and node.type != otype:\n            node = None", ["C19.H5"]),
  ("rename evicts before detaching", H, "        self._delete(node)  # _delete will delete the parent but not the children\n        self.delete(path=new_path)", "        self.delete(path=new_path)\n        self._delete(node)  # _delete will delete the parent but not the children", ["C19.H6"]),
  ("get_path repairs the cache", H, "        node = self._oid_to_node.get(oid)\n        return node.full_path() if node else None", "        node = self._oid_to_node.get(oid)\n        if node and node.full_path() is None:\n            self._oid_to_node.pop(oid)\n        return node.full_path() if node else None", ["C19.H1"]),
 ],
 "C20": [
  ("gate ignores the request set", Z, "            finished = not (local_file or sync in self.state.requestset or sync[REMOTE].otype == DIRECTORY)", "            finished = not (local_file or sync[REMOTE].otype == DIRECTORY)", ["C20.S1"]),
  ("gate overrides super", Z, "        finished = super_finished\n        if not finished:\n            finished = not (", "        finished = super_finished\n        if True:\n            finished = not (", ["C20.S1"]),
  ("sync although the gate finished", Z, "            something_got_done = self.smgr.pre_sync(sync)\n            if not something_got_done:\n                something_got_done = self.smgr.sync(sync, want_raise=True)", "            something_got_done = self.smgr.pre_sync(sync)\n            something_got_done = self.smgr.sync(sync, want_raise=True)", ["C20.S2"]),
  ("un-request deletes remotely", Z, "                self.providers[LOCAL].delete(ent_info.oid)", "                self.providers[REMOTE].delete(ent[REMOTE].oid)", ["C20.S4"]),
  ("un-request keeps the request", Z, "        self.requestset.discard(ent)\n        self.excludeset.add(ent)", "        self.excludeset.add(ent)", ["C20.S4"]),
  ("un-request without pushing edits", Z, "            self._smart_unsync_ent(ent)\n            ent = self.state.smart_unsync_oid(remote_oid)", "            ent = self.state.smart_unsync_oid(remote_oid)", ["C20.S4"]),
  ("every file is included", Z, "                elif (ent[REMOTE].changed or ent[LOCAL].changed) and not ent.is_latest():\n                    included = True  # needs a get_latest() at least", "                elif ent[REMOTE].changed or ent[LOCAL].changed:\n                    included = True  # needs a get_latest() at least", ["C20.S3"]),
  ("listing marks remote-only items synced", Z, "            mtime = rent[REMOTE].mtime\n            is_synced = False", "            mtime = rent[REMOTE].mtime\n            is_synced = True", ["C20.S5"]),
  ("request does not leave the exclude set", Z, "        self.requestset.add(ent)\n        self.excludeset.discard(ent)", "        self.requestset.add(ent)", ["C20.S6"]),
 ],
 "C02": [
  ("delete-out-of-the-way without the guard", M, "                    if not conflict[LOCAL].needs_sync() and not conflict[REMOTE].needs_sync():", "                    if True:", ["C02.R1"]),
  ("upload over a tombstone", M, "        if sync[synced].exists in (TRASHED, MISSING) or sync[synced].oid is None:\n            log.debug(\"dont upload new contents", "        if sync[synced].oid is None:\n            log.debug(\"dont upload new contents", ["C02.R2"]),
  ("delete wins over a pending create", M, "            if sync.is_creation(synced) and sync[synced].otype == FILE and sync[synced].changed:\n                log.debug(\"Delete of oid %s on side %s is a create on the other side, ignoring Delete.\", sync[changed].oid, changed)\n                return FINISHED\n", "", ["C02.R3"]),
  ("loser is deleted instead of renamed", M, "                        try:\n                            self._resolve_rename(loser)\n                        except ex.CloudFileNotFoundError:\n                            log.warning(\"there is no conflict, because the file doesn't exist? %s\", loser)", "                        self.providers[loser.side].delete(loser.oid)", ["C02.R1"]),
  ("corrupt side is not frozen", M, "        sync[side].sync_hash = sync[side].hash\n        sync[side].sync_path = sync[side].path\n        sync[side].exists = CORRUPT", "        sync[side].sync_path = sync[side].path\n        sync[side].exists = CORRUPT", ["C02.R5"]),
  ("new rmtree call", M, "                self.providers[synced].delete(sync[synced].oid)\n                sync[changed].sync_path = None", "                self.providers[synced].rmtree(sync[synced].oid)\n                sync[changed].sync_path = None", ["C02.R1", "C04.R1"]),
  ("conflict name without marker", M, "        conflict_name = base + \".conflicted\" + ext\n        while", "        conflict_name = base + \".old\" + ext\n        while", ["C02.R4"]),
 ],
 "C03": [
  ("upload forgets the origin's sync_hash", M, "            sync[changed].sync_hash = sync[changed].hash\n            sync[changed].sync_path = sync[changed].path\n\n            self.update_entry(\n                sync, synced, exists=True, oid=info.oid, path=sync[synced].sync_path)", "            sync[changed].sync_path = sync[changed].path\n\n            self.update_entry(\n                sync, synced, exists=True, oid=info.oid, path=sync[synced].sync_path)", ["C03.R1"]),
  ("own write marked as a change", M, "        self.update_entry(sync, synced, exists=True, oid=info.oid, path=sync[synced].sync_path, hash=info.hash)", "        self.update_entry(sync, synced, exists=True, oid=info.oid, path=sync[synced].sync_path, hash=info.hash, changed=True)", ["C03.R2"]),
  ("mkdir on the originating side", M, "        oid = self.providers[synced].mkdirs(translated_path)", "        oid = self.providers[changed].mkdirs(translated_path)", ["C03.R3"]),
  ("in-sync side is embraced anyway", M, "                        sync[side].changed = 0\n                    continue", "                        sync[side].changed = 0", ["C03.R4"]),
  ("mkdir forgets the sync paths", M, "        sync[synced].sync_path = translated_path\n        sync[changed].sync_path = sync[changed].path\n\n        self.update_entry(\n            sync, synced, exists=True, oid=oid, path=translated_path)", "        self.update_entry(\n            sync, synced, exists=True, oid=oid, path=translated_path)", ["C03.R1"]),
 ],
 "C04": [
  ("not-empty handler deletes children", M, "                for ent in self.providers[synced].listdir(sync[synced].oid):\n                    remaining.append(ent.path or ent.oid)", "                for ent in self.providers[synced].listdir(sync[synced].oid):\n                    self.providers[synced].delete(ent.oid)\n                    remaining.append(ent.path or ent.oid)", ["C04.R2"]),
  ("no tombstone after the peer delete", M, "        sync[synced].exists = TRASHED\n        if not sync.is_conflicted:", "        if not sync.is_conflicted:", ["C04.R3"]),
  ("children keep the old folder path", S, "                sub[side].path = new_path\n", "", ["C04.R4"]),
  ("rename by path lookup", M, "            new_oid = self.providers[synced].rename(sync[synced].oid, translated_path)", "            new_oid = self.providers[synced].rename(self.providers[synced].info_path(sync[synced].sync_path).oid, translated_path)", ["C04.R5"]),
  ("fold keeps the old path", M, "            delete[changed].path = create[changed].path\n", "", ["C04.R6"]),
  ("fold for id-style providers", M, "        if not self.providers[changed].oid_is_path:\n            return None\n        match = False", "        match = False", ["C04.R6"]),
 ],
 "C05": [
  ("resolver called per handle", M, "            ret = self._resolve_conflict(*fhs)\n", "            for _fh in fhs:\n                ret = self._resolve_conflict(*fhs)\n", ["C05.V1"]),
  ("temporary errors swallowed", M, "            log.exception(\"temporary exception during conflict resolution %s\", repr(e))\n            raise", "            log.exception(\"temporary exception during conflict resolution %s\", repr(e))", ["C05.V2"]),
  ("fallback is local-wins", M, "            if fhs[0].side == REMOTE:\n                ret = (fhs[0], True)\n            else:\n                ret = (fhs[1], True)", "            if fhs[0].side == REMOTE:\n                ret = (fhs[1], True)\n            else:\n                ret = (fhs[0], True)", ["C05.V4"]),
  ("equal content still asks the resolver", M, "                        replace_ent.ignore(IgnoreReason.DISCARDED)\n                        return True\n            except FileNotFoundError:", "                        replace_ent.ignore(IgnoreReason.DISCARDED)\n            except FileNotFoundError:", ["C05.V6"]),
  ("handle reads the other side", M, "                    guard.fhs.append(ResolveFile(ss, self.providers[ss.side]))", "                    guard.fhs.append(ResolveFile(ss, self.providers[1 - ss.side]))", ["C05.V8"]),
  ("keep means overwrite", M, "                    if not keep:\n                        log.info(\"not keeping side %s, simply uploading to replace with new contents\", loser.side)", "                    if keep:\n                        log.info(\"not keeping side %s, simply uploading to replace with new contents\", loser.side)", ["C05.V9"]),
 ],
 "C14": [
  ("sync without a refresh", M, "        sync.get_latest()\n        return False", "        return False", ["C14.W1"]),
  ("refresh only when forced", S, "            if force or max_changed > self[side]._last_gotten:", "            if force:", ["C14.W1"]),
  ("id-less events reach the state", E, "            if event.oid is None:\n                log.warning(\"ignoring event %s, no oid\", event)\n                return\n", "", ["C14.W3"]),
  ("no info means exists", S, "        if ent[side].exists != TRASHED:\n            # we haven't gotten a trashed event yet\n            ent[side].exists = MISSING if self.providers[side].oid_is_path else TRASHED", "        if ent[side].exists != TRASHED:\n            # we haven't gotten a trashed event yet\n            ent[side].exists = EXISTS", ["C14.W4"]),
  ("manager marks entries fresh", M, "        sync[synced].exists = TRASHED\n        if not sync.is_conflicted:", "        sync[synced].exists = TRASHED\n        sync[synced]._last_gotten = time.time()\n        if not sync.is_conflicted:", ["C14.W5"]),
  ("walk drops changed objects", E, "                    changed = already[self.side].hash != event.hash or already[self.side].path != event.path", "                    changed = already[self.side].path != event.path", ["C14.W6"]),
 ],
 "C01": [
  ("FINISHED does not finish", M, "            if response == FINISHED:\n                something_got_done = True\n                self.finished(side, sync)", "            if response == FINISHED:\n                something_got_done = True", ["C01.R1"]),
  ("PUNT does not punt", M, "            elif response == PUNT:\n                something_got_done = False\n                sync.punt()", "            elif response == PUNT:\n                something_got_done = False", ["C01.R1"]),
  ("protocol function falls off the end", M, "        log.debug(\"nothing changed %s\", sync)\n        return FINISHED\n\n    def check_rename_is_delete_create", "        log.debug(\"nothing changed %s\", sync)\n\n    def check_rename_is_delete_create", ["C01.R2"]),
  ("queued events are dropped", E, "            for (event, from_walk) in self._queue:\n                self._process_event(event, from_walk=from_walk)\n            self._queue = []", "            self._queue = []", ["C01.R4"]),
  ("requeue without a priority change", M, "                    sync.priority = min_priority + 0.1\n                    conflict.priority = min_priority", "                    conflict.priority = min_priority", ["C01.R5"]),
  ("events for trashed ids are dropped", E, "            self._fill_event_path(event)\n            self._notify_on_root_change_event(event)", "            self._fill_event_path(event)\n            if event.exists is False and not event.path:\n                return\n            self._notify_on_root_change_event(event)", ["C01.R4"]),
 ],
 "C13": [
  ("prefix sibling", P, "        elif len(target_full) > len(folder_full) and target_full[len(folder_full)] == self.sep:\n            if target_full_case.startswith(folder_full_case):", "        elif len(target_full) > len(folder_full):\n            if target_full_case.startswith(folder_full_case):", ["C13.Z1"]),
  ("asymmetric paths_match", P, "        return self.normalize_path(patha, for_display) == self.normalize_path(pathb, for_display)", "        return self.normalize_path(patha, for_display) == self.normalize_path(pathb)", ["C13.Z3"]),
  ("replace_path outside the folder", P, "        raise ValueError(\"replace_path used without subpath\")", "        return path", ["C13.Z4"]),
  ("folded relative part", P, "                return target_full[len(folder_full):]", "                return target_full_case[len(folder_full):]", ["C13.Z5"]),
 ],
}

BENIGN = {
 "C15": [
  ("lock region widened", M, "        need_to_sleep = True\n        something_got_done = False  # shouldn't this be default False? Don't assume there will be no exceptions...\n        with self.state.lock:", "        with self.state.lock:\n            need_to_sleep = True\n            something_got_done = False\n        with self.state.lock:"),
 ],
 "C10": [
  ("transient class moved to the second arm", M, "        except (ex.CloudTemporaryError, ex.CloudDisconnectedError, ex.CloudOutOfSpaceError, ex.CloudTokenError,\n                ex.CloudNamespaceError) as e:", "        except (ex.CloudTemporaryError, ex.CloudDisconnectedError, ex.CloudOutOfSpaceError,\n                ex.CloudNamespaceError) as e:"),
 ],
 "C18": [
  ("operands of min/max reordered", R, "min(self.max_backoff, max(self.in_backoff * self.mult_backoff, self.min_backoff))", "max(self.min_backoff, min(self.mult_backoff * self.in_backoff, self.max_backoff))"),
 ],
 "C17": [
  ("equivalent ageing inequality", S, "(e[LOCAL].changed <= earlier_than))", "(now - e[LOCAL].changed >= age))"),
 ],
 "C02": [
  ("needs_sync guard through the entry method", M, "                    if not conflict[LOCAL].needs_sync() and not conflict[REMOTE].needs_sync():", "                    if not conflict.needs_sync():"),
 ],
}
