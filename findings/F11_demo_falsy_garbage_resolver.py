"""
F11 (C05): a resolver that returns FALSY garbage - (), 0, False, '' - is not treated as garbage.

C05: "if it returns nothing, raises, or returns garbage, the remote version wins and the local one is kept as '.conflicted'".
`SyncManager.__safe_call_resolver` validates the return value only under `if ret:`; a falsy non-None value skips the three checks, is not
`None`, and is returned as is.  `resolve_conflict` then fails to unpack it: the step raises, is punted, the resolver is called again on the
next attempt ... and the conflict is never resolved (the engine never goes quiet, the two sides stay different).

Run with cwd = the tree under test:   cd /repo && /venv/bin/python /verif/findings/F11_demo_falsy_garbage_resolver.py
exit 0: every garbage value ended with the remote version on both sides and a '.conflicted' local sibling; exit 1 otherwise.
"""
import importlib
import logging
import os
import sys
from io import BytesIO

sys.path.insert(0, os.getcwd())     # the tree under test, not the stale copy in site-packages
import cloudsync
import cloudsync.utils as _u  # noqa
_fixed = lambda t, size=3: "0" if t is None else str(abs(hash(str(t))) % 1000)
for _m in ("cloudsync.utils", "cloudsync.sync.state", "cloudsync.sync.manager", "cloudsync.providers.mock", "cloudsync.cs"):
    _mod = importlib.import_module(_m)
    if hasattr(_mod, "debug_sig"):
        setattr(_mod, "debug_sig", _fixed)

from cloudsync import SyncManager, SyncState, LOCAL, REMOTE, FILE, NotificationManager
from cloudsync.runnable import _BackoffError
from cloudsync.providers.mock import MockProvider

logging.disable(logging.CRITICAL)


class Sync(SyncManager):
    def process_events(self):
        for i in (LOCAL, REMOTE):
            for e in self.providers[i].events():
                self.state.update(i, e.otype, path=e.path, oid=e.oid, hash=e.hash, prior_oid=e.prior_oid, exists=e.exists)

    def step(self):
        try:
            self.do()
        except _BackoffError:
            pass

    def settle(self, rounds=150):
        for _ in range(rounds):
            self.process_events()
            self.step()
        self.process_events()
        return not self.busy


def translate(to, path):
    if to == LOCAL:
        return "/local" + path.replace("/remote", "")
    return "/remote" + path.replace("/local", "")


def tree(prov, root):
    out = {}
    for e in prov.walk(root):
        if e.otype == FILE:
            b = BytesIO()
            prov.download(e.oid, b)
            out[e.path[len(root):]] = b.getvalue()
    return out


def run(garbage):
    calls = []

    def resolver(f1, f2):
        calls.append(1)
        return garbage

    provs = (MockProvider(oid_is_path=False, case_sensitive=True), MockProvider(oid_is_path=False, case_sensitive=True))
    for p in provs:
        p.connect("creds")
    L, R = provs
    sync = Sync(SyncState(provs, shuffle=False), provs, translate, resolver, notification_manager=NotificationManager(lambda n: None))
    try:
        L.mkdir("/local")
        R.mkdir("/remote")
        # create/create conflict with different content
        L.create("/local/f", BytesIO(b"local-version"))
        R.create("/remote/f", BytesIO(b"remote-version"))
        quiet = sync.settle()
        lt, rt = tree(L, "/local"), tree(R, "/remote")
        ok = quiet and lt.get("/f") == b"remote-version" and rt.get("/f") == b"remote-version" and \
            any(k.startswith("/f.conflicted") and v == b"local-version" for k, v in lt.items())
        print("resolver returns %-6r -> quiet=%s resolver calls=%d local=%s remote=%s   %s" % (garbage, quiet, len(calls), lt, rt, "ok" if ok else "C05 VIOLATED"))
        return ok
    finally:
        sync.done()


if __name__ == "__main__":
    print("cloudsync from", cloudsync.__file__)
    results = [run(g) for g in (None, "junk", (), 0, False, "")]
    sys.exit(0 if all(results) else 1)
