#!/usr/bin/env python3
"""Writes rules/disposal.json: the path condition under which the engine throws away / resets the state of an entry (ignore / unignore / clear calls on
entries in sync/manager.py, smartsync.py, event.py), read from /repo's current tree.  Local names are generalised to metavariables, compound literals are
in negation normal form.  The table is the reviewed reading of today's state machine (DESIGN.md 7.11); regenerate only after a deliberate change."""
import ast, json, os, sys
HERE = os.path.dirname(os.path.dirname(os.path.abspath(__file__)))
sys.path.insert(0, HERE)
from sa.ctx import Ctx                                    # noqa: E402
from rules.common import disposal_sites, generalise       # noqa: E402

ctx = Ctx()
table = {}
for key, f, call, facts in disposal_sites(ctx):
    table[key] = sorted([generalise(t), p] for (t, p) in facts)
json.dump(table, open(os.path.join(HERE, "rules", "disposal.json"), "w"), indent=1, sort_keys=True)
print(len(table), "disposal sites")
