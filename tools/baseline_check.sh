#!/bin/sh
# Runs the repository's pinned test-suite (guard off: there are no hooks) and compares with BASELINE.json stable_pass.
# usage: tools/baseline_check.sh [repo_dir]
REPO=${1:-/repo}
OUT=$(mktemp /tmp/baseline.XXXXXX.xml)
cd "$REPO" && /venv/bin/python -m pytest -ra -q -p no:cacheprovider --timeout=900 --continue-on-collection-errors --junitxml="$OUT" >/dev/null 2>&1
python3 - "$OUT" <<'PY'
import json,sys,xml.etree.ElementTree as ET
b=json.load(open('/root/.vp/BASELINE.json'))
t=ET.parse(sys.argv[1])
passed=set()
for tc in t.iter('testcase'):
    if not any(c.tag in('failure','error','skipped') for c in tc):
        passed.add(tc.get('classname')+'::'+tc.get('name'))
missing=[x for x in b['stable_pass'] if x not in passed]
print('stable_pass=%d passed_now=%d missing=%d'%(len(b['stable_pass']),len(passed),len(missing)))
for m in missing: print('MISSING',m)
sys.exit(1 if missing else 0)
PY
rc=$?
rm -f "$OUT"
exit $rc
