#!/bin/sh
# usage: tools/try_patch.sh <patch.diff> <prop> [<prop>...]   - apply a patch to a scratch export of /repo HEAD and run quick checks on it
PATCH=$1; shift
T=$(mktemp -d /tmp/verif_tree.XXXXXX)
git -C /repo archive HEAD cloudsync | tar -x -C "$T"
( cd "$T" && patch -p1 -s < "$PATCH" ) || { echo "PATCH-FAILED $PATCH"; rm -rf "$T"; exit 3; }
for P in "$@"; do
  O=$(mktemp -d /tmp/verif_out.XXXXXX)
  ( cd /verif && VERIF_REPO=$T VERIF_OUT=$O python3-vt -m sa.check $P | cut -c1-400 ); echo "   -> $P exit=$?"
  rm -rf "$O"
done
rm -rf "$T"
