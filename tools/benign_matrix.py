#!/usr/bin/env python3
"""Runs all quick checks against behaviour-preserving patches: every check must exit 0. usage: tools/benign_matrix.py <patch.diff> ..."""
import glob, os, subprocess, sys, tempfile, shutil
from concurrent.futures import ThreadPoolExecutor
def run(patch):
    t = tempfile.mkdtemp(prefix="verif_tree."); o = tempfile.mkdtemp(prefix="verif_out.")
    try:
        subprocess.run("git -C /repo archive HEAD cloudsync | tar -x -C %s" % t, shell=True, check=True)
        r = subprocess.run("patch -p1 -s < %s" % patch, shell=True, cwd=t, capture_output=True, text=True)
        if r.returncode:
            return patch, "PATCH-FAILED " + (r.stdout + r.stderr)[:200]
        r = subprocess.run(["python3-vt", "-m", "sa.checkall"], cwd="/verif", env=dict(os.environ, VERIF_REPO=t, VERIF_OUT=o), capture_output=True, text=True)
        bad = [l for l in r.stdout.splitlines() if " exit=" in l and " exit=0" not in l]
        return patch, "\n".join("      " + b[:420] for b in bad) if bad else ""
    finally:
        shutil.rmtree(t, ignore_errors=True); shutil.rmtree(o, ignore_errors=True)
patches = sys.argv[1:] or sorted(glob.glob("/verif/benign/*.diff"))
n_bad = 0
with ThreadPoolExecutor(8) as ex:
    for patch, out in ex.map(run, patches):
        print("%-40s %s" % (patch.replace("/tmp/wt_", "").replace("/verif/benign/", ""), "silent" if not out else "ALARM"))
        if out:
            n_bad += 1
            print(out)
sys.exit(1 if n_bad else 0)
