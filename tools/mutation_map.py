#!/usr/bin/env python3
"""Mutation map of the checker: which single-statement faults in the engine's source does at least one rule notice?

This is a tool for *building* rules, not a verdict about /repo: it enumerates small syntactic faults (statement deleted,
branch condition negated, and/or swapped, side index swapped, `is None` turned into a truthiness test) in the functions of
the engine modules, runs all quick checks on a scratch copy for each, and lists the survivors per function. A survivor is
either a blind spot of the rule set or a fault no property cares about - they are triaged by reading (DESIGN.md 7.8).

usage: python3-vt tools/mutation_map.py [--ops DEL,NEG,ANDOR,SIDE,NONE] [--files rel,rel] [--funcs name,name] [--jobs 16] [--out file.json]
"""
import json, os, sys, time
from concurrent.futures import ThreadPoolExecutor
sys.path.insert(0, os.path.dirname(os.path.dirname(os.path.abspath(__file__))))
from selftest.mutants import FILES, HERE, REPO, mutants_of, run_one    # noqa: E402


def main():
    a = sys.argv[1:]

    def opt(name, default):
        if name in a:
            return a[a.index(name) + 1]
        return default
    ops = set(opt("--ops", "DEL,NEG,ANDOR,SIDE,NONE").split(","))
    files = opt("--files", ",".join(FILES)).split(",")
    funcs = [f for f in opt("--funcs", "").split(",") if f]
    jobs_n = int(opt("--jobs", "16"))
    out = opt("--out", os.path.join(HERE, "out", "mutation_map.json"))
    jobs = []
    for rel in files:
        src = open(os.path.join(REPO, rel)).read()
        for mid, desc, spec in mutants_of(rel, src, ops, funcs):
            jobs.append((mid, desc, rel, spec))
    print("%d mutants" % len(jobs), flush=True)
    if "--count" in a:
        return
    t0 = time.time()
    results = []
    with ThreadPoolExecutor(jobs_n) as ex:
        for i, (mid, desc, res, err) in enumerate(ex.map(run_one, jobs)):
            if res is None or len(res) < 20:
                results.append(dict(id=mid, desc=desc, status="error", why=err))
                continue
            fired = sorted(k for k, v in res.items() if v[0] == 1)
            undec = sorted(k for k, v in res.items() if v[0] == 2)
            rules = sorted({r for k, v in res.items() if v[0] == 1 for r in v[1]})
            results.append(dict(id=mid, desc=desc, status="killed" if fired else ("undecided" if undec else "survived"), fired=fired, undecided=undec, rules=rules))
            if (i + 1) % 100 == 0:
                print("  %d/%d  %.0fs" % (i + 1, len(jobs), time.time() - t0), flush=True)
    os.makedirs(os.path.dirname(out), exist_ok=True)
    json.dump(results, open(out, "w"), indent=1)
    n = len(results)
    k = sum(1 for r in results if r["status"] == "killed")
    u = sum(1 for r in results if r["status"] == "undecided")
    s = sum(1 for r in results if r["status"] == "survived")
    print("mutants=%d killed=%d undecided(exit 2)=%d survived=%d errors=%d  (%.0fs)" % (n, k, u, s, n - k - u - s, time.time() - t0))


if __name__ == "__main__":
    main()
