#!/usr/bin/env python3
"""Applies each generic behaviour-preserving transform (selftest/transforms.py) to a scratch copy of /repo's package and runs ALL quick checks once
per transform: every check must stay at exit 0.  (The thorough tier does the same per property; this is the fast all-properties view.)"""
import os, shutil, subprocess, sys, tempfile
from concurrent.futures import ThreadPoolExecutor
HERE = os.path.dirname(os.path.dirname(os.path.abspath(__file__)))
sys.path.insert(0, HERE)
from selftest.transforms import GENERIC_BENIGN   # noqa: E402
from selftest.runner import _copy_tree             # noqa: E402


def run(name):
    t = tempfile.mkdtemp(prefix="verif_tree."); o = tempfile.mkdtemp(prefix="verif_out.")
    try:
        _copy_tree(t)
        GENERIC_BENIGN[name](t)
        r = subprocess.run(["python3-vt", "-m", "sa.checkall"], cwd=HERE, env=dict(os.environ, VERIF_REPO=t, VERIF_OUT=o), capture_output=True, text=True)
        bad = [l for l in r.stdout.splitlines() if " exit=" in l and " exit=0 " not in l + " "]
        n = sum(1 for l in r.stdout.splitlines() if " exit=" in l)
        return name, n, bad, r.stderr[-300:]
    finally:
        shutil.rmtree(t, ignore_errors=True); shutil.rmtree(o, ignore_errors=True)


rc = 0
with ThreadPoolExecutor(8) as ex:
    for name, n, bad, err in ex.map(run, list(GENERIC_BENIGN)):
        if n < 20:
            print("%-20s CHECKER-CRASH %s" % (name, err)); rc = 1
        elif bad:
            rc = 1
            print("%-20s ALARM" % name)
            for l in bad:
                print("      " + l[:400])
        else:
            print("%-20s silent (20 checks)" % name)
sys.exit(rc)
