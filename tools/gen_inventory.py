#!/usr/bin/env python3
"""Writes sa/inventory.json: the method names of every class of the package as of /repo's current tree.  The analyser re-inlines private
single-use methods that are NOT in this list (sa/reinline.py).  Regenerate only after a deliberate, reviewed change of /repo."""
import ast, json, os, sys
REPO = os.environ.get("VERIF_REPO", "/repo")
HERE = os.path.dirname(os.path.dirname(os.path.abspath(__file__)))
inv = {}
for dp, dn, fn in os.walk(os.path.join(REPO, "cloudsync")):
    if os.path.relpath(dp, REPO).split(os.sep)[:2] == ["cloudsync", "tests"]:
        dn[:] = []
        continue
    for f in sorted(fn):
        if not f.endswith(".py"):
            continue
        rel = os.path.relpath(os.path.join(dp, f), REPO)
        parts = rel[:-3].split(os.sep)
        if parts[-1] == "__init__":
            parts = parts[:-1]
        tree = ast.parse(open(os.path.join(dp, f)).read())
        names = []
        for c in ast.walk(tree):
            if isinstance(c, ast.ClassDef):
                for m in c.body:
                    if isinstance(m, (ast.FunctionDef, ast.AsyncFunctionDef)):
                        names.append("%s.%s" % (c.name, m.name))
        inv[".".join(parts)] = sorted(set(names))
json.dump(inv, open(os.path.join(HERE, "sa", "inventory.json"), "w"), indent=0, sort_keys=True)
print(sum(len(v) for v in inv.values()), "methods in", len(inv), "modules")
