#!/usr/bin/env python3
"""Writes sa/inventory.json: the method names of every class of the package as of /repo's current tree.  The analyser re-inlines private
single-use methods that are NOT in this list (sa/reinline.py).  Regenerate only after a deliberate, reviewed change of /repo."""
import ast, json, os, sys
REPO = os.environ.get("VERIF_REPO", "/repo")
HERE = os.path.dirname(os.path.dirname(os.path.abspath(__file__)))
inv = {}
for dp, dn, fn in os.walk(os.path.join(REPO, "cloudsync")):
    if os.path.relpath(dp, REPO).split(os.sep)[:2] == ["cloudsync", "tests"]:
        dn[:] = []
        continue
    for f in sorted(fn):
        if not f.endswith(".py"):
            continue
        rel = os.path.relpath(os.path.join(dp, f), REPO)
        parts = rel[:-3].split(os.sep)
        if parts[-1] == "__init__":
            parts = parts[:-1]
        tree = ast.parse(open(os.path.join(dp, f)).read())
        names = []
        for c in ast.walk(tree):
            if isinstance(c, ast.ClassDef):
                for m in c.body:
                    if isinstance(m, (ast.FunctionDef, ast.AsyncFunctionDef)):
                        names.append("%s.%s" % (c.name, m.name))
        inv[".".join(parts)] = sorted(set(names))
json.dump(inv, open(os.path.join(HERE, "sa", "inventory.json"), "w"), indent=0, sort_keys=True)
def shape_of(v):
    names = {}

    class G(ast.NodeTransformer):
        def visit_Name(self, n):
            if n.id == "self":
                return n
            names.setdefault(n.id, "v%d" % len(names))
            return ast.copy_location(ast.Name(id=names[n.id], ctx=n.ctx), n)
    import copy
    return ast.unparse(G().visit(copy.deepcopy(v)))


# the alias shapes of every method (sa/canon.py inlines hoisted aliases that are NOT in this list)
loc = {}
for dp, dn, fn in os.walk(os.path.join(REPO, "cloudsync")):
    if os.path.relpath(dp, REPO).split(os.sep)[:2] == ["cloudsync", "tests"]:
        dn[:] = []
        continue
    for f in sorted(fn):
        if not f.endswith(".py"):
            continue
        rel = os.path.relpath(os.path.join(dp, f), REPO)
        tree = ast.parse(open(os.path.join(dp, f)).read())
        loc["%s:<module>" % rel] = sorted({t.id for st in tree.body if isinstance(st, (ast.Assign, ast.AnnAssign)) for t in (st.targets if isinstance(st, ast.Assign) else [st.target])
                                           if isinstance(t, ast.Name)})
        for c in ast.walk(tree):
            if isinstance(c, ast.ClassDef):
                for m in c.body:
                    if isinstance(m, (ast.FunctionDef, ast.AsyncFunctionDef)):
                        # the shapes of the call-free attribute / subscript chains this method already keeps in locals (names do not matter)
                        shapes = set()
                        for st in ast.walk(m):
                            if isinstance(st, ast.Assign) and len(st.targets) == 1 and isinstance(st.targets[0], ast.Name) and not isinstance(st.value, (ast.Name, ast.Constant)) \
                                    and all(isinstance(x, (ast.Attribute, ast.Subscript, ast.Name, ast.Load, ast.Constant)) for x in ast.walk(st.value)):
                                shapes.add(shape_of(st.value))
                        loc["%s:%s.%s" % (rel, c.name, m.name)] = sorted(shapes)
json.dump(loc, open(os.path.join(HERE, "sa", "locals_inventory.json"), "w"), indent=0, sort_keys=True)
print(sum(len(v) for v in inv.values()), "methods in", len(inv), "modules")
