#!/bin/sh
# usage: tools/on_tree.sh <tree-dir> <prop> [tier]   - run a check against another source tree, evidence goes to a scratch dir
T=$1; P=$2; shift 2
O=$(mktemp -d /tmp/verif_out.XXXXXX)
cd /verif && VERIF_REPO=$T VERIF_OUT=$O python3-vt -m sa.check $P "$@"
rc=$?
rm -rf "$O"
exit $rc
