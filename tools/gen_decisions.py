#!/usr/bin/env python3
"""Writes rules/decisions.json (the decision table: per function and action shape, the reach condition as a decision diagram over guard atoms - see
rules/decisions.py and rules/reachcond.py) from /repo's current tree.  Regenerate only after a deliberate, reviewed change of the engine's decision code."""
import json, os, sys
HERE = os.path.dirname(os.path.dirname(os.path.abspath(__file__)))
sys.path.insert(0, HERE)
from sa.ctx import Ctx                                   # noqa: E402
from rules.decisions import build_table, table_path     # noqa: E402
t = build_table(Ctx())
json.dump(t, open(table_path(), "w"), indent=1, sort_keys=True)
print(len(t), "reach conditions,", sum(len(v["atoms"]) for v in t.values()), "atoms")
