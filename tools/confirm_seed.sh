#!/bin/sh
# usage: tools/confirm_seed.sh <agent-worktree> <ID> <A|B>
# Confirms a seeded change independently: fresh worktree of /repo HEAD; demo passes unpatched, fails patched; pinned suite passes patched.
# On success stores it as /verif/seeded/<ID>_<variant>/ (patch.diff, demo, notes) - meta.json is written by the caller.
WT=$1; ID=$2; V=$3
C=/tmp/confirm_${ID}_${V}
rm -rf "$C"; git -C /repo worktree prune
git -C /repo worktree add -q --detach "$C" HEAD || exit 9
sed "s#$WT#$C#g" "$WT/demo_${ID}_${V}.py" > "$C/demo_${ID}_${V}.py" && [ -s "$C/demo_${ID}_${V}.py" ] || { echo "$ID $V NO-DEMO"; git -C /repo worktree remove --force "$C"; exit 9; }
cd "$C"
timeout 600 /venv/bin/python demo_${ID}_${V}.py >/tmp/confirm_${ID}_${V}.clean.log 2>&1; rc_clean=$?
git apply "$WT/patch_${V}.diff" || { echo "$ID $V PATCH-DOES-NOT-APPLY"; cd /; git -C /repo worktree remove --force "$C"; exit 9; }
timeout 600 /venv/bin/python demo_${ID}_${V}.py >/tmp/confirm_${ID}_${V}.patched.log 2>&1; rc_patched=$?
/verif/tools/baseline_check.sh "$C" > /tmp/confirm_${ID}_${V}.baseline.log 2>&1; rc_base=$?
echo "$ID $V demo_clean=$rc_clean demo_patched=$rc_patched baseline=$rc_base $(tail -1 /tmp/confirm_${ID}_${V}.baseline.log | head -c 80)"
if [ $rc_clean -eq 0 ] && [ $rc_patched -ne 0 ] && [ $rc_base -eq 0 ]; then
  D=/verif/seeded/${ID}_${V}; mkdir -p "$D"
  cp "$WT/patch_${V}.diff" "$D/patch.diff"; cp "$WT/demo_${ID}_${V}.py" "$D/"; cp "$WT/NOTES.md" "$D/NOTES.md"
  echo "$ID $V CONFIRMED"
else
  echo "$ID $V NOT-CONFIRMED"
fi
cd /; git -C /repo worktree remove --force "$C"
