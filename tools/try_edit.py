#!/usr/bin/env python3
"""usage: tools/try_edit.py <relpath> <old> <new> <prop> [<prop>...]  - apply a one-off textual edit to a scratch export of /repo HEAD and run quick checks on it (old must occur exactly once; use \\n for newlines)"""
import os, subprocess, sys, tempfile, shutil
rel, old, new, props = sys.argv[1], sys.argv[2].replace("\\n", "\n"), sys.argv[3].replace("\\n", "\n"), sys.argv[4:]
t = tempfile.mkdtemp(prefix="verif_tree.")
try:
    subprocess.run("git -C /repo archive HEAD cloudsync | tar -x -C %s" % t, shell=True, check=True)
    p = os.path.join(t, rel)
    s = open(p).read()
    if s.count(old) != 1:
        print("EDIT-FAILED: %d occurrences of %r" % (s.count(old), old)); sys.exit(3)
    open(p, "w").write(s.replace(old, new))
    import py_compile
    py_compile.compile(p, doraise=True)
    for pr in props:
        o = tempfile.mkdtemp(prefix="verif_out.")
        r = subprocess.run(["python3-vt", "-m", "sa.check", pr], cwd="/verif", env=dict(os.environ, VERIF_REPO=t, VERIF_OUT=o), capture_output=True, text=True)
        out = "\n".join(l[:330] for l in r.stdout.splitlines() if not l.startswith("KNOWN"))
        print(out)
        print("   -> %s exit=%d" % (pr, r.returncode))
        shutil.rmtree(o, ignore_errors=True)
finally:
    shutil.rmtree(t, ignore_errors=True)
