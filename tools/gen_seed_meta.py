#!/usr/bin/env python3
"""Writes seeded/<id>/meta.json and seeded/MATRIX.md from the confirmation logs, the sub-agents' NOTES.md and a fresh run of all
quick checks against every seeded change (scratch copies; /repo itself is never patched)."""
import glob, json, os, re, subprocess, sys, tempfile, shutil
from concurrent.futures import ThreadPoolExecutor
HERE = os.path.dirname(os.path.dirname(os.path.abspath(__file__)))
logs = ""
for f in glob.glob("/tmp/confirm*.log"):
    logs += open(f).read()
NOT_EXPECTED = {}      # (C08_A, a `.get` turned into `[...]` in a loader, was not expected to be reported until the values rows of the decision table existed)

# round 2 (variants C, D) was written after the rules of round 1 existed and was first run as a held-out measurement:
# these were NOT reported by any check at that time and led to new rules (DESIGN.md 7.6)
ROUND2_MISSED_AT_FIRST = {"C01_C", "C01_D", "C02_D", "C03_C", "C03_D", "C04_D", "C05_D", "C06_D", "C09_D", "C12_C", "C13_C", "C14_D", "C15_D", "C16_D", "C18_C", "C18_D",
                          "C19_D", "C20_C", "C20_D"}

# round 3 (variants E, F): same protocol, after the round-2 rules existed
ROUND3_MISSED_AT_FIRST = {"C02_E", "C03_E", "C05_E", "C06_E", "C06_F", "C08_E", "C09_F", "C10_F", "C11_E", "C11_F", "C12_E", "C12_F", "C13_E", "C13_F", "C14_E", "C14_F", "C15_F",
                          "C16_E", "C16_F", "C17_F", "C18_F", "C19_E"}

# round 4 (variants G, H): after the round-3 rules and the first mutation-map rules existed
ROUND4_MISSED_AT_FIRST = {"C02_H", "C01_G", "C04_G", "C06_G", "C08_H", "C09_H", "C10_H", "C13_G", "C13_H", "C14_G", "C16_G", "C16_H", "C17_H", "C18_H", "C20_H"}

# round 5 (variants I, J)
ROUND5_MISSED_AT_FIRST = {"C19_I", "C19_J", "C01_J", "C03_J", "C05_I", "C06_I", "C09_I", "C09_J", "C10_I", "C11_I", "C13_I", "C13_J", "C14_I", "C15_J", "C16_I", "C16_J", "C17_I", "C17_J"}

# round 6 (variants K, L): first run with the decision table (7.12) in place; the six below were reported by no check at first
ROUND6_MISSED_AT_FIRST = {"C05_L", "C08_K", "C11_K", "C12_K", "C17_L", "C18_L"}
# ... and these were reported at first, but not by the check of the property they were written for (fixed afterwards by attribution / a rule of their own)
ROUND6_NOT_BY_OWN_AT_FIRST = {"C01_K", "C02_K", "C02_L", "C03_L", "C04_K", "C04_L", "C06_K", "C06_L", "C07_K", "C07_L", "C09_L", "C10_L", "C11_L", "C12_L", "C13_L",
                              "C14_K", "C14_L"}

# round 7 (variants M, N): the brief asked for changed VALUES (arguments, defaults, callees, constants, copies), not edited conditions
ROUND7_MISSED_AT_FIRST = {"C01_N", "C13_M", "C13_N", "C14_M", "C15_M", "C15_N", "C17_M", "C18_M", "C20_M"}

# round 8 (variants O, P): any kind of edit; first run after the value rows existed. Not reported by any check at first:
ROUND8_MISSED_AT_FIRST = {"C16_O", "C18_P", "C07_O", "C10_O"}

def run(d):
    patch = os.path.join(d, "patch.diff")
    t = tempfile.mkdtemp(prefix="verif_tree."); o = tempfile.mkdtemp(prefix="verif_out.")
    try:
        subprocess.run("git -C /repo archive HEAD cloudsync | tar -x -C %s" % t, shell=True, check=True)
        r = subprocess.run("patch -p1 -s < %s" % patch, shell=True, cwd=t, capture_output=True, text=True)
        if r.returncode:
            return d, None
        r = subprocess.run(["python3-vt", "-m", "sa.checkall"], cwd=HERE, env=dict(os.environ, VERIF_REPO=t, VERIF_OUT=o), capture_output=True, text=True)
        res = {}
        for l in r.stdout.splitlines():
            p = l.split()
            if len(p) >= 2 and p[1].startswith("exit="):
                res[p[0]] = (int(p[1][5:]), l.split("::", 1)[1].strip() if "::" in l else "")
        return d, res
    finally:
        shutil.rmtree(t, ignore_errors=True); shutil.rmtree(o, ignore_errors=True)

dirs = sorted(d for d in glob.glob(os.path.join(HERE, "seeded", "C*_*")) if os.path.isdir(d))
rows = []
with ThreadPoolExecutor(8) as ex:
    for d, res in ex.map(run, dirs):
        sid = os.path.basename(d); prop, var = sid.split("_")
        notes = open(os.path.join(d, "NOTES.md")).read() if os.path.exists(os.path.join(d, "NOTES.md")) else ""
        m = re.search(r"(?im)^.*variant\s+%s\b.*$" % var, notes)
        sect = ""
        if m:
            rest = notes[m.start():]
            other = {"A": "B", "B": "A", "C": "D", "D": "C", "E": "F", "F": "E", "G": "H", "H": "G", "I": "J", "J": "I", "K": "L", "L": "K", "M": "N", "N": "M", "O": "P", "P": "O"}[var]
            m2 = re.search(r"(?im)^#+.*variant\s+%s\b.*$|^\*\*variant\s+%s\b" % (other, other), rest[10:])
            sect = rest[: (m2.start() + 10) if m2 else 2500][:2500].strip()
        conf = [l for l in logs.splitlines() if l.startswith("%s %s demo_clean" % (prop, var))]
        fired = sorted(k for k, v in (res or {}).items() if v[0] == 1)
        files = sorted(set(re.findall(r"^\+\+\+ b/(\S+)", open(os.path.join(d, "patch.diff")).read(), re.M)))
        meta = {
            "id": sid, "breaks_property": prop, "variant": var, "files_changed": files, "round": {"A": 1, "B": 1, "C": 2, "D": 2, "E": 3, "F": 3, "G": 4, "H": 4, "I": 5, "J": 5, "K": 6, "L": 6, "M": 7, "N": 7, "O": 8, "P": 8}[var],
            "reported_when_first_run_held_out": (sid not in ROUND2_MISSED_AT_FIRST) if var in "CD" else ((sid not in ROUND3_MISSED_AT_FIRST) if var in "EF" else ((sid not in ROUND4_MISSED_AT_FIRST) if var in "GH" else ((sid not in ROUND5_MISSED_AT_FIRST) if var in "IJ" else ((sid not in ROUND6_MISSED_AT_FIRST) if var in "KL" else ((sid not in ROUND7_MISSED_AT_FIRST) if var in "MN" else ((sid not in ROUND8_MISSED_AT_FIRST) if var in "OP" else None)))))),
            "written_by": "independent sub-agent given only the property text and its own worktree (no access to /verif)",
            "mechanism_and_what_it_needs_to_manifest": sect or "see NOTES.md",
            "what_was_run": ["tools/confirm_seed.sh (fresh worktree of /repo HEAD): demo on the unmodified tree, demo with the patch applied, pinned test-suite with the patch applied",
                             conf[-1] if conf else "confirmation line not found"],
            "confirmed": bool(conf) and "demo_clean=0" in conf[-1] and "demo_patched=0" not in conf[-1] and "baseline=0" in conf[-1],
            "detected_by": fired, "detected_by_own_property": prop in fired,
            "expect_detected": sid not in NOT_EXPECTED,
            "first_report": {k: (res or {}).get(k, (0, ""))[1][:300] for k in fired[:2]},
        }
        if sid in NOT_EXPECTED:
            meta["why_not_detected"] = NOT_EXPECTED[sid]
        json.dump(meta, open(os.path.join(d, "meta.json"), "w"), indent=1)
        rows.append(meta)
out = ["# Seeded regressions x checks (generated by tools/gen_seed_meta.py)", "",
       "| id | files | confirmed | reported by | own property |", "|---|---|---|---|---|"]
for m in rows:
    out.append("| %s | %s | %s | %s | %s |" % (m["id"], ", ".join(os.path.basename(f) for f in m["files_changed"]), "yes" if m["confirmed"] else "NO",
                                             ", ".join(m["detected_by"]) or ("- (by design: see DESIGN.md 7.6)" if not m["expect_detected"] else "**MISSED**"), "yes" if m["detected_by_own_property"] else "no"))
n = len(rows); det = sum(1 for m in rows if m["detected_by"]); own = sum(1 for m in rows if m["detected_by_own_property"])
out += ["", "%d seeded changes, %d reported, %d by the check of their own property." % (n, det, own)]
open(os.path.join(HERE, "seeded", "MATRIX.md"), "w").write("\n".join(out) + "\n")
print("\n".join(out[-3:]))
print([m["id"] for m in rows if not m["detected_by"]], [m["id"] for m in rows if not m["confirmed"]])
