#!/usr/bin/env python3
"""Runs every quick check against every seeded change (scratch export of /repo HEAD + patch) and prints which checks fire.
usage: tools/seed_matrix.py [patch.diff ...]   (default: /verif/seeded/*/patch.diff)"""
import glob, os, subprocess, sys, tempfile, shutil, json
from concurrent.futures import ThreadPoolExecutor

def run(patch):
    t = tempfile.mkdtemp(prefix="verif_tree.")
    o = tempfile.mkdtemp(prefix="verif_out.")
    try:
        subprocess.run("git -C /repo archive HEAD cloudsync | tar -x -C %s" % t, shell=True, check=True)
        r = subprocess.run("patch -p1 -s < %s" % patch, shell=True, cwd=t, capture_output=True, text=True)
        if r.returncode:
            return patch, None, "PATCH-FAILED " + r.stdout[:200]
        r = subprocess.run(["python3-vt", "-m", "sa.checkall"], cwd="/verif", env=dict(os.environ, VERIF_REPO=t, VERIF_OUT=o), capture_output=True, text=True)
        res = {}
        for l in r.stdout.splitlines():
            parts = l.split()
            if len(parts) >= 2 and parts[1].startswith("exit="):
                res[parts[0]] = (int(parts[1][5:]), l.split("::", 1)[1].strip() if "::" in l else "")
        return patch, res, r.stderr[-300:]
    finally:
        shutil.rmtree(t, ignore_errors=True); shutil.rmtree(o, ignore_errors=True)

patches = sys.argv[1:] or sorted(glob.glob("/verif/seeded/*/patch.diff"))
with ThreadPoolExecutor(8) as ex:
    for patch, res, err in ex.map(run, patches):
        name = patch.replace("/verif/seeded/", "").replace("/patch.diff", "").replace("/tmp/wt_", "").replace("/tmp/w3_", "").replace("/tmp/w4_", "").replace("/tmp/w5_", "").replace("/tmp/w6_", "").replace("/tmp/w7_", "").replace("/tmp/w8_", "").replace("/patch_", "_").replace(".diff", "")
        if res is None:
            print("%-28s %s" % (name, err)); continue
        if len(res) < 20:
            print("%-28s CHECKER-CRASH (%d property lines) %s" % (name, len(res), err[-200:])); continue
        fired = sorted(k for k, v in res.items() if v[0] == 1)
        broken = sorted(k for k, v in res.items() if v[0] == 2)
        print("%-28s fired=%s%s" % (name, ",".join(fired) or "-", (" undecided=" + ",".join(broken)) if broken else ""))
        for k in fired[:3]:
            print("      %s: %s" % (k, res[k][1][:230]))
