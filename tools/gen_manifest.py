#!/usr/bin/env python3
"""Regenerates /verif/MANIFEST.json from the table below (claimed properties) - run after adding a rules/Cxx.py."""
import json, os, sys
HERE = os.path.dirname(os.path.dirname(os.path.abspath(__file__)))
props = [json.loads(l) for l in open(os.path.join(HERE, "properties.jsonl"))]

COMMON_NOTE = ("Trusted base: CPython's ast parser; the /verif/sa engine (program model, receiver typing with a 6-line override table, "
               "over-/under-approximate call graphs, statement CFGs with exceptional edges, must-facts guard analysis); the seed names of the "
               "mechanisms (an absent seed or a rule that finds fewer instances than confirmed on the pinned tree exits 2, never 0). Assumes "
               "application overrides of the extension points do not touch engine state and that reflection is limited to the getattr/setattr "
               "forms present today. Decides structural necessary conditions of the property, not the behaviour as a whole.")

CLAIMS = {
 "C15": ("lock-set analysis over receiver-typed call graph",
         "Decides the deterministic half of the property for every call chain, hence every schedule: no mutation of tracked sync state "
         "(index / pending / dirty / request / exclude containers, every SideState/SyncEntry field, with attribute interception and property "
         "getters modelled as calls) is reachable from a service-thread entry point or a public CloudSync/SmartCloudSync method with "
         "SyncState.lock not held; the three critical sections are single lock regions; the lock is one RLock created once. Does not decide "
         "that threaded runs converge.", "4 C15"),
 "C09": ("SQL/Python table agreement + CFG guards",
         "Decides, for SqliteStorage (and MockStorage where applicable): every statement is keyed by id AND tag, placeholders agree with the "
         "parameter lists, result rows are unpacked by column role and read() returns the stored bytes, update-missing raises / delete is "
         "idempotent / read falls through to None, autocommit, all execute and fetch calls under the mutex, interface completeness, cursor data "
         "through the interface, fresh ids from create. Equivalence with a map over all call sequences and SQLite's durability are not decided.", "4 C09"),
 "C08": ("codec key/field agreement + CFG cut queries on the attribute funnel",
         "Decides the persistence mechanism: serialize/deserialize agree key by key and field by field (enums via .value / constructor), every "
         "public field store passes updated() first, updated() marks dirty on every path, private persisted fields are only written by the "
         "funnel, commit writes every dirty entry (four-case table) and only then empties the set, every step ends with a commit on all "
         "normal paths. Does not decide equality of storage and memory after each step of each history.", "4 C08"),
 "C11": ("ownership / dispatch exhaustiveness / read-only effect analysis",
         "Decides ownership of the index containers, exhaustive dispatch of index-relevant keys in updated(), update-before-store order, "
         "routing of side-state moves through the funnel, read-only look-ups (transitive effect analysis) and the guards of the pending-set "
         "arms. Does not decide that _change_path/_change_oid are correct for every overlapping event sequence.", "4 C11"),
 "C18": ("CFG cut queries + lattice normal form",
         "Decides the loop structure: catch-all around do(), backoff accounting and re-arming on every path into do(), the backoff update as a "
         "min/max lattice normal form equal to max(min(MAX,CUR*MULT),MIN), a stop test on every do()->do() path, done() once in finally under "
         "__shutdown, wait() really joins, no restart after final stop, __shutdown published before signalling, stop_all signals all before "
         "joining, FIFO single-delivery notification loop. Timing of stop/wake races beyond that is not decided.", "4 C18"),
 "C07": ("CFG ordering of durable writes + call-graph effect summaries + side-typing of hashes",
         "Decides the ordering mechanism: who may commit / write storage, no commit before the step's provider work and a commit on every "
         "normal path after it, nothing provider-mutating after the in-step commit up to the step frame, cursor only after the exhausted events "
         "loop, equal-hash re-discovery of an existing peer with the SAME provider's hash, tolerant load loop, publish-after-download. "
         "Convergence after a crash at each point is not decided.", "4 C07"),
 "C06": ("CFG cut queries in the event manager and the load loop",
         "Decides: cursor written only after the exhausted events loop; a fresh cursor is never made durable while the owed walk is only in "
         "memory; cursor-error fallback wired to a walk; walk marker only after a complete walk; load loop rebuilds both indexes and the "
         "pending set from the `changed` flag under _loading; labels separate accounts and roots. 'As if it had never stopped' is not decided.", "4 C06"),
}

def main():
    checks = []
    for pid, (tech, text, ref) in CLAIMS.items():
        if not os.path.exists(os.path.join(HERE, "rules", pid + ".py")):
            continue
        checks.append({
            "property_id": pid,
            "quick_cmd": "python3-vt -m sa.check %s --tier quick" % pid,
            "thorough_cmd": "python3-vt -m sa.check %s --tier thorough" % pid,
            "evidence_file": "/verif/evidence/%s.json" % pid,
            "replay_cmd_template": "python3-vt -m sa.replay {path}",
            "engine": "sa",
            "level_claimed": {"category": "other", "text": text, "design_ref": "DESIGN.md section " + ref},
            "level_note": COMMON_NOTE,
            "technique": "static analysis: " + tech,
        })
    claimed = {c["property_id"] for c in checks}
    na_reasons = {}
    try:
        na_reasons = json.load(open(os.path.join(HERE, "tools", "not_applicable.json")))
    except Exception:
        pass
    na = []
    for p in props:
        if p["id"] not in claimed:
            na.append({"property_id": p["id"], "reason": na_reasons.get(p["id"], "check not built yet (build in progress); planned as structural necessary conditions, see DESIGN.md section 4")})
    m = {
        "version": 1,
        "setup_cmd": "python3-vt -m sa.selfcheck",
        "hooks": {"guard": "CLOUDSYNC_VERIF", "enable": "none: the checks are static and need no hooks or instrumentation in /repo",
                  "baseline_off_cmd": "cd /repo && /venv/bin/python -m pytest -ra -q -p no:cacheprovider --timeout=900 --continue-on-collection-errors",
                  "source_commits": [], "add_only": True},
        "engines": [{"name": "sa", "path": "/verif/sa", "serves_properties": sorted(claimed),
                     "kind_free_text": "repository-specific static analyser: ast -> program model -> receiver-typed call graph -> per-function CFG / guard facts / lock-set / side-typing / SQL and codec tables / lattice normal form"}],
        "checks": checks,
        "notes": "Static analysis only; every check parses /repo/cloudsync afresh. exit 0 = all rule instances hold (KNOWN-FINDING lines for listed findings), 1 = violation (VIOLATION property=.. replay=..), 2 = analysis error / undecided. Defects repaired by fix: commits in /repo are listed in known_findings.json with status fixed.",
        "not_applicable": na,
    }
    json.dump(m, open(os.path.join(HERE, "MANIFEST.json"), "w"), indent=1)
    print("claimed", sorted(claimed), "not_applicable", [x["property_id"] for x in na])

main()
