#!/usr/bin/env python3
"""Regenerates /verif/MANIFEST.json from the table below (claimed properties) - run after adding a rules/Cxx.py."""
import json, os, sys
HERE = os.path.dirname(os.path.dirname(os.path.abspath(__file__)))
props = [json.loads(l) for l in open(os.path.join(HERE, "properties.jsonl"))]

COMMON_NOTE = ("Trusted base: CPython's ast parser; the /verif/sa engine (program model, receiver typing with a 6-line override table, "
               "over-/under-approximate call graphs, statement CFGs with exceptional edges, must-facts guard analysis); the seed names of the "
               "mechanisms (an absent seed or a rule that finds fewer instances than confirmed on the pinned tree exits 2, never 0). Assumes "
               "application overrides of the extension points do not touch engine state and that reflection is limited to the getattr/setattr "
               "forms present today. Decides structural necessary conditions of the property, not the behaviour as a whole. Every check also "
               "decides definite assignment (no read of an unassigned / unbound local) in the functions its rules anchor in. The full rule list "
               "with today's instance counts is /verif/RULES.md; which independently written regressions each check reports is /verif/seeded/MATRIX.md.")

CLAIMS = {
 "C15": ("lock-set analysis over receiver-typed call graph",
         "Decides the deterministic half of the property for every call chain, hence every schedule: no mutation of tracked sync state "
         "(index / pending / dirty / request / exclude containers, every SideState/SyncEntry field, with attribute interception and property "
         "getters modelled as calls) is reachable from a service-thread entry point or a public CloudSync/SmartCloudSync method with "
         "SyncState.lock not held; the three critical sections are single lock regions; the lock is one RLock created once. Does not decide "
         "that threaded runs converge.", "4 C15"),
 "C09": ("SQL/Python table agreement + CFG guards",
         "Decides, for SqliteStorage (and MockStorage where applicable): every statement is keyed by id AND tag, placeholders agree with the "
         "parameter lists, result rows are unpacked by column role and read() returns the stored bytes, update-missing raises / delete is "
         "idempotent / read falls through to None, autocommit, all execute and fetch calls under the mutex, interface completeness, cursor data "
         "through the interface, fresh ids from create. Equivalence with a map over all call sequences and SQLite's durability are not decided.", "4 C09"),
 "C08": ("codec key/field agreement + CFG cut queries on the attribute funnel",
         "Decides the persistence mechanism: serialize/deserialize agree key by key and field by field (enums via .value / constructor), every "
         "public field store passes updated() first, updated() marks dirty on every path, private persisted fields are only written by the "
         "funnel, commit writes every dirty entry (four-case table) and only then empties the set, every step ends with a commit on all "
         "normal paths. Does not decide equality of storage and memory after each step of each history.", "4 C08"),
 "C11": ("ownership / dispatch exhaustiveness / read-only effect analysis",
         "Decides ownership of the index containers, exhaustive dispatch of index-relevant keys in updated(), update-before-store order, "
         "routing of side-state moves through the funnel, read-only look-ups (transitive effect analysis) and the guards of the pending-set "
         "arms. Does not decide that _change_path/_change_oid are correct for every overlapping event sequence.", "4 C11"),
 "C18": ("CFG cut queries + lattice normal form",
         "Decides the loop structure: catch-all around do(), backoff accounting and re-arming on every path into do(), the backoff update as a "
         "min/max lattice normal form equal to max(min(MAX,CUR*MULT),MIN), a stop test on every do()->do() path, done() once in finally under "
         "__shutdown, wait() really joins, no restart after final stop, __shutdown published before signalling, stop_all signals all before "
         "joining, FIFO single-delivery notification loop. Timing of stop/wake races beyond that is not decided.", "4 C18"),
 "C07": ("CFG ordering of durable writes + call-graph effect summaries + side-typing of hashes",
         "Decides the ordering mechanism: who may commit / write storage, no commit before the step's provider work and a commit on every "
         "normal path after it, nothing provider-mutating after the in-step commit up to the step frame, cursor only after the exhausted events "
         "loop, equal-hash re-discovery of an existing peer with the SAME provider's hash, tolerant load loop, publish-after-download. "
         "Convergence after a crash at each point is not decided.", "4 C07"),
 "C06": ("CFG cut queries in the event manager and the load loop",
         "Decides: cursor written only after the exhausted events loop; a fresh cursor is never made durable while the owed walk is only in "
         "memory; cursor-error fallback wired to a walk; walk marker only after a complete walk; load loop rebuilds both indexes and the "
         "pending set from the `changed` flag under _loading; labels separate accounts and roots. 'As if it had never stopped' is not decided.", "4 C06"),
 "C10": ("exception-taxonomy table + handler CFG queries",
         "Decides the classification and handler mechanism: notify_from_exception agrees with the exception hierarchy and no arm is shadowed; the "
         "sync step catches everything, reports, punts and backs off on every path; the intake step catches every transient class, reports "
         "unconditionally, backs off, re-authenticates; the service loop swallows the rest; invalid names make the entry irrelevant; the give-up "
         "error becomes FINISHED; a retry never reuses a download keyed to older content. Convergence after the faults stop is not decided.", "4 C10"),
 "C12": ("side-typing (units-of-measure over LOCAL/REMOTE) + guard facts + CFG cut queries",
         "Decides: every path/id/hash given to a provider call, translate, a look-up, update_entry or an entry half belongs to that side, with "
         "synced = other(changed) discharged at every call site; the default translate uses the source side's algebra and falls through to None; "
         "translate results are None-tested before mutating calls; a path that does not translate is discarded or, only if synced before and moved "
         "out of the root, its peer deleted; is_subpath cuts on a component boundary; roots are immutable; revival needs a translating path. "
         "Provider-side filtering and the move-out/peer-edit race are not decided.", "4 C12"),
 "C16": ("sibling agreement of provider implementations + lock-set with _api() + constant relations",
         "Decides for MockProvider and FileSystemProvider: interface coverage, which operation can raise which documented error class, the errno "
         "map, every raising OS call of an API method under `with self._api()`, hash_data built from the same digest producers and finality switch "
         "as the info hash (and the prefix+suffix digest final only when it covered the file), an event after every mock mutation, identity check "
         "on connect, ids changing only for path-style providers, read-only queries, child selection by the path algebra. Equivalence with a "
         "reference tree is not decided.", "4 C16"),
 "C17": ("boolean DNF over linear-inequality normal forms + sort-key and guard checks",
         "Decides the laws that are comparisons and a sort key: the returned entry is the loop variable of an ascending sort of the pending set "
         "under the predicate (changed_s and changed_s <= now - age) or priority < 0, decided as a DNF of linear normal forms; key = (priority, "
         "time); the manager passes its ageing value and syncs the returned entry; punt = +1 and a bounded deferral; strictly increasing change "
         "stamps; related entries reset on finish; priority follows the path; every failing step punts. Whole-run timing and starvation freedom "
         "are not decided.", "4 C17"),
 "C19": ("ownership + CFG ordering of maintenance pairs + read-only effect analysis",
         "Decides who may mutate the id map, child maps and parent links, and the maintenance pairs of the mutating primitives (_delete pops every "
         "id of the detached subtree and clears the parent; __insert_node evicts path and id owners before linking and registers the subtree after; "
         "_set_oid evicts before storing and pairs the store with the map update; type change deletes before re-making; rename = detach, evict, "
         "insert); getters are read-only. Agreement with a dictionary model over all sequences is not decided.", "4 C19"),
 "C20": ("boolean structure of the gate + guard facts + CFG cut queries + lock-set on the entry points",
         "Decides: the pre-sync gate equals super or not (local file exists or requested or remote directory); both step frames skip sync() when it "
         "is truthy; the inclusion/exclusion arms of the on-demand pending filter; un-request pushes local edits first, deletes on LOCAL only, "
         "then clears the local half and moves the entry to the exclude set on every path; is_synced iff local info; a request updates both sets "
         "and syncs parents first; the entry points hold the state lock. The two safety properties over all sequences are not decided.", "4 C20"),
 "C02": ("inventory of destructive calls + guard facts + CFG cut queries",
         "Decides the guards on destruction: the engine's destructive provider calls are exactly five sites, each under its guard (peer delete "
         "needs a peer id; delete-out-of-the-way only for a copy needing no sync; resolver upload only over the loser when not kept; un-request "
         "delete local only); no upload over a trashed/missing/id-less peer; deletes are dropped when the other side has a pending create/rename; "
         "the loser is kept by rename-only to '.conflicted'; corrupt content freezes its side and is never embraced. Which versions survive a "
         "given history is not decided.", "4 C02"),
 "C03": ("CFG must-pass-through queries on book-keeping stores + side-typing",
         "Decides the anti-echo book-keeping: after each of the engine's own writes (upload, create, mkdir, rename) both sides' last-synced markers "
         "and the provider-returned id are recorded on every success path without marking the entry changed; mutating calls of the embrace "
         "subtree go to the side opposite the change; a changed-but-in-sync side is cleared, not embraced. Tree equality at quiescence is not "
         "decided.", "4 C03"),
 "C04": ("call inventory + effect summaries + CFG must-pass-through queries",
         "Decides: no recursive provider delete in the engine; a not-empty folder delete is deferred to a handler that issues no provider "
         "mutation; after the peer delete the side is tombstoned and the entry ignored on every path; a tombstoned id with no information is "
         "confirmed TRASHED; a folder path change re-paths every child; renames go by stored id and the returned id is recorded; delete+create "
         "folding only for path-id providers with all three take-over stores. That the merged tree equals base + both deltas is not decided.", "4 C04"),
 "C05": ("call-site inventory + handler structure + guard facts + side-typing",
         "Decides: one resolver call site outside loops; temporary errors propagate, others and malformed answers fall back to remote-wins/keep; "
         "identical content returns before the resolver and is compared within one side's hash space; conflict handling only on hash_conflict(); "
         "handles use their own side's provider and a temp file keyed to current content; not keep = upload over the loser, keep = rename; every "
         "answer of the resolver - falsy garbage included - passes the shape checks or becomes the remote-wins default on every feasible path; the "
         "handle is rewound before every upload and a length query restores the read position. Final contents are not decided.", "4 C05"),
 "C14": ("MUSTCALL summaries / CFG cut queries on the refresh-before-act discipline",
         "Decides: sync() is reachable in a step only after get_latest(); change stamps strictly increase; id-less events never touch the state; "
         "the no-information arm stores only TRASHED/MISSING, confirms a tombstone for every provider style and never leads to EXISTS; the "
         "freshness marker has four writers; unchanged walk events are the only dedupe (exact comparison); every field of an event is written "
         "through to the event's side only (parameter->field table with exact guards), every field of a refresh answer likewise, the refresh "
         "bypasses the provider cache, its stamp is stored only after it returned, a found object is marked EXISTS on every path, a parent the "
         "provider reports is recorded unconditionally. Equality of outcomes under duplication / reordering is not decided.", "4 C14"),
 "C01": ("response-protocol exhaustiveness + CFG queries",
         "Convergence itself is behavioural and not decided. Decided are book-keeping conditions without which the engine cannot go quiet or make "
         "progress: FINISHED/PUNT are dispatched; every protocol function returns FINISHED/PUNT/REQUEUE on every path; finishing clears flag and "
         "pending set; every event source feeds _process_event whose only drops are the three enumerated ones; REQUEUE is preceded by a priority "
         "change; a side's turn in sync() ends early only when it needs no sync, after finished(), or because the other side is pending; the "
         "ancestor walk climbs; a renamed folder re-bases its children's synced paths; event fields reach the state; change stamps strictly "
         "increase; critical sections and retry temp names as in C15/C10.", "4 C01"),
 "C13": ("guard facts on is_subpath + kernel form of paths_match + side-typing of translate",
         "The value-level path laws (for all strings) are not decided. Decided are the structural slips the property names: component-boundary "
         "test and symmetric case fold in is_subpath, relative part cut from the un-folded target, paths_match as the kernel of one normalisation, "
         "replace_path built from is_subpath and raising otherwise, default translate using the source side's algebra for membership.", "4 C13"),
}

DT_NOTE = (" In addition (rule <id>.DT, DESIGN.md 7.12): for every function this property's mechanisms live in, the set of states in which the function takes each of its "
           "actions, the order of its actions and the values they carry equal the recorded decision table (rules/decisions.json) - a change of WHEN / IN WHICH ORDER / WITH WHAT "
           "the code acts is reported with a witness state; whether the recorded behaviour is right is not decided.")


def main():
    checks = []
    for pid, (tech, text, ref) in CLAIMS.items():
        if not os.path.exists(os.path.join(HERE, "rules", pid + ".py")):
            continue
        checks.append({
            "property_id": pid,
            "quick_cmd": "python3-vt -m sa.check %s --tier quick" % pid,
            "thorough_cmd": "python3-vt -m sa.check %s --tier thorough" % pid,
            "evidence_file": "/verif/evidence/%s.json" % pid,
            "replay_cmd_template": "python3-vt -m sa.replay {path}",
            "engine": "sa",
            "level_claimed": {"category": "other", "text": text + DT_NOTE, "design_ref": "DESIGN.md section " + ref + " and 7.12"},
            "level_note": COMMON_NOTE,
            "technique": "static analysis: " + tech + "; reach-condition decision table (structured path conditions as canonical decision diagrams, action order and value rows) over the functions the property's rules anchor in",
        })
    claimed = {c["property_id"] for c in checks}
    na_reasons = {}
    try:
        na_reasons = json.load(open(os.path.join(HERE, "tools", "not_applicable.json")))
    except Exception:
        pass
    na = []
    for p in props:
        if p["id"] not in claimed:
            na.append({"property_id": p["id"], "reason": na_reasons.get(p["id"], "check not built yet (build in progress); planned as structural necessary conditions, see DESIGN.md section 4")})
    m = {
        "version": 1,
        "setup_cmd": "python3-vt -m sa.selfcheck",
        "hooks": {"guard": "CLOUDSYNC_VERIF", "enable": "none: the checks are static and need no hooks or instrumentation in /repo",
                  "baseline_off_cmd": "cd /repo && /venv/bin/python -m pytest -ra -q -p no:cacheprovider --timeout=900 --continue-on-collection-errors",
                  "source_commits": [], "add_only": True},
        "engines": [{"name": "sa", "path": "/verif/sa", "serves_properties": sorted(claimed),
                     "kind_free_text": "repository-specific static analyser: ast -> program model -> receiver-typed call graph -> per-function CFG / guard facts / lock-set / side-typing / SQL and codec tables / lattice normal form"}],
        "checks": checks,
        "notes": "Static analysis only; every check parses /repo/cloudsync afresh. exit 0 = all rule instances hold (KNOWN-FINDING lines for listed findings), 1 = violation (VIOLATION property=.. replay=..), 2 = analysis error / undecided. Defects repaired by fix: commits in /repo are listed in known_findings.json with status fixed.",
        "not_applicable": na,
    }
    json.dump(m, open(os.path.join(HERE, "MANIFEST.json"), "w"), indent=1)
    print("claimed", sorted(claimed), "not_applicable", [x["property_id"] for x in na])

main()
