"""C20 - on-demand sync: remote files stay remote until requested; un-request keeps the remote copy.

Decided: the pre-sync gate as a boolean formula - finished = super or not (local file exists or requested or remote is a
directory) (S1); both step frames skip sync() when the gate is truthy (S2); the inclusion / exclusion arms of the
on-demand pending-set filter (S3); un-request pushes local edits first, deletes on the LOCAL provider only, then clears the
local half and moves the entry to the exclude set on every path (S4); the merged listing marks an item synced exactly when
local info exists (S5); a request adds to the request set, removes from the exclude set and syncs parents first (S6).
Not decided: the two safety properties over all operation sequences.
"""
from __future__ import annotations

import ast

from sa.model import AnalysisError, FuncInfo
from sa.ctx import Ctx, short, stmt_key, reaching_defs
from sa.cfg import NORMAL, describe_path
from sa.report import Report, section
from sa.sides import SideAnalysis, show, canon
from sa.effects import Effects
from sa.util import cfg_root, node_has_call, node_stores_attr, has_fact, fact_in
from sa import pat


def disjuncts(e):
    if isinstance(e, ast.BoolOp) and isinstance(e.op, ast.Or):
        out = []
        for v in e.values:
            out += disjuncts(v)
        return out
    return [e]


def conjuncts(e):
    if isinstance(e, ast.BoolOp) and isinstance(e.op, ast.And):
        out = []
        for v in e.values:
            out += conjuncts(v)
        return out
    return [e]


class C20:
    def __init__(self, ctx: Ctx, rep: Report):
        self.ctx, self.rep = ctx, rep
        p = ctx.prog
        self.mgr = p.cls("SmartSyncManager")
        self.st = p.cls("SmartSyncState")
        self.cs = p.cls("SmartCloudSync")

    def s1(self):
        rep, ctx = self.rep, self.ctx
        rep.rule("C20.S1", "SmartSyncManager.pre_sync returns super().pre_sync(sync) or not (local file exists or entry in requestset or "
                 "remote side is a directory), where 'local file exists' = local id present and providers[LOCAL].exists_oid(local id)", expect_min=4)
        f = self.mgr.methods["pre_sync"]
        sync = f.params()[1]
        defs = {}
        for n in ctx.own_nodes(f):
            if isinstance(n, ast.Assign) and isinstance(n.targets[0], ast.Name):
                defs.setdefault(n.targets[0].id, []).append(n)
        rets = [n for n in ctx.own_nodes(f) if isinstance(n, ast.Return) and n.value is not None]
        # one result variable, returned at the end or early from a guard clause
        good = bool(rets) and all(isinstance(r.value, ast.Name) for r in rets) and len({r.value.id for r in rets}) == 1
        rv = rets[0].value.id if good else None
        rep.check("C20.S1", "pre_sync|return", f, good, "every return is `return %s`" % rv, "pre_sync no longer has the single-result shape (cannot decide the gate)")
        if not good:
            return
        assigns = defs.get(rv, [])
        base = [a for a in assigns if isinstance(a.value, ast.Name) and any(isinstance(d.value, ast.Call) and pat.match("super().pre_sync(%s)" % sync, d.value) is not None
                                                                          for d in defs.get(a.value.id, []))]
        gate = [a for a in assigns if isinstance(a.value, ast.UnaryOp) and isinstance(a.value.op, ast.Not)]
        other = [a for a in assigns if a not in base and a not in gate]
        rep.check("C20.S1", "pre_sync|super", f, len(base) == 1 and not other, "result starts as super().pre_sync(sync)",
                  "the gate's result is not `super().pre_sync(sync) or ...` (base assignments: %d, other assignments: %s)" % (len(base), [ast.unparse(o) for o in other]))
        if len(gate) != 1:
            rep.violation("C20.S1", "pre_sync|gate", f, "expected exactly one assignment `%s = not (...)`, found %d" % (rv, len(gate)))
            return
        gfacts = ctx.facts_at(f, gate[0])
        rep.check("C20.S1", "pre_sync|gate-only-if-super-false", ctx.line(f, gate[0]), (rv, False) in gfacts, "gate evaluated only when super() was falsy",
                  "the on-demand gate overrides a truthy super().pre_sync() result (facts %s)" % sorted(gfacts))
        ds = disjuncts(gate[0].value.operand)
        got = set()
        for d in ds:
            if isinstance(d, ast.Name) and len(defs.get(d.id, [])) == 1:
                cs = conjuncts(defs[d.id][0].value)
                has_oid = any(pat.match("%s[LOCAL].oid" % sync, c) is not None for c in cs)
                has_ex = any(isinstance(c, ast.Call) and pat.match("self.providers[LOCAL].exists_oid(%s[LOCAL].oid)" % sync, c) is not None for c in cs)
                got.add("local-file-exists" if has_oid and has_ex and len(cs) == 2 else "?%s" % ast.unparse(defs[d.id][0].value))
            elif pat.match("%s in self.state.requestset" % sync, d) is not None:
                got.add("requested")
            elif pat.match("%s[REMOTE].otype == DIRECTORY" % sync, d) is not None:
                got.add("remote-is-directory")
            else:
                got.add("?%s" % ast.unparse(d))
        want = {"local-file-exists", "requested", "remote-is-directory"}
        rep.check("C20.S1", "pre_sync|gate", ctx.line(f, gate[0]), got == want, "not (%s)" % " or ".join(sorted(got)),
                  "the gate is `not (%s)`, expected `not (%s)`: %s" % (" or ".join(sorted(got)), " or ".join(sorted(want)),
                                                                     "an unrequested remote file is downloaded" if got - want else "a requested / local / folder entry is never synced"))

    def s2(self):
        rep, ctx, p = self.rep, self.ctx, self.ctx.prog
        rep.rule("C20.S2", "both step frames call sync() only when pre_sync() returned a falsy value", expect_min=2)
        for spec in ("SyncManager._sync_one_entry", "SmartCloudSync._sync_one_entry"):
            f = p.func(spec)
            calls = [c for c in ctx.calls(f, "sync") if isinstance(c.func, ast.Attribute)]
            if not calls:
                raise AnalysisError("%s no longer calls sync()" % spec)
            for c in calls:
                facts = ctx.facts_at(f, c)
                ok = False
                for (txt, pol) in facts:
                    if pol:
                        continue
                    ds, _ = reaching_defs(ctx, f, c, txt) if txt.isidentifier() else ([], False)
                    if ds and all(isinstance(d, ast.Assign) and isinstance(d.value, ast.Call) and isinstance(d.value.func, ast.Attribute) and d.value.func.attr == "pre_sync" for d in ds):
                        ok = True
                rep.check("C20.S2", short(f.qname), ctx.line(f, c), ok, "sync() only under a falsy pre_sync() result",
                          "sync() is called although pre_sync() finished the entry (facts %s): the on-demand gate is bypassed" % sorted(facts))

    def s3(self):
        rep, ctx = self.rep, self.ctx
        rep.rule("C20.S3", "SmartSyncState._changeset: excluded-and-locally-unchanged entries are skipped; an entry is included exactly when it "
                 "is requested, is a remote directory, has a stale refresh, or (no local id) an auto-sync predicate accepts its remote path; "
                 "the result is intersected with the stored pending set", expect_min=6)
        f = self.st.getters["_changeset"]
        snap = {n.targets[0].id for n in ctx.own_nodes(f) if isinstance(n, ast.Assign) and isinstance(n.targets[0], ast.Name)
                and any(isinstance(x, ast.Attribute) and x.attr == "_changeset_storage" for x in ast.walk(n.value))}
        loops = [lp for lp in ctx.own_nodes(f) if isinstance(lp, ast.For) and any((isinstance(x, ast.Attribute) and x.attr == "_changeset_storage") or
                                                                                   (isinstance(x, ast.Name) and x.id in snap) for x in ast.walk(lp.iter))]
        if not loops:
            raise AnalysisError("SmartSyncState._changeset: loop over the stored pending set not found")
        ent = loops[0].target.id
        conts = [n for n in ast.walk(loops[0]) if isinstance(n, ast.Continue)]
        good = len(conts) == 1 and ("%s in self.excludeset" % ent, True) in ctx.facts_at(f, conts[0]) and ("%s[LOCAL].changed" % ent, False) in ctx.facts_at(f, conts[0])
        rep.check("C20.S3", "_changeset|exclude", f, good, "skip when excluded and not changed locally",
                  "the exclusion arm is no longer `in excludeset and not local change` (un-requested files come back, or local edits of excluded files are dropped)")
        incl = [n for n in ast.walk(loops[0]) if isinstance(n, ast.Assign) and isinstance(n.targets[0], ast.Name) and isinstance(n.value, ast.Constant) and n.value.value is True]
        var = incl[0].targets[0].id if incl else None
        arms = set()
        for a in incl:
            facts = ctx.facts_at(f, a)
            if fact_in(facts, "%s in self.requestset" % ent, True):
                arms.add("requested")
            elif fact_in(facts, "%s[REMOTE].otype == DIRECTORY" % ent, True):
                arms.add("directory")
            elif fact_in(facts, "%s.is_latest()" % ent, False) and any(pol and "changed" in txt and " or " in txt for (txt, pol) in facts):
                arms.add("stale")
            elif fact_in(facts, "%s[LOCAL].oid" % ent, False) and any(pol and "callback(" in txt for (txt, pol) in facts) or \
                    (fact_in(facts, "%s[LOCAL].oid" % ent, False) and any(pol and "callback(" in txt.replace(" ", "") or (pol and "callback" in txt) for (txt, pol) in facts)):
                arms.add("auto-sync")
            else:
                arms.add("?" + str(sorted(facts)))
        want = {"requested", "directory", "stale", "auto-sync"}
        rep.check("C20.S3", "_changeset|include-arms", f, arms == want, "arms %s" % sorted(arms),
                  "inclusion arms are %s, expected %s" % (sorted(arms), sorted(want)))
        adds = [n for n in ast.walk(loops[0]) if isinstance(n, ast.Call) and pat.match("$C.add(%s)" % ent, n) is not None and pat.match("self.requestset.add(%s)" % ent, n) is None]
        good = bool(adds) and var is not None and all((var, True) in ctx.facts_at(f, a) for a in adds)
        rep.check("C20.S3", "_changeset|add-only-included", f, good, "an entry is offered to the sync loop only when included",
                  "entries are offered to the sync loop regardless of the inclusion decision")
        # the auto-sync arm requests the entry
        req = [n for n in ast.walk(loops[0]) if isinstance(n, ast.Call) and pat.match("self._smart_sync_ent(%s)" % ent, n) is not None]
        rep.check("C20.S3", "_changeset|auto-sync-requests", f, bool(req) and all(("%s[LOCAL].oid" % ent, False) in ctx.facts_at(f, r) for r in req),
                  "auto-sync requests the entry (only when not present locally)", "the auto-sync arm no longer requests the entry through _smart_sync_ent")
        rets = [n for n in ctx.own_nodes(f) if isinstance(n, ast.Return) and n.value is not None]
        good = bool(rets) and all(isinstance(r.value, ast.Call) and pat.match("$C.intersection(self._changeset_storage)", r.value) is not None for r in rets)
        rep.check("C20.S3", "_changeset|intersection", f, good, "result = filtered ∩ stored pending set", "the filtered set is no longer intersected with the stored pending set")
        lock = [w for w in ctx.own_nodes(f) if isinstance(w, ast.With) and any(pat.match("self.lock", it.context_expr) is not None for it in w.items)]
        rep.check("C20.S3", "_changeset|lock", f, bool(lock), "runs under the state lock", "the side-effecting getter no longer takes the state lock", nontrivial=False)

    def s4(self):
        rep, ctx = self.rep, self.ctx
        rep.rule("C20.S4", "un-request: the only provider deletion in smartsync.py is on providers[LOCAL]; the public un-request entry points push "
                 "local edits (refresh + conditional sync) before the local delete; after it the local half is cleared, the remote sync markers "
                 "reset and the entry moved from the request set to the exclude set on every path", expect_min=6)
        sa_ = SideAnalysis(ctx)
        eff = Effects(ctx)
        mod = self.cs.module
        dels = []
        for f in ctx.prog.functions.values():
            if f.module is not mod:
                continue
            for c in eff.provider_mutations(f):
                if c.func.attr in ("delete", "rmtree"):
                    dels.append((f, c))
                elif c.func.attr not in ("rename",):
                    rep.note("C20.S4", "other-mutation|" + stmt_key(f, c), ctx.line(f, c), "provider mutation `%s` in smartsync.py" % ast.unparse(c)[:60])
        if not dels:
            raise AnalysisError("no provider delete in smartsync.py (un-request mechanism vanished)")
        for f, c in dels:
            ps = sa_.provider_side(f, c.func.value)
            rep.check("C20.S4", "delete|" + stmt_key(f, c), ctx.line(f, c), ps is not None and canon(ps) == ("#0", False), "delete on providers[LOCAL]",
                      "un-request deletes on provider side %s: the remote copy is removed" % show(ps), func=f.qname)
        g_ = self.st.methods["_smart_unsync_ent"]
        ent = g_.params()[1]
        g = ctx.cfg(g_)
        for what, pred in (("requestset.discard", lambda n: node_has_call(n, "self.requestset.discard(%s)" % ent)),
                           ("excludeset.add", lambda n: node_has_call(n, "self.excludeset.add(%s)" % ent))):
            pth = g.reach([g.entry.id], lambda n: n is g.exit, avoid=pred, follow=NORMAL)
            rep.check("C20.S4", "_smart_unsync_ent|%s" % what, g_, pth is None, "%s on every path" % what,
                      "an un-requested entry can stay in the request set / miss the exclude set: it is downloaded again", witness=describe_path(pth) if pth else None)
        dn = [n for n in g.nodes if node_has_call(n, "self.providers[LOCAL].delete($X)")]
        for what, pred in (("clear local half", lambda n: node_has_call(n, "%s[LOCAL].clear()" % ent)),
                           ("reset remote sync_path", lambda n: cfg_root(n) is not None and isinstance(cfg_root(n), ast.Assign) and pat.match("%s[REMOTE].sync_path = None" % ent, cfg_root(n)) is not None),
                           ("reset remote sync_hash", lambda n: cfg_root(n) is not None and isinstance(cfg_root(n), ast.Assign) and pat.match("%s[REMOTE].sync_hash = None" % ent, cfg_root(n)) is not None)):
            pth = g.reach([d.id for d in dn], lambda n: n is g.exit, avoid=pred, follow=NORMAL)
            rep.check("C20.S4", "_smart_unsync_ent|%s" % what, g_, bool(dn) and pth is None, "%s after the local delete" % what,
                      "after the local delete the entry still looks synced locally (%s missing): the echo of the delete is propagated to the remote" % what,
                      witness=describe_path(pth) if pth else None)
        # push-before-delete in the public entry points
        for name, deleter in (("smart_unsync_oid", "smart_unsync_oid"), ("smart_unsync_path", "smart_unsync_ent")):
            f = self.cs.methods[name]
            gg = ctx.cfg(f)
            push = lambda n: node_has_call(n, "self._smart_unsync_ent($E)")   # noqa: E731
            dele = lambda n, deleter=deleter: node_has_call(n, "self.state.%s($$$)" % deleter)   # noqa: E731
            if not [n for n in gg.nodes if dele(n)]:
                raise AnalysisError("%s no longer calls state.%s" % (name, deleter))
            pth = gg.reach([gg.entry.id], dele, avoid=push, follow=NORMAL)
            if pth is not None and self._deleted_were_pushed(f, deleter):
                pth = None      # every element handed to the deleter was produced by the push call (collection provenance)
            rep.check("C20.S4", "%s|push-first" % name, f, pth is None, "local edits are pushed before the local copy is deleted",
                      "%s deletes the local copy without first pushing newer local edits" % name, witness=describe_path(pth) if pth else None)
        pu = self.cs.methods["_smart_unsync_ent"]
        ent = pu.params()[1]
        calls = [c for c in ctx.calls(pu, "_sync_one_entry")]
        good = bool(calls) and any(isinstance(n, ast.Call) and pat.match("self.state.unconditionally_get_latest(%s, LOCAL)" % ent, n) is not None for n in ctx.own_nodes(pu))
        for c in calls:
            facts = ctx.facts_at(pu, c)
            good = good and any(pol and "hash" in txt and "sync_hash" in txt for (txt, pol) in facts)
        rep.check("C20.S4", "_smart_unsync_ent|push", pu, good, "refresh local side, sync when hash or path differ", "the push of local edits before un-request lost its refresh / its condition")

    def _deleted_were_pushed(self, f: FuncInfo, deleter: str) -> bool:
        """`for x in C: state.<deleter>(x)` where C only ever receives values returned by self._smart_unsync_ent(...)."""
        ctx = self.ctx
        for lp in ctx.own_nodes(f):
            if not (isinstance(lp, ast.For) and isinstance(lp.target, ast.Name) and isinstance(lp.iter, ast.Name)):
                continue
            calls = [x for x in ast.walk(lp) if isinstance(x, ast.Call) and pat.match("self.state.%s(%s)" % (deleter, lp.target.id), x) is not None]
            if not calls:
                continue
            coll = lp.iter.id
            adds = [n for n in ctx.own_nodes(f) if isinstance(n, ast.Call) and pat.match("%s.add($X)" % coll, n) is not None]
            inits = [n for n in ctx.own_nodes(f) if isinstance(n, ast.Assign) and isinstance(n.targets[0], ast.Name) and n.targets[0].id == coll]

            def comp_of_pushes(v):
                # {x for x in map(self._smart_unsync_ent, C) if ...}   or   {self._smart_unsync_ent(e) for e in C}
                if not isinstance(v, (ast.SetComp, ast.ListComp)) or len(v.generators) != 1:
                    return False
                gen = v.generators[0]
                if isinstance(v.elt, ast.Name) and isinstance(gen.target, ast.Name) and v.elt.id == gen.target.id:
                    return pat.match("map(self._smart_unsync_ent, $C)", gen.iter) is not None
                return pat.match("self._smart_unsync_ent($E)", v.elt) is not None
            if not adds and inits and all(comp_of_pushes(i.value) for i in inits):
                return True
            if not adds or not all(isinstance(i.value, ast.Call) and pat.match("set()", i.value) is not None for i in inits):
                return False
            for a in adds:
                x = a.args[0]
                if not isinstance(x, ast.Name):
                    return False
                ds, from_entry = reaching_defs(ctx, f, a, x.id)
                if from_entry or not ds or not all(isinstance(d, ast.Assign) and isinstance(d.value, ast.Call) and pat.match("self._smart_unsync_ent($E)", d.value) is not None for d in ds):
                    return False
            return True
        return False

    def s5_s6(self):
        rep, ctx = self.rep, self.ctx
        rep.rule("C20.S5", "merged listing: is_synced is True exactly on the arm that has local info", expect_min=2)
        f = self.cs.methods["_get_smartinfo"]
        flag = None
        for n_ in ctx.own_nodes(f):
            if isinstance(n_, ast.Call) and isinstance(n_.func, ast.Name) and n_.func.id == "SmartInfo":
                for k in n_.keywords:
                    if k.arg == "is_synced" and isinstance(k.value, ast.Name):
                        flag = k.value.id
        sets = [n for n in ctx.own_nodes(f) if isinstance(n, ast.Assign) and isinstance(n.targets[0], ast.Name) and n.targets[0].id == flag and isinstance(n.value, ast.Constant)]
        if len(sets) < 2:
            raise AnalysisError("_get_smartinfo: is_synced assignments not found")
        li = f.params()[2]
        for s in sets:
            facts = ctx.facts_at(f, s)
            want = (li, bool(s.value.value))
            rep.check("C20.S5", "_get_smartinfo|is_synced=%s" % s.value.value, ctx.line(f, s), want in facts, "under %s%s" % ("" if want[1] else "not ", li),
                      "is_synced = %s is not tied to the presence of local info (facts %s)" % (s.value.value, sorted(facts)))
        rep.rule("C20.S6", "request: SmartSyncState._smart_sync_ent adds the entry to the request set and removes it from the exclude set on every "
                 "path past the empty-entry guard; SmartCloudSync._smart_sync_ent syncs parent conflicts before marking the entry changed and syncing it", expect_min=3)
        g_ = self.st.methods["_smart_sync_ent"]
        ent = g_.params()[1]
        g = ctx.cfg(g_)
        guard = [n for n in g.nodes if n.kind == "test" and pat.match("not %s" % ent, n.ast) is not None]
        starts = [b for t in guard for (b, l) in g.succ[t.id] if l == "F"] or [g.entry.id]
        for what, pred in (("requestset.add", lambda n: node_has_call(n, "self.requestset.add(%s)" % ent)), ("excludeset.discard", lambda n: node_has_call(n, "self.excludeset.discard(%s)" % ent))):
            pth = g.reach(starts, lambda n: n is g.exit, avoid=pred, follow=NORMAL, include_src=True)
            rep.check("C20.S6", "state._smart_sync_ent|%s" % what, g_, pth is None, "%s on every path" % what, "a requested entry can miss %s" % what, witness=describe_path(pth) if pth else None)
        h = self.cs.methods["_smart_sync_ent"]
        gh = ctx.cfg(h)
        ent = h.params()[1]
        loop = [n for n in gh.nodes if n.kind == "iter" and node_has_call(n, "self.smgr.get_parent_conflicts(%s, REMOTE)" % ent)]
        mark = [n for n in gh.nodes if node_has_call(n, "%s[REMOTE].mark_changed()" % ent)]
        own = [n for n in gh.nodes if node_has_call(n, "self._sync_one_entry(%s)" % ent)]
        ok = bool(loop) and bool(mark) and bool(own)
        if ok:
            lid = loop[0].id
            p1 = gh.reach([gh.entry.id], lambda n: n in mark, follow=lambda a, b, l: l != "exc" and not (a == lid and l == "F"))
            p2 = gh.reach([gh.entry.id], lambda n: n in own, avoid=lambda n: n in mark, follow=NORMAL)
            ok = p1 is None and p2 is None
        rep.check("C20.S6", "cs._smart_sync_ent|order", h, ok, "parents first, then mark_changed, then the entry's own sync",
                  "the request no longer syncs parent folders before marking and syncing the requested entry")


    def s7(self):
        """The on-demand entry points are application-thread roots: their state mutations happen under the state lock (C15.R1 restricted to them)."""
        rep, ctx = self.rep, self.ctx
        rep.rule("C20.S7", "request / un-request / delete entry points of SmartCloudSync mutate sync state only while holding the state lock, so the "
                 "local delete of an un-request and its book-keeping are atomic with respect to event intake and sync steps (C15.R1 on these roots)", expect_min=5)
        from rules.C15 import C15
        c15 = C15(ctx, rep)
        for name in ("smart_sync_oid", "smart_sync_path", "smart_unsync_oid", "smart_unsync_path", "smart_delete_path"):
            f = self.cs.methods.get(name)
            if f is None:
                raise AnalysisError("SmartCloudSync.%s vanished" % name)
            viol, nstates, nsites = c15.ls.unlocked_from(f)
            rep.check("C20.S7", name, f, not viol, "%d mutation sites reached, all under the lock" % nsites,
                      "%s reaches %d mutation(s) of sync state without the state lock (first: %s): an event or sync step can interleave between the local "
                      "delete and its book-keeping" % (name, len(viol), viol[0][2] if viol else ""), witness=viol[0][3] if viol else None)


    def s8_s9(self):
        rep, ctx, p = self.rep, self.ctx, self.ctx.prog
        rep.rule("C20.S8", "merged listing: _get_smartinfo returns None (hide the name) only when there is no local info - a file that exists locally is always reported", expect_min=2)
        f = self.cs.methods["_get_smartinfo"]
        li = f.params()[2]
        g = ctx.cfg(f)
        rets = [n for n in g.nodes if n.kind == "stmt" and isinstance(n.ast, ast.Return) and (n.ast.value is None or (isinstance(n.ast.value, ast.Constant) and n.ast.value.value is None))]
        if not rets:
            raise AnalysisError("_get_smartinfo: no `return None` found")
        for r in rets:
            rep.check("C20.S8", "_get_smartinfo|" + stmt_key(f, r.ast) + "@%d" % rets.index(r), ctx.line(f, r.ast), fact_in(ctx.facts(f).facts(r), li, False), "hidden only without local info",
                      "_get_smartinfo can return None although local info is present: an existing local file disappears from smart_listdir / smart_info while its remote side is trashed or being renamed")
        rep.rule("C20.S9", "un-request aborts when the push fails: a provider error inside SmartCloudSync._sync_one_entry propagates to the caller (every handler path "
                 "re-raises) - or the caller tests the result before it deletes the local copy", expect_min=1)
        so = p.func("SmartCloudSync._sync_one_entry")
        gs = ctx.cfg(so)
        hs = [h for t in ctx.own_nodes(so) if isinstance(t, ast.Try) for h in t.handlers]
        if not hs:
            raise AnalysisError("SmartCloudSync._sync_one_entry has no exception handler any more")
        swallowed = None
        for h in hs:
            starts = [x.id for x in gs.nodes if x.kind == "stmt" and h.body and x.ast is h.body[0]]
            if not starts:
                continue
            pth = gs.reach(starts, lambda n: n is gs.exit, follow=NORMAL, include_src=True)
            if pth is not None:
                swallowed = (h, pth)
        used = False
        un = p.func("SmartCloudSync._smart_unsync_ent")
        for c_ in ctx.calls(un, "_sync_one_entry"):
            par = [n for n in ctx.own_nodes(un) if isinstance(n, (ast.If, ast.Assign)) and any(x is c_ for x in ast.walk(n))]
            used = used or any(isinstance(n, ast.If) and any(x is c_ for x in ast.walk(n.test)) for n in par)
        rep.check("C20.S9", "SmartCloudSync._sync_one_entry|failure-propagates", so, swallowed is None or used, "a failed push raises out of the step",
                  "a provider error during the push of an un-request is swallowed (handler returns normally) and the caller ignores the result: the local copy "
                  "holding the only copy of the edit is deleted afterwards", witness=describe_path(swallowed[1]) if swallowed else None)


def run(ctx: Ctx, rep: Report, tier: str):
    c = C20(ctx, rep)
    section(rep, c.s1)
    section(rep, c.s2)
    section(rep, c.s3)
    section(rep, c.s4)
    section(rep, c.s5_s6)
    section(rep, c.s7)
    section(rep, c.s8_s9)
    from rules.common import remote_listing_independent_of_local
    rep.rule("C20.S10", "the merged listing reports cloud-only files even when the local folder is gone: the remote half of smart_listdir_path does not depend on the local "
             "listing succeeding", 1)
    section(rep, lambda: remote_listing_independent_of_local(ctx, rep, "C20.S10"))
    from rules.decisions import decision_table, table_sites
    rep.rule("C20.DT", "decision table (rules/decisions.json) of the on-demand layer (smart sync manager, state, cloud sync entry points): for every function and every action shape (an impure call with the parameters it passes, a store to an "
             "attribute or item, a delete, a returned constant, a yield, a raise) the set of states - over the function's guard atoms - in which the action is taken "
             "equals the recorded one; compared as canonical decision diagrams, so any equivalent respelling of the guards is the same table", table_sites("C20"))
    section(rep, lambda: decision_table(ctx, rep, "C20.DT", "C20"))
