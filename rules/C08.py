"""C08 - persisted sync state equals in-memory state and round-trips.

Decided, on the mechanism: the codec pair agrees key by key and field by field (R1); every write of a public entry
field passes the `updated` funnel before the store (R2); `updated` marks the entry dirty on every path (R3); private
persisted fields are only written by the funnel's own functions (R4); commit writes every dirty entry with the
four-case table (R5); every intake step and every sync step ends with a commit on every normal path (R6).
Not decided: msgpack's behaviour on value shapes; equality after each step of each history.
"""
from __future__ import annotations

import ast

from sa.model import AnalysisError, FuncInfo
from sa.ctx import Ctx, short, stmt_key
from sa.cfg import NORMAL, describe_path
from sa.report import Report, section
from sa.statemodel import StateModel, _has_inst
from sa import pat

REQUIRED_SIDE_KEYS = {"path", "oid", "hash", "sync_hash", "sync_path", "exists", "changed", "otype", "_saved_exists"}
REQUIRED_ENTRY_KEYS = {"side0", "side1", "ignored"}
LEGACY_READ_ONLY = {"discarded", "conflicted"}


def _calls_method(node: ast.AST, names) -> bool:
    for x in ast.walk(node):
        if isinstance(x, ast.Call) and isinstance(x.func, ast.Attribute) and x.func.attr in names:
            return True
    return False


from sa.util import cfg_root   # noqa: E402  (re-exported for the other rule modules)


class C08:
    def __init__(self, ctx: Ctx, rep: Report):
        self.ctx, self.rep = ctx, rep
        self.sm = StateModel(ctx)
        p = ctx.prog
        self.side = p.cls("SideState")
        self.entry = p.cls("SyncEntry")
        self.state = p.cls("SyncState")

    # ------------------------------------------------------------------ R1 codec
    def _written_keys(self, f: FuncInfo):
        """dict-literal / subscript stores  ret['k'] = value  in a serialize function -> {k: value expr}."""
        out = {}
        for n in self.ctx.own_nodes(f):
            if isinstance(n, ast.Assign) and len(n.targets) == 1 and isinstance(n.targets[0], ast.Subscript):
                k = n.targets[0].slice
                if isinstance(k, ast.Constant) and isinstance(k.value, str) and isinstance(n.targets[0].value, ast.Name):
                    out[k.value] = n.value
            elif isinstance(n, ast.Dict):
                for k, v in zip(n.keys, n.values):
                    if isinstance(k, ast.Constant) and isinstance(k.value, str):
                        out[k.value] = v
        return out

    def _read_keys(self, f: FuncInfo, src: str):
        """{k: [expr nodes reading key k from mapping variable `src`]}"""
        out = {}
        for n in self.ctx.own_nodes(f):
            k = None
            if isinstance(n, ast.Subscript) and isinstance(n.ctx, ast.Load) and isinstance(n.value, ast.Name) and n.value.id == src:
                if isinstance(n.slice, ast.Constant) and isinstance(n.slice.value, str):
                    k = n.slice.value
            elif isinstance(n, ast.Call) and isinstance(n.func, ast.Attribute) and n.func.attr == "get" and isinstance(n.func.value, ast.Name) \
                    and n.func.value.id == src and n.args and isinstance(n.args[0], ast.Constant):
                k = n.args[0].value
            if k is not None:
                out.setdefault(k, []).append(n)
        return out

    def _field_of_value(self, f: FuncInfo, v: ast.AST):
        """Entry field names an expression reads from `self` (e.g. self.hash, self.exists.value, self._saved_exists)."""
        out = set()
        sn = f.self_name
        for x in ast.walk(v):
            if isinstance(x, ast.Attribute) and isinstance(x.value, ast.Name) and x.value.id == sn:
                out.add(x.attr.lstrip("_") if not x.attr.startswith("__") else x.attr)
        return out

    def _stores_fed_by(self, f: FuncInfo, reads):
        """Field names of `self` assigned from an expression containing one of the read nodes (one local hop allowed)."""
        ctx = self.ctx
        sn = f.self_name
        read_ids = {id(r) for r in reads}
        fields = set()
        locals_ = set()
        for n in ctx.own_nodes(f):
            if isinstance(n, ast.Assign) and any(id(x) in read_ids for x in ast.walk(n.value)):
                for t in n.targets:
                    if isinstance(t, ast.Name):
                        locals_.add(t.id)
        for n in ctx.own_nodes(f):
            if isinstance(n, ast.Assign):
                fed = any(id(x) in read_ids for x in ast.walk(n.value)) or \
                    any(isinstance(x, ast.Name) and x.id in locals_ for x in ast.walk(n.value))
                if fed:
                    for t in n.targets:
                        if isinstance(t, ast.Attribute) and isinstance(t.value, ast.Name) and t.value.id == sn:
                            fields.add(t.attr.lstrip("_"))
        return fields

    def r1(self):
        rep, ctx = self.rep, self.ctx
        rep.rule("C08.R1", "codec agreement: keys written by serialize = keys read by deserialize (legacy keys read-only), every "
                 "required key is written from its own field and read back into that same field, enum fields are written as .value "
                 "and rebuilt through the enum / the translating setter", expect_min=14)
        for cls, required, legacy in ((self.side, REQUIRED_SIDE_KEYS, set()), (self.entry, REQUIRED_ENTRY_KEYS, LEGACY_READ_ONLY)):
            ser, de = cls.methods.get("serialize"), cls.methods.get("deserialize")
            if not ser or not de:
                raise AnalysisError("%s.serialize/deserialize vanished" % cls.name)
            W = self._written_keys(ser)
            # mapping variable read by deserialize: its parameter, or (SyncEntry) the dict decoded from it
            srcs = [de.params()[1]] if len(de.params()) > 1 else []
            for n in ctx.own_nodes(de):
                if isinstance(n, (ast.Assign, ast.AnnAssign)) and isinstance(getattr(n, "value", None), ast.Call) and \
                        pat.match("msgpack.loads($$$)", n.value) is not None:
                    t = n.targets[0] if isinstance(n, ast.Assign) else n.target
                    if isinstance(t, ast.Name):
                        srcs.append(t.id)
            R = {}
            for s in srcs:
                for k, v in self._read_keys(de, s).items():
                    R.setdefault(k, []).extend(v)
            key = cls.name
            only_w = set(W) - set(R)
            only_r = set(R) - set(W) - legacy
            rep.check("C08.R1", key + "|keyset", ser, not only_w and not only_r,
                      "%d keys written, %d read (%d legacy read-only)" % (len(W), len(R), len(set(R) & legacy)),
                      "serialize/deserialize disagree: written but never read %s; read but never written %s" % (sorted(only_w), sorted(only_r)))
            miss = required - set(W)
            rep.check("C08.R1", key + "|required", ser, not miss, "required keys %s all persisted" % sorted(required),
                      "field(s) %s named by the property are not persisted" % sorted(miss))
            if cls is self.side:
                for k in sorted(required & set(W) & set(R)):
                    fld = k.lstrip("_")
                    wf = self._field_of_value(ser, W[k])
                    rf = self._stores_fed_by(de, R[k])
                    rep.check("C08.R1", "%s|key:%s" % (key, k), ctx.line(ser, W[k]), wf == {fld} and fld in rf,
                              "written from self.%s, read back into self.%s" % (fld, fld),
                              "key '%s' is written from field(s) %s and read back into field(s) %s (expected %s both ways)" % (k, sorted(wf), sorted(rf), fld))
                # enum fields
                for k, v in W.items():
                    if isinstance(v, ast.Attribute) and v.attr == "value" or (isinstance(v, ast.IfExp) and any(isinstance(x, ast.Attribute) and x.attr == "value" for x in ast.walk(v))):
                        fld = k.lstrip("_")
                        good = False
                        for n in ctx.own_nodes(de):
                            if isinstance(n, ast.Assign) and any(id(x) in {id(r) for r in R.get(k, [])} for x in ast.walk(n.value)) or \
                                    (isinstance(n, ast.Assign) and k == "_saved_exists" and any(isinstance(t, ast.Attribute) and t.attr == "_saved_exists" for t in n.targets)):
                                for t in n.targets:
                                    if isinstance(t, ast.Attribute) and t.attr == fld:
                                        good = True          # public setter: translation happens in __setattr__/_set_exists
                                    if isinstance(t, ast.Attribute) and t.attr.lstrip("_") == fld and any(
                                            isinstance(x, ast.Call) and isinstance(x.func, ast.Name) and x.func.id[:1].isupper() for x in ast.walk(n.value)):
                                        good = True          # rebuilt through the enum constructor
                        rep.check("C08.R1", "%s|enum:%s" % (key, k), ctx.line(ser, v), good, "written as .value, rebuilt as an enum member",
                                  "enum field '%s' is written as .value but read back raw into a private field" % k)
            else:
                # SyncEntry: side0/side1 delegate to the SideState codec of the matching index; ignored round-trips via IgnoreReason
                for k, idx in (("side0", 0), ("side1", 1)):
                    w = W.get(k)
                    wok = w is not None and pat.match("self.__states[%d].serialize()" % idx, w) is not None
                    rok = any(pat.match("self.__states[%d].deserialize($X)" % idx, n) is not None and any(x is r for r in R.get(k, []) for x in ast.walk(n))
                              for n in ctx.own_nodes(de) if isinstance(n, ast.Call))
                    rep.check("C08.R1", "%s|key:%s" % (key, k), ser, wok and rok, "side %d <-> '%s'" % (idx, k),
                              "key '%s' is not written from / read into side %d (cross-wired sides)" % (k, idx))
                w = W.get("ignored")
                wok = w is not None and self._field_of_value(ser, w) == {"ignored"}
                rok = any(isinstance(n, ast.Call) and isinstance(n.func, ast.Name) and n.func.id == "IgnoreReason" for n in ctx.own_nodes(de)) and \
                    any(isinstance(n, ast.Attribute) and isinstance(n.ctx, ast.Store) and n.attr in ("_ignored", "ignored") for n in ctx.own_nodes(de))
                rep.check("C08.R1", key + "|key:ignored", ser, wok and rok, "ignore reason written as .value, rebuilt through IgnoreReason",
                          "the ignore reason does not round-trip through IgnoreReason")
        # _translate_exists keeps the legacy arms
        te = self.side.methods.get("_translate_exists")
        if te is None:
            raise AnalysisError("SideState._translate_exists vanished")
        facts_needed = {"True": "EXISTS", "False": "TRASHED", "None": "UNKNOWN"}
        got = {}
        for n in ctx.own_nodes(te):
            if isinstance(n, ast.Assign) and isinstance(n.value, ast.Name):
                facts = ctx.facts_at(te, n)
                for (txt, pol) in facts:
                    m = pat.match("$V is $C", ast.parse(txt, mode="eval").body)
                    if m and pol and isinstance(m["C"], ast.Constant):
                        got[repr(m["C"].value)] = n.value.id
        rep.check("C08.R1", "SideState._translate_exists|legacy", te, got == facts_needed, "True/False/None -> %s" % got,
                  "legacy boolean rows are mapped %s, expected %s" % (got, facts_needed))

    # ------------------------------------------------------------------ R2 funnel / C11.X3 order
    def funnel(self, rule_id: str):
        """Every path of the two __setattr__ that performs a store for a public name passes `updated` first."""
        rep, ctx = self.rep, self.ctx
        for cls in (self.side, self.entry):
            f = cls.methods.get("__setattr__")
            if f is None:
                raise AnalysisError("%s.__setattr__ vanished" % cls.name)
            kname = f.params()[1]
            g = ctx.cfg(f)
            # the private-name escape hatch: test `k[0] == '_'`
            priv = [n for n in g.nodes if n.kind == "test" and pat.match("%s[0] == '_'" % kname, n.ast) is not None]
            if len(priv) != 1:
                raise AnalysisError("%s.__setattr__: private-name test `%s[0] == '_'` not found" % (cls.name, kname))
            starts = [b for (b, lab) in g.succ[priv[0].id] if lab == "F"]

            def is_store(n):
                r = cfg_root(n)
                if r is None:
                    return False
                for x in ast.walk(r):
                    if isinstance(x, ast.Call) and pat.match("object.__setattr__($$$)", x) is not None:
                        return True
                    if isinstance(x, ast.Attribute) and isinstance(x.ctx, ast.Store) and isinstance(x.value, ast.Name) and x.value.id == f.self_name:
                        return True
                    if isinstance(x, ast.Call) and isinstance(x.func, ast.Attribute) and x.func.attr in ("_set_exists", "_set_mtime", "uncorrupt") \
                            and isinstance(x.func.value, ast.Name) and x.func.value.id == f.self_name:
                        return True
                return False

            def is_updated(n):
                r = cfg_root(n)
                return r is not None and any(isinstance(x, ast.Call) and isinstance(x.func, ast.Attribute) and x.func.attr == "updated" for x in ast.walk(r))

            stores = [n for n in g.nodes if is_store(n) and not is_updated(n)]
            if not stores:
                raise AnalysisError("%s.__setattr__: no field store found" % cls.name)
            reach_from = set(g.reachable(starts, follow=NORMAL)) | set(starts)
            for st in stores:
                if st.id not in reach_from:
                    continue        # the private-name arm
                p = g.reach(starts, lambda n: n is st, avoid=is_updated, follow=NORMAL, include_src=True)
                rep.check(rule_id, "%s.__setattr__|%s" % (cls.name, ast.unparse(st.ast).split("\n")[0][:60]), ctx.line(f, st.ast), p is None,
                          "store is preceded by updated() on every path",
                          "field store reachable without passing %s.updated(): the entry is not marked dirty / indexes see the new value as old" % cls.name,
                          witness=describe_path(p) if p else None, func=f.qname)

    def r2(self):
        self.rep.rule("C08.R2", "in SideState.__setattr__ and SyncEntry.__setattr__ every path that stores a public field first "
                      "passes ...updated(side, k, v)", expect_min=4)
        self.funnel("C08.R2")

    # ------------------------------------------------------------------ R3
    def r3(self):
        rep, ctx = self.rep, self.ctx
        rep.rule("C08.R3", "every normal path through SyncState.updated is either the _loading early return or passes "
                 "_dirtyset.add(ent)", expect_min=1)
        f = self.state.methods["updated"]
        ent = f.params()[1]
        g = ctx.cfg(f)

        def is_dirty(n):
            r = cfg_root(n)
            return r is not None and any(isinstance(x, ast.Call) and pat.match("self._dirtyset.add(%s)" % ent, x) is not None for x in ast.walk(r))

        loading = [n for n in g.nodes if n.kind == "test" and pat.match("self._loading", n.ast) is not None]
        if not any(is_dirty(n) for n in g.nodes):
            raise AnalysisError("SyncState.updated no longer contains self._dirtyset.add(%s)" % ent)
        lid = {n.id for n in loading}
        follow = lambda a, b, l: l != "exc" and not (a in lid and l == "T")   # noqa: E731
        p = g.reach([g.entry.id], lambda n: n is g.exit, avoid=is_dirty, follow=follow)
        rep.check("C08.R3", "SyncState.updated", f, p is None, "all %d normal exits pass the dirty mark" % len(g.pred[g.exit.id]),
                  "a path through updated() returns without marking the entry dirty: its row goes stale",
                  witness=describe_path(p) if p else None)

    # ------------------------------------------------------------------ R4
    def r4(self):
        rep, ctx = self.rep, self.ctx
        rep.rule("C08.R4", "private persisted fields of SideState/SyncEntry are stored only inside sync/state.py, and there only by "
                 "the funnel itself (constructors, __setattr__ family, deserialize, __setitem__) or by SyncState.updated and its private helpers",
                 expect_min=8)
        ser = self._written_keys(self.side.methods["serialize"])
        persisted = {"_" + k.lstrip("_") for k in ser} | {"_ignored", "_saved_exists"}
        funnel_names = {"__init__", "__setattr__", "_set_exists", "_set_mtime", "deserialize", "__setitem__", "uncorrupt"}
        upd = self.state.methods["updated"]
        # ownership closure: private helpers all of whose callers are in the closure
        closure = {upd.qname}
        changed = True
        while changed:
            changed = False
            for m in self.state.methods.values():
                if m.qname in closure or not m.name.startswith("_") or m.name.startswith("__"):
                    continue
                callers = ctx.callers(m)
                if callers and all(s.func.qname in closure for s in callers):
                    closure.add(m.qname)
                    changed = True
        state_mod = self.state.module.name
        n_sites = 0
        # which parameter of each closure function is the entry that `updated` puts into the dirty set
        ent_param = {upd.qname: upd.params()[1]}
        grow = True
        while grow:
            grow = False
            for q in list(ent_param):
                fq = ctx.prog.functions[q]
                for c_ in ctx.own_nodes(fq):
                    if isinstance(c_, ast.Call) and isinstance(c_.func, ast.Attribute) and isinstance(c_.func.value, ast.Name) and c_.func.value.id == fq.self_name:
                        tgt = self.state.methods.get(c_.func.attr)
                        if tgt is None or tgt.qname not in closure or tgt.qname in ent_param:
                            continue
                        for i_, a_ in enumerate(c_.args):
                            if isinstance(a_, ast.Name) and a_.id == ent_param[q] and i_ + 1 < len(tgt.params()):
                                ent_param[tgt.qname] = tgt.params()[i_ + 1]
                                grow = True
        # frozen exception (read and confirmed): the entry ousted from a path slot loses its path without being re-saved
        NOT_DIRTY_OK = {("_change_path", "_path", "None")}         # (function, field, value stored)
        for f in ctx.prog.functions.values():
            for n in ctx.own_nodes(f):
                is_raw = False
                attr = None
                recv = None
                if isinstance(n, ast.Attribute) and isinstance(n.ctx, (ast.Store, ast.Del)) and n.attr in persisted:
                    attr, recv = n.attr, n.value
                elif isinstance(n, ast.Call) and pat.match("object.__setattr__($$$)", n) is not None and n.args:
                    recv, attr, is_raw = n.args[0], "<dynamic>", True
                elif isinstance(n, ast.Call) and isinstance(n.func, ast.Name) and n.func.id == "setattr" and len(n.args) >= 2 \
                        and isinstance(n.args[1], ast.Constant) and str(n.args[1].value) in persisted:
                    recv, attr = n.args[0], str(n.args[1].value)
                if recv is None:
                    continue
                if not _has_inst(ctx.res.type_of(f, recv), self.sm.entry_q):
                    continue
                n_sites += 1
                key = stmt_key(f, n)
                if f.module.name != state_mod:
                    rep.violation("C08.R4", key, ctx.line(f, n), "private persisted field `%s` written outside sync/state.py: memory changes, the row never does" % ast.unparse(n)[:80], func=f.qname)
                    continue
                owner_ok = (f.cls in (self.side, self.entry) and f.name in funnel_names) or f.qname in closure
                rep.check("C08.R4", key, ctx.line(f, n), owner_ok, "written by the funnel / by updated's closure",
                          "private persisted field written by %s, which is neither part of the attribute funnel nor of SyncState.updated" % short(f.qname), func=f.qname,
                          nontrivial=False)
                if owner_ok and f.qname in ent_param and isinstance(n, ast.Attribute):
                    root = recv
                    while isinstance(root, ast.Subscript):
                        root = root.value
                    same_ent = isinstance(root, ast.Name) and root.id == ent_param[f.qname]
                    asg = [a_ for a_ in ctx.own_nodes(f) if isinstance(a_, ast.Assign) and any(t_ is n for t_ in a_.targets)]
                    if not same_ent and asg and (f.name, n.attr, ast.unparse(asg[0].value)) in NOT_DIRTY_OK:
                        rep.note("C08.R4", key + "|dirty-entry", ctx.line(f, n), "stores a private field of the ousted entry, which is not re-saved (frozen exception, read and confirmed)")
                        continue
                    rep.check("C08.R4", key + "|dirty-entry", ctx.line(f, n), same_ent, "store on the entry that updated() marks dirty",
                              "`%s` in %s changes a persisted field of an entry other than the one SyncState.updated marks dirty: the attribute funnel is bypassed, "
                              "that entry is never re-saved (memory and storage disagree after a restart)" % (ast.unparse(n), f.name), func=f.qname)
        if n_sites < 8:
            raise AnalysisError("only %d private-field store sites found (positive control failed)" % n_sites)

    # ------------------------------------------------------------------ R5
    def r5(self):
        rep, ctx = self.rep, self.ctx
        rep.rule("C08.R5", "storage_commit calls _storage_update for every element of the dirty set and only then empties it; "
                 "_storage_update implements (has id?, is trash?) -> delete / update / skip / create-and-record-id", expect_min=5)
        f = self.state.methods["storage_commit"]
        g = ctx.cfg(f)
        # local aliases of the dirty set (e.g. `dirty = self._dirtyset`, tuple swaps)
        aliases = set()
        for n in ctx.own_nodes(f):
            if isinstance(n, ast.Assign):
                pairs = []
                for t in n.targets:
                    if isinstance(t, ast.Tuple) and isinstance(n.value, ast.Tuple) and len(t.elts) == len(n.value.elts):
                        pairs += list(zip(t.elts, n.value.elts))
                    else:
                        pairs.append((t, n.value))
                for t, v in pairs:
                    if isinstance(t, ast.Name) and any(isinstance(x, ast.Attribute) and x.attr == "_dirtyset" for x in ast.walk(v)):
                        aliases.add(t.id)
        loops = [n for n in g.nodes if n.kind == "iter" and any((isinstance(x, ast.Attribute) and x.attr == "_dirtyset") or
                                                                 (isinstance(x, ast.Name) and x.id in aliases) for x in ast.walk(n.ast.iter))]
        if len(loops) != 1:
            raise AnalysisError("storage_commit: expected one loop over the dirty set, found %d" % len(loops))
        lp = loops[0]
        var = lp.ast.target.id if isinstance(lp.ast.target, ast.Name) else None

        def is_upd(n):
            r = cfg_root(n)
            return r is not None and any(isinstance(x, ast.Call) and pat.match("self._storage_update(%s)" % var, x) is not None for x in ast.walk(r))

        def is_clear(n):
            r = cfg_root(n)
            if r is None:
                return False
            for x in ast.walk(r):
                if isinstance(x, ast.Call) and pat.match("self._dirtyset.clear()", x) is not None:
                    return True
                if isinstance(x, ast.Attribute) and isinstance(x.ctx, ast.Store) and x.attr == "_dirtyset":
                    return True
            return False

        body_starts = [b for (b, lab) in g.succ[lp.id] if lab == "T"]
        p = g.reach(body_starts, lambda n: n is lp or n is g.exit, avoid=is_upd, follow=NORMAL, include_src=True)
        rep.check("C08.R5", "storage_commit|each-dirty-entry", ctx.line(f, lp.ast), p is None and var is not None,
                  "every iteration writes its entry", "an iteration of the commit loop can skip _storage_update(%s)" % var,
                  witness=describe_path(p) if p else None, func=f.qname)
        # entries leave the dirty set only after the whole pass: a write that raises mid-commit must leave the
        # unwritten entries dirty for the retry
        lid = lp.id
        early = g.reach([g.entry.id], lambda n: is_clear(n), follow=lambda a, b, l: l != "exc" and not (a == lid and l == "F"))
        after = [b for (b, lab) in g.succ[lp.id] if lab == "F"]
        no_clear = g.reach(after, lambda n: n is g.exit, avoid=is_clear, follow=NORMAL, include_src=True)
        rep.check("C08.R5", "storage_commit|clear-after-loop", f, early is None and no_clear is None,
                  "dirty set emptied only after the loop completed, on every path",
                  "the dirty set is emptied/rebound before every dirty entry was written (%s) or never (%s): a storage write that raises "
                  "mid-commit loses the unwritten entries for the retry" % (early is not None, no_clear is not None),
                  witness=describe_path(early) if early else None, func=f.qname)
        # four-case table
        su = self.state.methods["_storage_update"]
        ent = su.params()[1]
        want = {"delete": {("%s.storage_id is None" % ent, False), ("%s.is_trash" % ent, True)},
                "update": {("%s.storage_id is None" % ent, False), ("%s.is_trash" % ent, False)},
                "create": {("%s.storage_id is None" % ent, True), ("%s.is_trash" % ent, False)}}
        issued = {n.func.attr for n in ctx.own_nodes(su) if isinstance(n, ast.Call) and isinstance(n.func, ast.Attribute) and n.func.attr in want
                  and pat.match("self._storage", n.func.value) is not None}
        for k in sorted(set(want) - issued):
            rep.violation("C08.R5", "_storage_update|%s" % k, su, "_storage_update never issues storage.%s(): %s" % (k, {
                "delete": "the row of an entry that became trash stays in storage and is loaded again after a restart (a stale duplicate claiming ids that moved on)",
                "update": "changes of an entry that already has a row are never written",
                "create": "new entries never get a row"}[k]), func=su.qname)
        for n in ctx.own_nodes(su):
            if isinstance(n, ast.Call) and isinstance(n.func, ast.Attribute) and n.func.attr in want and pat.match("self._storage", n.func.value) is not None:
                facts = ctx.facts_at(su, n)
                w = want[n.func.attr]
                rep.check("C08.R5", "_storage_update|%s" % n.func.attr, ctx.line(su, n), w <= facts,
                          "guarded by %s" % sorted(w), "storage.%s() is issued under %s, expected %s" % (n.func.attr, sorted(facts), sorted(w)), func=su.qname)
                if n.func.attr in ("update", "create"):
                    ser_ok = any(pat.match("%s.serialize()" % ent, a) is not None for a in n.args)
                    rep.check("C08.R5", "_storage_update|%s|payload" % n.func.attr, ctx.line(su, n), ser_ok, "payload is the entry's serialization",
                              "storage.%s() is not given %s.serialize()" % (n.func.attr, ent), func=su.qname, nontrivial=False)
                if n.func.attr == "create":
                    # the new id must be recorded on the entry on every following normal path
                    gg = ctx.cfg(su)
                    cn = [x for x in gg.stmt_nodes_containing(n)]

                    def rec(x):
                        r = cfg_root(x)
                        return r is not None and any(isinstance(y, ast.Attribute) and isinstance(y.ctx, ast.Store) and y.attr == "storage_id" for y in ast.walk(r))
                    pp = gg.reach([c.id for c in cn], lambda x: x is gg.exit, avoid=rec, follow=NORMAL) if not any(rec(c) for c in cn) else None
                    rep.check("C08.R5", "_storage_update|create|record-id", ctx.line(su, n), pp is None, "new row id stored in the entry",
                              "the id returned by storage.create() is not recorded in the entry: the next commit creates a duplicate row",
                              witness=describe_path(pp) if pp else None, func=su.qname)

    # ------------------------------------------------------------------ R6
    def r6(self, rule_id="C08.R6"):
        rep, ctx = self.rep, self.ctx
        p = ctx.prog
        frames = [
            (p.func("SyncManager._sync_one_entry"), ("pre_sync", "sync")),
            (p.func("SmartCloudSync._sync_one_entry"), ("pre_sync", "sync")),
            (p.func("EventManager._process_event"), ("update",)),
        ]
        commit = self.state.methods["storage_commit"]
        for f, starters in frames:
            g = ctx.cfg(f)
            commit_sites = {id(s.node) for s in ctx.sites(f) if s.kind == "call" and commit in s.under}

            def is_commit(n):
                r = cfg_root(n)
                return r is not None and any(id(x) in commit_sites for x in ast.walk(r))

            for name in starters:
                calls = [c for c in ctx.calls(f, name) if isinstance(c.func, ast.Attribute)]
                if not calls:
                    raise AnalysisError("%s no longer calls %s()" % (short(f.qname), name))
                for c in calls:
                    srcs = [n.id for n in g.stmt_nodes_containing(c)]
                    pth = g.reach(srcs, lambda n: n is g.exit, avoid=is_commit, follow=NORMAL)
                    rep.check(rule_id, "%s|after %s()" % (short(f.qname), name), ctx.line(f, c), pth is None,
                              "every normal path to the exit passes storage_commit()",
                              "the step can finish normally after %s() without storage_commit(): memory and storage diverge until some later step" % name,
                              witness=describe_path(pth) if pth else None, func=f.qname)


def run(ctx: Ctx, rep: Report, tier: str):
    c = C08(ctx, rep)
    section(rep, c.r1)
    section(rep, c.r2)
    section(rep, c.r3)
    section(rep, c.r4)
    section(rep, c.r5)
    rep.rule("C08.R6", "on every normal path of a sync step (_sync_one_entry, both variants) and of an intake step "
             "(_process_event) storage_commit() is passed after the state-changing calls", expect_min=5)
    section(rep, c.r6)
    # notes (not violations)
    ser = c._written_keys(c.entry.methods["serialize"])
    if "priority" in ser:
        rep.note("C08.R1", "SyncEntry|priority", c.entry.methods["deserialize"], "priority is serialised and read back into the local dict only (not in the property's field list)")
    rep.assume("msgpack round-trips str / bytes / float / None / nested tuples of bytes unchanged")
    from rules.common import alias
    from rules.C15 import C15
    alias(rep, ["C15.R2"], "C08.R7", "the commit of an applied event runs inside the same lock region as the state change (C15.R2): the dirty set is never "
          "iterated by one thread while the other adds to it, so no dirty entry is dropped from a commit", 1, lambda: C15(ctx, rep).r2(),
          keep=lambda i: "_process_event" in i.key)
    from rules.common import codec_keeps_tuples
    rep.rule("C08.R8", "the codec round-trips value TYPES too: deserialize calls msgpack.loads(..., use_list=False), so tuple hashes reload as tuples", 1)
    section(rep, lambda: codec_keeps_tuples(ctx, rep, "C08.R8"))
    rep.rule("C08.R9", "forget() leaves nothing dirty behind: SyncState.forget resets the dirty set together with the indexes and the rows it deletes (C11.X10) - otherwise the "
             "next commit updates a deleted row and every later commit fails", 1)
    fg8 = ctx.prog.func("SyncState.forget")
    reset8 = set()
    for n8 in ctx.own_nodes(fg8):
        if isinstance(n8, ast.Attribute) and isinstance(n8.ctx, ast.Store) and isinstance(n8.value, ast.Name) and n8.value.id == fg8.self_name:
            reset8.add(n8.attr)
        if isinstance(n8, ast.Call) and isinstance(n8.func, ast.Attribute) and n8.func.attr == "clear" and isinstance(n8.func.value, ast.Attribute):
            reset8.add(n8.func.value.attr)
    rep.check("C08.R9", "forget|_dirtyset", fg8, "_dirtyset" in reset8, "dirty set reset", "SyncState.forget deletes every row but keeps the dirty set: the next commit tries to update a deleted row")
    from rules.C06 import C06 as _C06b
    alias(rep, ["C06.R5"], "C08.R10", "what the loader rebuilds equals what was live: every stored entry is re-indexed and re-queued exactly when its persisted `changed` flag is set "
          "(C06.R5) - a discarded entry that a new event re-queued is still queued after a restart", 4, lambda: _C06b(ctx, rep).r5())
    from rules.decisions import decision_table, table_sites
    rep.rule("C08.DT", "decision table (rules/decisions.json) of serialisation, the dirty marking of entry halves and the storage write-through: for every function and every action shape (an impure call with the parameters it passes, a store to an "
             "attribute or item, a delete, a returned constant, a yield, a raise) the set of states - over the function's guard atoms - in which the action is taken "
             "equals the recorded one; compared as canonical decision diagrams, so any equivalent respelling of the guards is the same table", table_sites("C08"))
    section(rep, lambda: decision_table(ctx, rep, "C08.DT", "C08"))
