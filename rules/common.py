"""Rule fragments shared by several properties (each caller reports them under its own rule id)."""
from __future__ import annotations

import ast

from sa.model import AnalysisError
from sa.ctx import Ctx
from sa.cfg import NORMAL, describe_path
from sa.report import Report
from sa.util import cfg_root, node_has_call
from sa import pat


def _conj(e):
    if isinstance(e, ast.BoolOp) and isinstance(e.op, ast.And):
        out = []
        for v in e.values:
            out += _conj(v)
        return out
    return [e]


def hash_conflict_definition(ctx: Ctx, rep: Report, rid: str):
    """SyncEntry.hash_conflict() is true exactly when both sides carry a hash and a path and BOTH hashes differ from their
    last-synced value - in particular an object that was never synced (no sync_hash) can conflict."""
    f = ctx.prog.func("SyncEntry.hash_conflict")
    atoms = set()
    shape_ok = True
    rets = [n for n in ctx.own_nodes(f) if isinstance(n, ast.Return)]
    ifs = [n for n in ctx.own_nodes(f) if isinstance(n, ast.If)]
    main = [r for r in rets if not (isinstance(r.value, ast.Constant) and r.value.value is False)]
    if len(main) != 1:
        shape_ok = False
    else:
        conds = []
        for i in ifs:
            if any(x is main[0] for b in i.body for x in ast.walk(b)):
                conds += _conj(i.test)
        conds += _conj(main[0].value)
        for c in conds:
            if isinstance(c, ast.Compare) and len(c.ops) == 1 and isinstance(c.ops[0], ast.NotEq) and isinstance(c.left, ast.Attribute) and isinstance(c.comparators[0], ast.Attribute):
                l, r = c.left, c.comparators[0]
                ml, mr = pat.match("self[$I]", l.value), pat.match("self[$I]", r.value)
                if ml is not None and mr is not None and isinstance(ml["I"], ast.Constant) and isinstance(mr["I"], ast.Constant) and ml["I"].value == mr["I"].value:
                    atoms.add("NE%s(%s)" % (ml["I"].value, ",".join(sorted([l.attr, r.attr]))))
                    continue
            if isinstance(c, ast.Attribute) and isinstance(c.value, ast.Subscript) and isinstance(c.value.slice, ast.Constant) and pat.match("self[$I]", c.value) is not None:
                atoms.add("T%s(%s)" % (c.value.slice.value, c.attr))
                continue
            atoms.add("?" + ast.unparse(c))
    want = {"T0(hash)", "T1(hash)", "T0(path)", "T1(path)", "NE0(hash,sync_hash)", "NE1(hash,sync_hash)"}
    rep.check(rid, "hash_conflict|definition", f, shape_ok and atoms == want, "conflict = both sides have hash and path, and both hashes differ from the last-synced ones",
              "hash_conflict() is now [%s], expected [%s]: e.g. two never-synced files of the same path are not seen as a conflict and one version is uploaded over the other"
              % (" and ".join(sorted(atoms)), " and ".join(sorted(want))))


def refresh_marks_changed(ctx: Ctx, rep: Report, rid: str):
    """unconditionally_get_latest: when the refresh discovers a new hash or a new path, the side is stamped changed
    (unless the entry is ignored or the side is already changed) - this is what lets 'a delete never wins over a newer edit' see the edit."""
    f = ctx.prog.func("SyncState.unconditionally_get_latest")
    ent, side = f.params()[1:3]
    g = ctx.cfg(f)
    for what in ("hash", "path"):
        stores = [n for n in g.nodes if cfg_root(n) is not None and isinstance(cfg_root(n), ast.Assign) and pat.match("%s[%s].%s = $V" % (ent, side, what), cfg_root(n)) is not None
                  and not (isinstance(cfg_root(n).value, ast.Call) and isinstance(cfg_root(n).value.func, ast.Attribute) and cfg_root(n).value.func.attr == "hash_oid")]
        if not stores:
            raise AnalysisError("unconditionally_get_latest: store to %s[%s].%s not found" % (ent, side, what))
        stamp = lambda n: cfg_root(n) is not None and isinstance(cfg_root(n), ast.Assign) and pat.match("%s[%s].changed = $V" % (ent, side), cfg_root(n)) is not None   # noqa: E731
        # the only way around the stamp is the false edge of a test that says "ignored, or already changed"
        skip_tests = {t.id for t in g.nodes if t.kind == "test" and any(isinstance(x, ast.Attribute) and x.attr == "changed" for x in ast.walk(t.ast))
                      and any(isinstance(x, ast.Attribute) and x.attr == "ignored" for x in ast.walk(t.ast))}
        nxt = [n for n in g.nodes if n.kind in ("test", "stmt") and n not in stores]
        pth = None
        for s_ in stores:
            # look only at the statements that belong to the same discovery block: stop at the next store to another field
            other = lambda n, s_=s_: cfg_root(n) is not None and isinstance(cfg_root(n), ast.Assign) and pat.match("%s[%s].$F = $V" % (ent, side), cfg_root(n)) is not None and not stamp(n) and n is not s_   # noqa: E731
            p_ = g.reach([s_.id], lambda n: other(n) or n is g.exit, avoid=stamp, follow=lambda a, b, l: l != "exc" and not (a in skip_tests and l == "F"))
            if p_ is not None:
                pth = p_
        rep.check(rid, "get_latest|new-%s-marks-changed" % what, f, pth is None, "a newly discovered %s stamps the side changed" % what,
                  "a refresh that discovers a new %s no longer marks the side changed: a concurrent delete on the other side wins over the newer edit" % what,
                  witness=describe_path(pth) if pth else None)
