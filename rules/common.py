"""Rule fragments shared by several properties (each caller reports them under its own rule id)."""
from __future__ import annotations

import ast

from sa.model import AnalysisError
from sa.ctx import Ctx
from sa.cfg import NORMAL, describe_path
from sa.report import Report
from sa.util import cfg_root, node_has_call, node_stores_attr, fact_in, local_assigned_from
from sa import pat


def _conj(e):
    from sa.guards import nnf
    e = nnf(e)              # one spelling whatever De Morgan form the source uses
    if isinstance(e, ast.BoolOp) and isinstance(e.op, ast.And):
        out = []
        for v in e.values:
            out += _conj(v)
        return out
    return [e]


def hash_conflict_definition(ctx: Ctx, rep: Report, rid: str):
    """SyncEntry.hash_conflict() is true exactly when both sides carry a hash and a path and BOTH hashes differ from their
    last-synced value - in particular an object that was never synced (no sync_hash) can conflict."""
    from sa import predform
    f = ctx.prog.func("SyncEntry.hash_conflict")
    s_ = f.params()[0]
    try:
        got = predform.dnf(predform.formula(f.node))
    except predform.Undecided as e:
        rep.error("rule=%s reason=undecided: hash_conflict is no longer a plain predicate (%s)" % (rid, e))
        return
    wants = []
    for (a0, a1) in (("0", "1"), ("LOCAL", "REMOTE")):
        wants.append(predform.dnf(predform.parse(("{s}[{a}].hash and {s}[{b}].hash and {s}[{a}].path and {s}[{b}].path and {s}[{a}].hash != {s}[{a}].sync_hash "
                                                  "and {s}[{b}].hash != {s}[{b}].sync_hash").format(s=s_, a=a0, b=a1))))
    rep.check(rid, "hash_conflict|definition", f, got in wants, "conflict = both sides have hash and path, and both hashes differ from the last-synced ones",
              "hash_conflict() is now [%s], expected [%s]: e.g. two never-synced files of the same path are not seen as a conflict and one version is uploaded over the other"
              % (predform.show(got)[:400], predform.show(wants[0])[:400]))


def refresh_marks_changed(ctx: Ctx, rep: Report, rid: str):
    """unconditionally_get_latest: when the refresh discovers a new hash or a new path, the side is stamped changed
    (unless the entry is ignored or the side is already changed) - this is what lets 'a delete never wins over a newer edit' see the edit."""
    f = ctx.prog.func("SyncState.unconditionally_get_latest")
    ent, side = f.params()[1:3]
    g = ctx.cfg(f)
    for what in ("hash", "path"):
        stores = [n for n in g.nodes if cfg_root(n) is not None and isinstance(cfg_root(n), ast.Assign) and pat.match("%s[%s].%s = $V" % (ent, side, what), cfg_root(n)) is not None
                  and not (isinstance(cfg_root(n).value, ast.Call) and isinstance(cfg_root(n).value.func, ast.Attribute) and cfg_root(n).value.func.attr == "hash_oid")]
        if not stores:
            raise AnalysisError("unconditionally_get_latest: store to %s[%s].%s not found" % (ent, side, what))
        stamp = lambda n: cfg_root(n) is not None and isinstance(cfg_root(n), ast.Assign) and pat.match("%s[%s].changed = $V" % (ent, side), cfg_root(n)) is not None   # noqa: E731
        # the only way around the stamp is the false edge of a test that says "ignored, or already changed"
        skip_tests = {t.id for t in g.nodes if t.kind == "test" and any(isinstance(x, ast.Attribute) and x.attr == "changed" for x in ast.walk(t.ast))
                      and any(isinstance(x, ast.Attribute) and x.attr == "ignored" for x in ast.walk(t.ast))}
        nxt = [n for n in g.nodes if n.kind in ("test", "stmt") and n not in stores]
        pth = None
        for s_ in stores:
            # look only at the statements that belong to the same discovery block: stop at the next store to another field
            other = lambda n, s_=s_: cfg_root(n) is not None and isinstance(cfg_root(n), ast.Assign) and pat.match("%s[%s].$F = $V" % (ent, side), cfg_root(n)) is not None and not stamp(n) and n is not s_   # noqa: E731
            p_ = g.reach([s_.id], lambda n: other(n) or n is g.exit, avoid=stamp, follow=lambda a, b, l: l != "exc" and not (a in skip_tests and l == "F"))
            if p_ is not None:
                pth = p_
        rep.check(rid, "get_latest|new-%s-marks-changed" % what, f, pth is None, "a newly discovered %s stamps the side changed" % what,
                  "a refresh that discovers a new %s no longer marks the side changed: a concurrent delete on the other side wins over the newer edit" % what,
                  witness=describe_path(pth) if pth else None)


def alias(rep: Report, src_rules, dst_rule: str, text: str, expect: int, fn, keep=None):
    """Run rule(s) of a neighbouring property and report the instances selected by `keep` (default: all of the first source rule) under
    `dst_rule`; every other instance the call produced is dropped. Source rules that the property declares itself are left untouched."""
    if isinstance(src_rules, str):
        src_rules = [src_rules]
    rep.rule(dst_rule, text, expect)
    saved = {r: (rep.rules.get(r), rep.expect.get(r)) for r in src_rules}
    before = len(rep.instances)
    for r in src_rules:
        rep.rules[r] = "alias"
        rep.expect[r] = 0
    fn()
    new = rep.instances[before:]
    del rep.instances[before:]
    for i in new:
        if i.rule not in src_rules:
            rep.instances.append(i)
        elif (keep(i) if keep else i.rule == src_rules[0]):
            i.rule = dst_rule
            rep.instances.append(i)
    for r, (t, e) in saved.items():
        if t is None or e is None:
            rep.rules.pop(r, None)
            rep.expect.pop(r, None)
        else:
            rep.rules[r], rep.expect[r] = t, e


def kids_sync_path_rebased(ctx: Ctx, rep: Report, rid: str):
    """_update_kids: a child's last-synced path is rebased from ITS OWN old last-synced path (not from its current path): a child rename that
    has not been synced yet must stay visible as a difference between path and sync_path."""
    f = ctx.prog.func("SyncState._update_kids")
    ps = f.params()
    prior, newp = ps[3], ps[4]
    stores = [n for n in ctx.own_nodes(f) if isinstance(n, ast.Assign) and isinstance(n.targets[0], ast.Attribute) and n.targets[0].attr == "sync_path"]
    if not stores:
        rep.violation(rid, "_update_kids|sync_path", f, "children's last-synced paths are no longer moved with a renamed folder")
        return
    defs = {}
    for n in ctx.own_nodes(f):
        if isinstance(n, ast.Assign) and isinstance(n.targets[0], ast.Name):
            defs.setdefault(n.targets[0].id, []).append(n.value)

    def resolve(e):
        if isinstance(e, ast.Name) and len(defs.get(e.id, [])) == 1:
            return defs[e.id][0]
        return e
    for st_ in stores:
        sub_ = ast.unparse(st_.targets[0].value)          # e.g. sub[side]
        v = resolve(st_.value)
        m = pat.match("$P.join(%s, $R)" % newp, v)
        ok = False
        detail = "value `%s`" % ast.unparse(st_.value)
        if m is not None:
            r = resolve(m["R"])
            m2 = pat.match("$P.is_subpath(%s, %s.sync_path)" % (prior, sub_), r)
            ok = m2 is not None
            detail = "join(new folder, is_subpath(old folder, %s.sync_path))" % sub_ if ok else "relative part comes from `%s`" % ast.unparse(r)
        rep.check(rid, "_update_kids|sync_path", ctx.line(f, st_), ok, detail,
                  "a child's last-synced path is not rebased from its own old last-synced path (%s): a pending child rename is booked as already synced / the synced marker drifts" % detail)


def refresh_marks_exists(ctx: Ctx, rep: Report, rid: str):
    """unconditionally_get_latest: once the provider returned info, the side is marked EXISTS on every path (a stale tombstone is repaired
    even when the content hash did not change)."""
    f = ctx.prog.func("SyncState.unconditionally_get_latest")
    ent, side = f.params()[1:3]
    g = ctx.cfg(f)
    infos = [n for n in g.nodes if n.kind == "test" and isinstance(n.ast, ast.UnaryOp) and isinstance(n.ast.op, ast.Not)]
    iname = None
    for n in ctx.own_nodes(f):
        if isinstance(n, (ast.Assign, ast.AnnAssign)) and isinstance(n.value, ast.Call) and isinstance(n.value.func, ast.Attribute) and n.value.func.attr == "info_oid":
            tg = n.targets[0] if isinstance(n, ast.Assign) else n.target
            iname = tg.id if isinstance(tg, ast.Name) else None
    tests = [n for n in g.nodes if n.kind == "test" and iname and pat.match("not %s" % iname, n.ast) is not None]
    if not tests:
        raise AnalysisError("unconditionally_get_latest: `if not <info>` not found")
    starts = [b for t in tests for (b, l) in g.succ[t.id] if l == "F"]
    mark = lambda n: cfg_root(n) is not None and isinstance(cfg_root(n), ast.Assign) and pat.match("%s[%s].exists = EXISTS" % (ent, side), cfg_root(n)) is not None   # noqa: E731
    pth = g.reach(starts, lambda n: n is g.exit, avoid=mark, follow=NORMAL, include_src=True)
    rep.check(rid, "get_latest|info-marks-exists", f, pth is None, "info present -> exists = EXISTS on every path",
              "a refresh that finds the object does not always mark it EXISTS: a replayed / stale delete leaves a live object TRASHED and its peer is deleted",
              witness=describe_path(pth) if pth else None)


def refresh_stamp_after_fetch(ctx: Ctx, rep: Report, rid: str):
    """SyncEntry.get_latest: `_last_gotten` is stored only after unconditionally_get_latest returned (a refresh that raised is not
    booked as done: the next step refreshes again instead of acting on stale data)."""
    f = ctx.prog.func("SyncEntry.get_latest")
    g = ctx.cfg(f)
    fetch = [n for n in g.nodes if node_has_call(n, "$P.unconditionally_get_latest($$$)")]
    stamp = [n for n in g.nodes if cfg_root(n) is not None and isinstance(cfg_root(n), ast.Assign) and any(
        isinstance(t, ast.Attribute) and t.attr == "_last_gotten" for t in cfg_root(n).targets)]
    if not fetch or not stamp:
        raise AnalysisError("SyncEntry.get_latest: refresh call / _last_gotten store not found")
    loops = [n for n in g.nodes if n.kind == "iter"]
    starts = [b for lp in loops for (b, l) in g.succ[lp.id] if l == "T"] or [g.entry.id]
    pth = g.reach(starts, lambda n: n in stamp, avoid=lambda n: n in fetch, follow=NORMAL, include_src=True)
    rep.check(rid, "get_latest|stamp-after-fetch", f, pth is None, "_last_gotten stored only after the refresh returned",
              "the refresh stamp can be stored before / without the provider refresh: a refresh that fails (temporary error, disconnect) is booked as done and the retry acts on stale state",
              witness=describe_path(pth) if pth else None)


def dir_delete_rechecks_kids(ctx: Ctx, rep: Report, rid: str):
    """_handle_dir_delete_not_empty: the children found under the deleted folder, and the folder itself, are force-synced on the side of
    the delete. `mark_changed()` alone is not enough: nothing changed for them, so sync() would clear the flag again."""
    hd = ctx.prog.func("SyncManager._handle_dir_delete_not_empty")
    sy_, ch_ = hd.params()[1], hd.params()[2]
    # every look-up of the children asks for the folder's CURRENT path on the deleting side (the children's paths follow the folder's path,
    # not its last-synced path: after a move-out they are found under the new path only)
    for gk in [n for n in ctx.own_nodes(hd) if isinstance(n, ast.Call) and pat.match("self.state.get_kids($P, $S)", n) is not None]:
        okp = pat.match("self.state.get_kids(%s[%s].path, %s)" % (sy_, ch_, ch_), gk) is not None
        rep.check(rid, "_handle_dir_delete_not_empty|lookup", ctx.line(hd, gk), okp, "children looked up under %s[%s].path on side %s" % (sy_, ch_, ch_),
                  "the children of the folder being deleted are looked up with `%s`: not under the folder's current path on the deleting side - after the folder was "
                  "moved its children are not found, never re-examined, and the delete gives up" % ast.unparse(gk))
    loops = [n for n in ctx.own_nodes(hd) if isinstance(n, ast.For) and pat.match("self.state.get_kids($P, $S)", n.iter) is not None]
    # `kids = [kid for kid, _ in get_kids(..)]` hoisted above the loops
    hoisted = {}
    for n in ctx.own_nodes(hd):
        if isinstance(n, ast.Assign) and isinstance(n.targets[0], ast.Name) and isinstance(n.value, (ast.ListComp, ast.GeneratorExp)) and len(n.value.generators) == 1 \
                and pat.match("self.state.get_kids($P, $S)", n.value.generators[0].iter) is not None:
            hoisted[n.targets[0].id] = n.value.generators[0].iter
    for n in ctx.own_nodes(hd):
        if isinstance(n, ast.For) and isinstance(n.iter, ast.Name) and n.iter.id in hoisted:
            fake = ast.For(target=ast.Tuple(elts=[n.target, ast.Name(id="_", ctx=ast.Store())], ctx=ast.Store()) if isinstance(n.target, ast.Name) else n.target,
                           iter=hoisted[n.iter.id], body=n.body, orelse=n.orelse)
            ast.copy_location(fake, n)
            loops.append(fake)
    done = 0
    for lp in loops:
        m = pat.match("self.state.get_kids($P, $S)", lp.iter)
        kid = lp.target.elts[0].id if isinstance(lp.target, ast.Tuple) and isinstance(lp.target.elts[0], ast.Name) else (lp.target.id if isinstance(lp.target, ast.Name) else None)
        calls = [x for b in lp.body for x in ast.walk(b) if isinstance(x, ast.Call) and isinstance(x.func, ast.Attribute) and pat.match("%s[$X]" % kid, x.func.value) is not None]
        marks = [x for x in calls if x.func.attr in ("set_force_sync", "mark_changed", "mark_dirty")]
        if not marks:
            continue        # the other loop over the kids (it only inspects them)
        done += 1
        forced = [x for x in marks if x.func.attr == "set_force_sync"]
        if not forced:
            rep.violation(rid, "_handle_dir_delete_not_empty|kids", ctx.line(hd, marks[0]),
                          "the children of the folder whose delete is deferred are only `%s` - not force-synced: sync() drops the mark (`needs_sync()` is false for an "
                          "unchanged child), the children are never re-examined and the folder delete gives up" % ast.unparse(marks[0]))
            continue
        for c_ in forced:
            m2 = pat.match("%s[$X].set_force_sync()" % kid, c_)
            pm = pat.match("$E[$PS].path", m["P"])
            okk = m2 is not None and pat.same(m2["X"], m["S"]) and (pm is None or pat.same(pm["PS"], m["S"]))
            rep.check(rid, "_handle_dir_delete_not_empty|kids", ctx.line(hd, c_), okk, "kids of side %s force-synced on side %s" % (ast.unparse(m["S"]), ast.unparse(m2["X"]) if m2 else "?"),
                      "the children found under the deleted folder on side `%s` are marked for re-check on side `%s`: their state on the deleting side is never refreshed, the "
                      "folder delete gives up and the folder is re-created / the delete is lost" % (ast.unparse(m["S"]), ast.unparse(m2["X"]) if m2 else "?"))
    if done == 0:
        raise AnalysisError("_handle_dir_delete_not_empty: the loop that marks the children was not found")
    # the folder itself: after the kids loop, force-synced on the same side before PUNT
    chn = hd.params()[2]
    own = [x for x in ctx.own_nodes(hd) if isinstance(x, ast.Call) and pat.match("%s[%s].set_force_sync()" % (hd.params()[1], chn), x) is not None]
    rep.check(rid, "_handle_dir_delete_not_empty|self", hd, bool(own), "the folder is force-synced too (it is retried after its children)",
              "the folder entry itself is no longer force-synced: once its children are gone nothing brings the folder delete back")


def data_rows_follow_storage(ctx: Ctx, rep: Report, rid: str):
    """The per-tag data rows (cursor, walk marker) are managed from what STORAGE holds, not from the in-memory id cache alone:
    storage_delete_tag enumerates the tag's rows with read_all and deletes each; storage_update_data fills the cache from storage
    (storage_get_data) before it decides between update and create."""
    st = ctx.prog.cls("SyncState")
    f = st.methods["storage_delete_tag"]
    tagp = f.params()[1]
    ok, detail = False, "no loop over the stored rows"
    defs = {n.targets[0].id: n.value for n in ctx.own_nodes(f) if isinstance(n, ast.Assign) and isinstance(n.targets[0], ast.Name)}
    for lp in [n for n in ctx.own_nodes(f) if isinstance(n, ast.For)]:
        src = lp.iter
        while True:
            if isinstance(src, ast.Call) and isinstance(src.func, ast.Attribute) and src.func.attr in ("items", "keys", "copy") and not src.args:
                src = src.func.value
            elif isinstance(src, ast.Call) and isinstance(src.func, ast.Name) and src.func.id in ("list", "tuple", "sorted", "set") and src.args:
                src = src.args[0]
            elif isinstance(src, ast.Name) and src.id in defs:
                src = defs[src.id]
            else:
                break
        if pat.match("self._storage.read_all(%s)" % tagp, src) is None:
            continue
        var = lp.target.elts[0] if isinstance(lp.target, ast.Tuple) else lp.target
        if isinstance(var, ast.Name) and any(isinstance(x, ast.Call) and pat.match("self._storage.delete(%s, %s)" % (tagp, var.id), x) is not None for b in lp.body for x in ast.walk(b)):
            facts = ctx.facts_at(f, lp)
            cached = [t for (t, p) in facts if "data_id" in t]
            ok, detail = not cached, "every row read_all(tag) returns is deleted" + (" - but only under %s" % cached if cached else "")
    rep.check(rid, "storage_delete_tag|all-rows", f, ok, detail,
              "storage_delete_tag does not delete every stored row of the tag (%s): a row whose id was never cached in this run - e.g. the walk marker after a restart "
              "with a missing cursor - survives, so 'forgetting' it is a silent no-op" % detail)
    u = st.methods["storage_update_data"]
    tagu = u.params()[1]
    g = ctx.cfg(u)
    fill = lambda n: node_has_call(n, "self.storage_get_data(%s)" % tagu) or node_has_call(n, "self._storage.read_all(%s)" % tagu)   # noqa: E731
    writes = [n for n in g.nodes if node_has_call(n, "self._storage.create(%s, $$$)" % tagu) or node_has_call(n, "self._storage.update(%s, $$$)" % tagu)]
    if not writes:
        raise AnalysisError("storage_update_data: no storage write found")
    pth = g.reach([g.entry.id], lambda n: n in writes, avoid=fill, follow=NORMAL)
    pops = [n for n in ctx.own_nodes(f) if isinstance(n, ast.Call) and (pat.match("self.data_id.pop(%s, $$$)" % tagp, n) is not None)] + \
           [n for n in ctx.own_nodes(f) if isinstance(n, ast.Delete) and any(pat.match("self.data_id[%s]" % tagp, t) is not None for t in n.targets)]
    rep.check(rid, "storage_delete_tag|forgets-cached-id", f, bool(pops), "the cached row id of the tag is dropped",
              "storage_delete_tag leaves the tag's cached row id in data_id: the next write of the tag updates a row that no longer exists (ValueError), the tag can "
              "never be written again - e.g. the walk marker after a rejected cursor")
    rep.check(rid, "storage_update_data|cache-filled-first", u, pth is None, "the tag's rows are looked up in storage before update/create is chosen",
              "storage_update_data chooses between update and create from the in-memory id cache only: after a restart a tag that is written before it was read "
              "gets a second row, and the next read finds two", witness=describe_path(pth) if pth else None)


def first_init_completes_before_flag(ctx: Ctx, rep: Report, rid: str):
    """The first-step block of the event manager (`if self._first_do:` - in _do_first_init, or wherever it was inlined): `_first_do = False` is
    the LAST effect of the block - no provider / state call can run (and fail) after it, so a first step that failed is repeated in full."""
    em = ctx.prog.cls("EventManager")
    found = None
    for f in em.methods.values():
        if isinstance(f.node, ast.Lambda):
            continue
        for n in ctx.own_nodes(f):
            if isinstance(n, ast.If) and pat.match("self._first_do", n.test) is not None:
                found = (f, n.body)
        # guard-clause form: `if not self._first_do: return` - the block is the rest of the function body
        body = f.node.body
        for i, n in enumerate(body):
            if isinstance(n, ast.If) and pat.match("not self._first_do", n.test) is not None and len(n.body) == 1 and isinstance(n.body[0], ast.Return) and not n.orelse:
                found = (f, body[i + 1:])
    if found is None:
        raise AnalysisError("the first-step block (`if self._first_do:`) of the event manager was not found")
    f, block = found
    idx = [i for i, s in enumerate(block) if isinstance(s, ast.Assign) and pat.match("self._first_do = False", s) is not None]
    nested = [s for s in ast.walk(ast.Module(body=list(block), type_ignores=[])) if isinstance(s, ast.Assign) and pat.match("self._first_do = False", s) is not None]
    if not nested:
        raise AnalysisError("the first-step block no longer clears _first_do")

    def effect(s):
        for x in ast.walk(s):
            if isinstance(x, ast.Call):
                nm = ast.unparse(x.func)
                if not nm.startswith("log."):
                    return True
            if isinstance(x, ast.Attribute) and isinstance(x.ctx, ast.Store) and pat.match("self.provider", x.value) is not None:
                return True
        return False
    ok = len(idx) == 1 and len(nested) == 1 and not any(effect(s) for s in block[idx[0] + 1:]) and any(effect(s) for s in block[:idx[0]])
    rep.check(rid, "first-step|flag-last", ctx.line(f, nested[0]), ok, "_first_do cleared unconditionally, after the last fallible operation of the block",
              "the first-step flag is cleared before (or only on some paths of) the cursor restore: if that call fails once (disconnect, token, temporary error) the retry skips "
              "it, the provider stays positioned at 'now' and the fresh cursor overwrites the stored one - everything that changed while the engine was down is skipped")


def subpath_lengths_are_normalised(ctx: Ctx, rep: Report, rid: str):
    """Provider.is_subpath: every len(...) that positions the boundary test or cuts the relative part measures a separator-normalised
    value, never a raw argument (a raw `/root/` is one longer than its normalised form: inside paths are rejected, `/roots/x` accepted)."""
    f = ctx.prog.func("Provider.is_subpath")
    raw = set(f.params()[1:3])
    n = 0
    for x in ctx.own_nodes(f):
        if isinstance(x, ast.Call) and isinstance(x.func, ast.Name) and x.func.id == "len" and len(x.args) == 1:
            n += 1
            a = x.args[0]
            rep.check(rid, "is_subpath|len(%s)" % ast.unparse(a), ctx.line(f, x), not (isinstance(a, ast.Name) and a.id in raw), "length of a normalised value",
                      "`len(%s)` measures the raw argument: with a trailing or repeated separator the boundary index is off - paths inside the folder are rejected and a "
                      "name-prefix sibling (`/roots/x` for `/root/`) is accepted" % ast.unparse(a))
    if n < 2:
        raise AnalysisError("is_subpath: the length computations of the boundary test were not found")


def start_rechecks_after_join(ctx: Ctx, rep: Report, rid: str):
    """Runnable.start: after the grace join the old thread is tested again; a Thread is created only past an is_alive() test that came after
    every join - one manager never runs two loop threads."""
    f = ctx.prog.cls("Runnable").methods["start"]
    g = ctx.cfg(f)
    th = [n for n in g.nodes if node_has_call(n, "threading.Thread($$$)")]
    joins = [n for n in g.nodes if node_has_call(n, "$T.join($$$)")]
    alive = [n for n in g.nodes if n.kind == "test" and any(isinstance(x, ast.Call) and isinstance(x.func, ast.Attribute) and x.func.attr == "is_alive" for x in ast.walk(n.ast))]
    if not th:
        raise AnalysisError("Runnable.start no longer creates a thread")
    pth = g.reach([g.entry.id] + [j.id for j in joins], lambda n: n in th, avoid=lambda n: n in alive, follow=NORMAL)
    # the true edge of the LAST alive test must not lead to thread creation
    bad = None
    for a in alive:
        t_succ = [b for (b, l) in g.succ[a.id] if l == "T"]
        p2 = g.reach(t_succ, lambda n: n in th, avoid=lambda n: n in alive, follow=NORMAL, include_src=True)
        if p2 is not None:
            bad = p2
    rep.check(rid, "start|alive-rechecked", f, pth is None and bad is None, "Thread(...) only past an is_alive() test that follows every join",
              "start() can create a second loop thread while the old one is still running (no is_alive() re-check after the grace join): two threads drive one manager, "
              "stop()/wait() joins only the newest", witness=describe_path(pth or bad) if (pth or bad) else None)


def unchanged_walk_facts(facts, chg_name) -> bool:
    """the facts say 'neither the hash nor the path of the event differs from the state': through the explaining local, or tested in place"""
    if chg_name is not None and fact_in(facts, chg_name, False):
        return True

    def eq(field):
        for (t, p) in facts:
            try:
                e = ast.parse(t, mode="eval").body
            except SyntaxError:
                continue
            if p and isinstance(e, ast.Compare) and len(e.ops) == 1 and isinstance(e.ops[0], ast.Eq):
                sides = [ast.unparse(e.left), ast.unparse(e.comparators[0])]
                if any(s_ == "event.%s" % field for s_ in sides) and any(s_.endswith(".%s" % field) and s_ != "event.%s" % field for s_ in sides):
                    return True
        return False
    return eq("hash") and eq("path")


def walk_dedupe_is_exact(ctx: Ctx, rep: Report, rid: str):
    """_process_event: a walk event is dropped as 'nothing new' only when hash AND path are EXACTLY equal to what the state holds (`!=` / `==` on the
    raw values); a comparison modulo case / separators, or of the hash alone, would drop a rename found by a walk."""
    from sa import predform
    f = ctx.prog.func("EventManager._process_event")
    ev = f.params()[1]
    cands = []
    for n in ctx.own_nodes(f):
        e = None
        if isinstance(n, ast.Assign) and isinstance(n.targets[0], ast.Name):
            e = n.value
        elif isinstance(n, ast.If):
            e = n.test
        if e is not None and any(isinstance(x, ast.Attribute) and x.attr == "hash" and isinstance(x.value, ast.Name) and x.value.id == ev for x in ast.walk(e)) \
                and any(isinstance(x, ast.Attribute) and x.attr == "hash" and not (isinstance(x.value, ast.Name) and x.value.id == ev) for x in ast.walk(e)):
            cands.append((n, e))
    if len(cands) != 1:
        raise AnalysisError("_process_event: the comparison of a walk event with the known state was not found (%d candidates)" % len(cands))
    n, e = cands[0]
    # the comparison may be one conjunct of a merged test (`if already and not (...)`): read that conjunct
    while isinstance(e, ast.BoolOp) and isinstance(e.op, ast.And):
        with_hash = [v for v in e.values if any(isinstance(x, ast.Attribute) and x.attr == "hash" for x in ast.walk(v))]
        if len(with_hash) != 1:
            break
        e = with_hash[0]
    known = None
    for x in ast.walk(e):
        if isinstance(x, ast.Attribute) and x.attr == "hash" and not (isinstance(x.value, ast.Name) and x.value.id == ev):
            known = ast.unparse(x.value)
    try:
        got = predform.dnf(e)
        wants = [predform.dnf(predform.parse("{k}.hash != {e}.hash or {k}.path != {e}.path".format(k=known, e=ev))),
                 predform.dnf(predform.parse("{k}.hash == {e}.hash and {k}.path == {e}.path".format(k=known, e=ev)))]
    except predform.Undecided as u:
        rep.error("rule=%s reason=undecided: %s" % (rid, u))
        return
    rep.check(rid, "_process_event|walk-dedupe-exact", ctx.line(f, n), got in wants, "hash and path compared exactly (raw values)",
              "the walk filter compares `%s`: not an exact comparison of hash AND path - a change that keeps the hash (a rename / move made while the engine was down; every "
              "folder rename) or differs only in case / separators is dropped as 'already known'" % ast.unparse(e)[:140])


def parent_recorded_when_provider_knows_it(ctx: Ctx, rep: Report, rid: str):
    """handle_cloud_file_not_found_error: when the state knows nothing at the parent's path but the provider does, the parent's id and path are
    recorded under no further condition (this is what corrects a known folder's stale path when its rename event is late)."""
    f = ctx.prog.func("SyncManager.handle_cloud_file_not_found_error")
    ups = [n for n in ctx.own_nodes(f) if isinstance(n, ast.Call) and pat.match("self.state.update($S, DIRECTORY, $I.oid, $$$)", n) is not None]
    if not ups:
        rep.violation(rid, "handle_cloud_file_not_found_error|record-parent", f, "the parent folder found at the provider is no longer recorded in the state")
        return
    from sa.util import extra_facts
    info = local_assigned_from(ctx, f, "self.providers[$S].info_path($P)") or "info"
    ents = local_assigned_from(ctx, f, "self.state.lookup_path($S, $P)") or "ents"
    chn_ = f.params()[1]
    asked = [n for n in ctx.own_nodes(f) if isinstance(n, ast.Call) and pat.match("self.providers[$S].info_path($P)", n) is not None]
    for a_ in asked:
        sd = ast.unparse(pat.match("self.providers[$S].info_path($P)", a_)["S"])
        rep.check(rid, "handle_cloud_file_not_found_error|asks-changed-side", ctx.line(f, a_), sd == chn_, "the parent is looked up at the provider of the changed side",
                  "the missing parent is looked up at the provider of side `%s`, not of the side the child's event came from (`%s`): the look-up never finds it, the child is punted "
                  "until it is given up" % (sd, chn_))
    for u in ups:
        facts = ctx.facts_at(f, u)
        extra = extra_facts(facts, [(info, True), (ents, False), ("$S.priority > $N", False)])
        rep.check(rid, "handle_cloud_file_not_found_error|record-parent", ctx.line(f, u), fact_in(facts, info, True) and not extra, "recorded whenever the provider knows the parent",
                  "the parent found at the provider is recorded only under the extra condition(s) %s: a folder the state already knows by id keeps its stale path, the child is "
                  "punted until it is given up" % (extra or sorted(facts)))


def temp_rename_on_moved_entry(ctx: Ctx, rep: Report, rid: str):
    """rename_to_fix_conflict: each update_entry(E, oid=new id) is followed, under temp_rename, by E.ignore(TEMP_RENAME) for the same E."""
    rf = ctx.prog.func("SyncManager.rename_to_fix_conflict")
    g = ctx.cfg(rf)
    ups = [c_ for c_ in ctx.calls(rf, "update_entry") if c_.args]
    if not ups:
        raise AnalysisError("rename_to_fix_conflict: update_entry calls not found")
    tr = rf.params()[4] if len(rf.params()) > 4 else "temp_rename"
    tests = {t.id for t in g.nodes if t.kind == "test" and pat.match(tr, t.ast) is not None}
    for u in ups:
        e_ = ast.unparse(u.args[0])
        un = g.stmt_nodes_containing(u)
        flag = lambda n, e_=e_: node_has_call(n, "%s.ignore(IgnoreReason.TEMP_RENAME)" % e_)   # noqa: E731
        pth = g.reach([x.id for x in un], lambda n: n is g.exit, avoid=flag, follow=lambda a, b, l: l != "exc" and not (a in tests and l == "F"))
        rep.check(rid, "rename_to_fix_conflict|%s" % e_, ctx.line(rf, u), pth is None, "%s.ignore(TEMP_RENAME) follows update_entry(%s, ...) under temp_rename" % (e_, e_),
                  "the entry whose file was renamed away (`%s`) is not the one flagged TEMP_RENAME" % e_, witness=describe_path(pth) if pth else None)


def event_application_writes_through(ctx: Ctx, rep: Report, rid: str):
    """SyncState.update / update_entry - how an event becomes state: every field the event carries is written to the side the event came
    from (and to no other side), guarded by nothing but 'the event carries it'; the entry is looked up on that side, created only when
    unknown, and always marked changed."""
    from sa.util import extra_facts
    ue = ctx.prog.func("SyncState.update_entry")
    ps = ue.params()
    ent, side = ps[1], ps[2]
    # 1. one side only
    for n in ctx.own_nodes(ue):
        if isinstance(n, ast.Subscript) and isinstance(n.value, ast.Name) and n.value.id == ent:
            ok = isinstance(n.slice, ast.Name) and n.slice.id == side
            if not ok:
                rep.violation(rid, "update_entry|side|%s" % ast.unparse(n), ctx.line(ue, n), "update_entry touches `%s`: the information of an event of side `%s` is written to / read "
                              "from another side of the entry" % (ast.unparse(n), side))
    rep.ok(rid, "update_entry|one-side", ue, "every ent[...] access uses the `%s` parameter" % side) if not any(i.rule == rid and i.verdict == "violation" for i in rep.instances) else None
    # 2. parameter -> field table
    table = {"oid": "oid", "otype": "otype", "size": "size", "mtime": "mtime", "path": "path", "file_hash": "hash"}
    allp = ue.all_param_names() if hasattr(ue, "all_param_names") else ps
    defs = {}
    for n in ctx.own_nodes(ue):
        if isinstance(n, ast.Assign) and isinstance(n.targets[0], ast.Name):
            defs.setdefault(n.targets[0].id, []).append(n.value)
    for par, fld in table.items():
        if par not in allp:
            raise AnalysisError("update_entry lost its `%s` parameter" % par)
        stores = [n for n in ctx.own_nodes(ue) if isinstance(n, ast.Assign) and pat.match("%s[%s].%s" % (ent, side, fld), n.targets[0]) is not None]
        good, detail = False, "no store to %s[%s].%s" % (ent, side, fld)
        for st_ in stores:
            v = st_.value
            src = {x.id for x in ast.walk(v) if isinstance(x, ast.Name)}
            for nm in list(src):
                for d in defs.get(nm, []):
                    src |= {x.id for x in ast.walk(d) if isinstance(x, ast.Name)}
            if par not in src:
                detail = "`%s` does not store the `%s` argument" % (ast.unparse(st_), par)
                continue
            facts = ctx.facts_at(ue, st_)
            extra = extra_facts(facts, [("%s is None" % par, False), ("$A == $B", False)])
            need = fact_in(facts, "%s is None" % par, False)
            good = need and not extra
            detail = "stored under %s" % sorted(facts)
        rep.check(rid, "update_entry|%s->%s" % (par, fld), ue, good, detail,
                  "an event's `%s` is not written through to %s[%s].%s exactly when the event carries it (%s): the state keeps a stale %s and the engine acts on it" % (par, ent, side, fld, detail, fld))
    # 3. exists: every path stores it; the tombstone-protecting arm is exact
    g = ctx.cfg(ue)
    ex_st = [n for n in g.nodes if cfg_root(n) is not None and isinstance(cfg_root(n), ast.Assign) and pat.match("%s[%s].exists" % (ent, side), cfg_root(n).targets[0]) is not None]
    pth = g.reach([g.entry.id], lambda n: n is g.exit, avoid=lambda n: n in ex_st, follow=NORMAL)
    plain = [n for n in ex_st if isinstance(cfg_root(n).value, ast.Name) and cfg_root(n).value.id == "exists"]
    likely = [n for n in ex_st if ast.unparse(cfg_root(n).value) == "LIKELY_TRASHED"]
    okl = all(set(ctx.facts(ue).facts(n)) >= {("%s[%s].exists is TRASHED" % (ent, side), True), ("exists is True", True)} and
              not extra_facts(ctx.facts(ue).facts(n), [("%s[%s].exists is TRASHED" % (ent, side), True), ("exists is True", True)]) for n in likely)
    rep.check(rid, "update_entry|exists", ue, pth is None and bool(plain) and okl, "existence written on every path; LIKELY_TRASHED only for TRASHED + exists",
              "the event's existence flag is not written through on every path (or the re-creation guard changed): a delete / re-create reported by the provider is ignored",
              witness=describe_path(pth) if pth else None)
    # 4. marked changed exactly when asked
    mc = [n for n in ctx.own_nodes(ue) if isinstance(n, ast.Call) and pat.match("self.mark_changed(%s, %s)" % (side, ent), n) is not None]
    okm = bool(mc) and all(set(ctx.facts_at(ue, n)) == {("changed", True)} for n in mc)
    rep.check(rid, "update_entry|mark_changed", ue, okm, "mark_changed(side, ent) under `changed`", "update_entry no longer marks the entry changed on the event's side exactly when asked to")
    # ---- update(): look-up, creation, hand-over
    up = ctx.prog.func("SyncState.update")
    us = up.params()[1]
    for n in ctx.own_nodes(up):
        if isinstance(n, ast.Call) and isinstance(n.func, ast.Attribute) and n.func.attr in ("lookup_oid", "lookup_path") and pat.match("self", n.func.value) is not None:
            rep.check(rid, "update|%s" % ast.unparse(n)[:50], ctx.line(up, n), bool(n.args) and isinstance(n.args[0], ast.Name) and n.args[0].id == us, "look-up on the event's side",
                      "`%s` looks the event's object up on another side" % ast.unparse(n))
    gu = ctx.cfg(up)
    calls = [n for n in ctx.own_nodes(up) if isinstance(n, ast.Call) and pat.match("self.update_entry($$$)", n) is not None]
    if not calls:
        rep.violation(rid, "update|hand-over", up, "update() no longer hands the event to update_entry")
        return
    cn = [x for c_ in calls for x in gu.stmt_nodes_containing(c_)]
    pth = gu.reach([gu.entry.id], lambda n: n is gu.exit, avoid=lambda n: n in cn, follow=NORMAL)
    want = {"path": "path", "file_hash": "hash", "exists": "exists", "otype": "otype", "size": "size", "mtime": "mtime"}
    for c_ in calls:
        kw = {k.arg: k.value for k in c_.keywords}
        pos = [ast.unparse(a) for a in c_.args[:3]]
        okk = len(pos) == 3 and pos[1] == us and pos[2] == up.params()[3] and all(isinstance(kw.get(k), ast.Name) and kw[k].id == v for k, v in want.items())
        ch = kw.get("changed")
        okc = ch is not None and not (isinstance(ch, ast.Constant) and not ch.value)
        rep.check(rid, "update|hand-over", ctx.line(up, c_), okk and okc and pth is None, "every event field handed to update_entry by name, changed=<now>",
                  "update() does not hand every field of the event to update_entry on every path (positional %s, keywords %s): part of the event is dropped / the entry is not marked changed" %
                  (pos, sorted((k, ast.unparse(v)) for k, v in kw.items())), witness=describe_path(pth) if pth else None)
    new = [n for n in ctx.own_nodes(up) if isinstance(n, ast.Assign) and isinstance(n.value, ast.Call) and pat.match("SyncEntry(self, $T)", n.value) is not None]
    okn = bool(new) and all(set(ctx.facts_at(up, n)) == {(ast.unparse(n.targets[0]), False)} for n in new)
    rep.check(rid, "update|create-when-unknown", up, okn, "a new entry exactly when the look-ups found none",
              "update() creates a new entry under another condition than 'no entry found' (facts %s): a known object gets a duplicate entry / an unknown one is dropped" % [sorted(ctx.facts_at(up, n)) for n in new])


def one_side_only(ctx: Ctx, rep: Report, rid: str, spec: str, ent_i: int, side_i: int):
    """In `spec` every `ent[...]` and `self.providers[...]` access uses the function's own side parameter: what is learnt about one side is
    never written to, or read from, the other."""
    f = ctx.prog.func(spec)
    ps = f.params()
    ent, side = ps[ent_i], ps[side_i]
    bad = []
    n = 0
    for x in ctx.own_nodes(f):
        if isinstance(x, ast.Subscript) and ((isinstance(x.value, ast.Name) and x.value.id == ent) or pat.match("self.providers", x.value) is not None):
            n += 1
            if not (isinstance(x.slice, ast.Name) and x.slice.id == side):
                bad.append(x)
    if n == 0:
        raise AnalysisError("%s: no per-side access found" % spec)
    rep.check(rid, "%s|one-side" % f.name, ctx.line(f, bad[0]) if bad else f, not bad, "%d per-side accesses, all on `%s`" % (n, side),
              "%s accesses `%s`: information about side `%s` is mixed with another side" % (f.name, ast.unparse(bad[0]) if bad else "", side))


def refresh_writes_through(ctx: Ctx, rep: Report, rid: str):
    """unconditionally_get_latest - how the provider's answer becomes state: asked by the entry's id on that side (no cache), and every field
    of the answer (type, path, hash, size, mtime, existence) is written to that side on every path once info was found."""
    f = ctx.prog.func("SyncState.unconditionally_get_latest")
    ent, side = f.params()[1:3]
    one_side_only(ctx, rep, rid, "SyncState.unconditionally_get_latest", 1, 2)
    one_side_only(ctx, rep, rid, "SyncState.unconditionally_get_no_info", 1, 2)
    g = ctx.cfg(f)
    from sa.util import method_calls
    q = [c for c in method_calls(ctx, f, "self.providers[%s]" % side, "info_oid") if c.args and pat.match("%s[%s].oid" % (ent, side), c.args[0]) is not None]
    fresh = bool(q) and all(any(k.arg == "use_cache" and isinstance(k.value, ast.Constant) and k.value.value is False for k in c.keywords) for c in q)
    rep.check(rid, "get_latest|asks-provider", f, fresh, "info_oid(ent[side].oid, use_cache=False)",
              "the refresh no longer asks the provider for the entry's id with the cache bypassed: the 'truth' it records may be the provider's cached (stale) answer")
    infos = {(n.targets[0] if isinstance(n, ast.Assign) else n.target).id for n in ctx.own_nodes(f) if isinstance(n, (ast.Assign, ast.AnnAssign)) and any(n.value is c for c in q)
             and isinstance((n.targets[0] if isinstance(n, ast.Assign) else n.target), ast.Name)}
    if len(infos) != 1:
        raise AnalysisError("unconditionally_get_latest: the provider's answer is not bound to a single local")
    info = sorted(infos)[0]
    tests = [n for n in g.nodes if n.kind == "test" and pat.match("not %s" % info, n.ast) is not None]
    if not tests:
        raise AnalysisError("unconditionally_get_latest: `if not <info>` not found")
    starts = [b for t in tests for (b, l) in g.succ[t.id] if l == "F"]
    defs = {}
    for n in ctx.own_nodes(f):
        if isinstance(n, ast.Assign) and isinstance(n.targets[0], ast.Name):
            defs.setdefault(n.targets[0].id, []).append(n.value)
    for fld in ("otype", "path", "size", "mtime"):
        def store(n, fld=fld):
            r = cfg_root(n)
            if r is None or not isinstance(r, ast.Assign) or pat.match("%s[%s].%s" % (ent, side, fld), r.targets[0]) is None:
                return False
            src = {ast.unparse(x) for x in ast.walk(r.value) if isinstance(x, ast.Attribute)}
            for nm in [x.id for x in ast.walk(r.value) if isinstance(x, ast.Name)]:
                for d in defs.get(nm, []):
                    src |= {ast.unparse(x) for x in ast.walk(d) if isinstance(x, ast.Attribute)}
            return "%s.%s" % (info, fld) in src
        # the path store may be skipped only when the recorded path already equals the new one
        skip = set()
        for t in g.nodes:
            if fld == "path" and t.kind == "test" and isinstance(t.ast, ast.Compare) and len(t.ast.ops) == 1 and "%s[%s].path" % (ent, side) in (ast.unparse(t.ast.left), ast.unparse(t.ast.comparators[0])):
                if isinstance(t.ast.ops[0], ast.NotEq):
                    skip.add((t.id, "F"))
                elif isinstance(t.ast.ops[0], ast.Eq):
                    skip.add((t.id, "T"))
        pth = g.reach(starts, lambda n: n is g.exit, avoid=store, follow=lambda a, b, l: l != "exc" and (a, l) not in skip, include_src=True)
        rep.check(rid, "get_latest|info.%s" % fld, f, pth is None, "%s[%s].%s := info.%s on every path" % (ent, side, fld, fld),
                  "the provider's `%s` is not written to the state on every path of a successful refresh: the engine keeps acting on a stale %s" % (fld, fld),
                  witness=describe_path(pth) if pth else None)
    # hash: stored when it differs; files without a hash in the info ask hash_oid
    hs = [n for n in ctx.own_nodes(f) if isinstance(n, ast.Assign) and pat.match("%s[%s].hash" % (ent, side), n.targets[0]) is not None]
    from_info = [n for n in hs if ast.unparse(n.value) == "%s.hash" % info]
    okh = bool(from_info) and all(not [t for t in extra_facts_local(ctx.facts_at(f, n), [("$A == $B", False), (info, True), ("%s[%s].oid is None" % (ent, side), False)])] for n in from_info)
    rep.check(rid, "get_latest|info.hash", f, okh, "hash := info.hash whenever it differs",
              "the provider's hash is not written to the state exactly when it differs from the recorded one: a content change found by the refresh is missed")


def extra_facts_local(facts, allowed):
    from sa.util import extra_facts
    return extra_facts(facts, allowed)


def split_contract(ctx: Ctx, rep: Report, rid: str):
    """SyncState.split(ent): the LOCAL half moves to a NEW entry, the original keeps the REMOTE half; the moved half is cleared from the
    original after the move; both entries are marked changed and lose their last-synced path; the result is (remote entry, REMOTE, local
    entry, LOCAL) - callers rely on 'remote is deferred to, local is the one that gets out of the way'."""
    f = ctx.prog.func("SyncState.split")
    ent = f.params()[1]
    g = ctx.cfg(f)
    consts = {n.targets[0].id: n.value.id for n in ctx.own_nodes(f) if isinstance(n, ast.Assign) and isinstance(n.targets[0], ast.Name) and isinstance(n.value, ast.Name)
              and n.value.id in ("LOCAL", "REMOTE")}
    rets = [n for n in ctx.own_nodes(f) if isinstance(n, ast.Return) and isinstance(n.value, ast.Tuple) and len(n.value.elts) == 4]
    if len(rets) != 1:
        raise AnalysisError("SyncState.split: the 4-tuple return was not found")
    d_ent, d_side, r_ent, r_side = [ast.unparse(e) for e in rets[0].value.elts]
    side_of = lambda s: consts.get(s, s)   # noqa: E731
    rep.check(rid, "split|direction", ctx.line(f, rets[0]), side_of(d_side) == "REMOTE" and side_of(r_side) == "LOCAL", "returns (.., REMOTE, .., LOCAL)",
              "split returns sides (%s, %s): the entry that is deferred to must be the REMOTE one and the one that is replaced the LOCAL one" % (side_of(d_side), side_of(r_side)))
    news = [n for n in ctx.own_nodes(f) if isinstance(n, ast.Assign) and isinstance(n.targets[0], ast.Name) and n.targets[0].id == r_ent and pat.match("SyncEntry(self, $T)", n.value) is not None]
    keeps = [n for n in ctx.own_nodes(f) if isinstance(n, ast.Assign) and isinstance(n.targets[0], ast.Name) and n.targets[0].id == d_ent and isinstance(n.value, ast.Name) and n.value.id == ent]
    rep.check(rid, "split|entries", f, bool(news) and (bool(keeps) or d_ent == ent), "the replaced half gets a new entry, the deferred half keeps the original",
              "split no longer creates a new entry for the replaced side / no longer keeps the original entry for the deferred side")
    move = [n for n in g.nodes if cfg_root(n) is not None and isinstance(cfg_root(n), ast.Assign) and pat.match("%s[%s] = %s[%s]" % (r_ent, r_side, ent, r_side), cfg_root(n)) is not None]
    clear = [n for n in g.nodes if node_has_call(n, "%s[%s].clear()" % (d_ent, r_side))]
    p1 = g.reach([g.entry.id], lambda n: n in clear, avoid=lambda n: n in move, follow=NORMAL) if move and clear else []
    p2 = g.reach([m.id for m in move], lambda n: n is g.exit, avoid=lambda n: n in clear, follow=NORMAL) if move and clear else []
    rep.check(rid, "split|move-then-clear", f, bool(move) and bool(clear) and p1 is None and p2 is None, "the LOCAL half is moved to the new entry, then cleared from the original",
              "split does not move the replaced half to the new entry and clear it from the original afterwards on every path: the two entries share / lose the local object",
              witness=describe_path(p1 or p2) if (p1 or p2) else None)
    for (s_, e_) in ((r_side, r_ent), (d_side, d_ent)):
        mk = [n for n in g.nodes if node_has_call(n, "self.mark_changed(%s, %s)" % (s_, e_))]
        pm = g.reach([g.entry.id], lambda n: n is g.exit, avoid=lambda n: n in mk, follow=NORMAL)
        rep.check(rid, "split|changed|%s" % e_, f, bool(mk) and pm is None, "marked changed", "after a split the %s entry is not marked changed on side %s: it is never looked at again" % (e_, s_))
        rs = [n for n in g.nodes if cfg_root(n) is not None and isinstance(cfg_root(n), ast.Assign) and pat.match("%s[%s].sync_path = None" % (e_, s_), cfg_root(n)) is not None]
        pr = g.reach([g.entry.id], lambda n: n is g.exit, avoid=lambda n: n in rs, follow=NORMAL)
        rep.check(rid, "split|unsynced|%s" % e_, f, bool(rs) and pr is None, "last-synced path reset",
                  "after a split the %s entry keeps its last-synced path: it still looks synced with a peer it no longer has" % e_)


def transfer_success_chain(ctx: Ctx, rep: Report, rid: str):
    """handle_hash_diff: FINISHED is returned only after download_changed AND upload_synced both reported success; a falsy result of either is a
    PUNT (the content is transferred again later), never a silent success."""
    f = ctx.prog.func("SyncManager.handle_hash_diff")
    g = ctx.cfg(f)
    dl = [n for n in g.nodes if node_has_call(n, "self.download_changed($$$)")]
    ul = [n for n in g.nodes if node_has_call(n, "self.upload_synced($$$)")]
    if not dl or not ul:
        raise AnalysisError("handle_hash_diff: download_changed / upload_synced calls not found")
    fin = [n for n in g.nodes if n.kind == "stmt" and isinstance(n.ast, ast.Return) and isinstance(n.ast.value, ast.Name) and n.ast.value.id == "FINISHED"]
    # FINISHED reachable after the download only through the upload
    # (a test `download_changed(...) and upload_synced(...)` holds both calls: its true edge has gone through the upload)
    starts = [d.id for d in dl if d not in ul]
    p1 = g.reach(starts, lambda n: n in fin, avoid=lambda n: n in ul, follow=NORMAL) if starts else None
    for d in [d for d in dl if d in ul]:
        t = d.ast if d.kind == "test" else None
        both = isinstance(t, ast.BoolOp) and isinstance(t.op, ast.And) or (isinstance(t, ast.UnaryOp) and isinstance(t.operand, ast.BoolOp) and isinstance(t.operand.op, ast.And))
        if not both:
            p1 = p1 or [d]
    rep.check(rid, "handle_hash_diff|upload-before-finished", f, p1 is None, "after the download, FINISHED only through upload_synced",
              "handle_hash_diff can report FINISHED after the download without uploading: the change is booked as propagated", witness=describe_path(p1) if p1 else None)
    # the results are tested: a falsy download / upload result leads to PUNT
    ok = True
    detail = []
    dres = None
    for n in ctx.own_nodes(f):
        if isinstance(n, ast.Assign) and isinstance(n.targets[0], ast.Name) and isinstance(n.value, ast.Call) and pat.match("self.download_changed($$$)", n.value) is not None:
            dres = n.targets[0].id
    punts = [n for n in g.nodes if n.kind == "stmt" and isinstance(n.ast, ast.Return) and isinstance(n.ast.value, ast.Name) and n.ast.value.id == "PUNT"]
    for p_ in punts:
        facts = ctx.facts(f).facts(p_)
        for (txt, pol) in facts:
            if ((dres and txt == dres) or "download_changed(" in txt) and not pol:      # the result, in a local or tested in place
                detail.append("download")
            if "upload_synced(" in txt and not pol:
                detail.append("upload")
            if pol and " or " in txt and "not " in txt and "download_changed(" in txt and "upload_synced(" in txt:
                detail += ["download", "upload"]       # `if not (download and upload): return PUNT`: either falsy result punts
    for n in fin:
        facts = ctx.facts(f).facts(n)
        if g.reach([d.id for d in dl], lambda m, n=n: m is n, follow=NORMAL) is None:
            continue
        ok = ok and ((dres is not None and fact_in(facts, dres, True)) or any("download_changed(" in txt and pol for (txt, pol) in facts)) \
            and any("upload_synced(" in txt and pol for (txt, pol) in facts)
    rep.check(rid, "handle_hash_diff|results-tested", f, ok and {"download", "upload"} <= set(detail), "falsy download / upload result -> PUNT; FINISHED only when both truthy",
              "handle_hash_diff no longer turns a failed download / upload (falsy result) into PUNT and success into FINISHED (punt arms: %s): a transfer that did not "
              "happen is reported as done, or a successful one is retried for ever" % sorted(set(detail)))


DEFINITIONS = {
    # the predicates the state machine is written in, as read from the code and the property texts ({0} = self, {1}.. = parameters)
    "SyncManager.path_conflict":
        "{1}[0].path and {1}[1].path and (({1}[0].sync_hash and {1}[1].sync_hash) or ({1}[0].otype == DIRECTORY and {1}[1].otype == DIRECTORY)) "
        "and {1}[0].sync_path and {1}[1].sync_path and {1}[0].exists == EXISTS and {1}[1].exists == EXISTS and {1}[1].path != {0}.translate(1, {1}[0].path) "
        "and not {0}.providers[0].paths_match({1}[0].path, {1}[0].sync_path, for_display=True) "
        "and not {0}.providers[1].paths_match({1}[1].path, {1}[1].sync_path, for_display=True) and not {1}.is_temp_rename",
    "SideState.needs_sync":
        "{0}.force_sync or ({0}.changed and {0}.oid and ({0}.hash != {0}.sync_hash or {0}.parent.paths_differ({0}.side) or {0}.exists in (TRASHED, LIKELY_TRASHED, MISSING)))",
    "SyncEntry.is_creation":
        "{0}[{1}].path and {0}[{1}].exists == EXISTS and {0}[{1}].needs_sync() and "
        "(not {0}[OTHER_SIDE[{1}]].oid or {0}[OTHER_SIDE[{1}]].exists in (TRASHED, MISSING) or {0}[OTHER_SIDE[{1}]].corrupt_gone)",
    "SyncEntry.is_deletion":
        "{0}[OTHER_SIDE[{1}]].exists == EXISTS and {0}[{1}].exists in (TRASHED, MISSING) and {0}[{1}].changed",
    "SyncEntry.is_path_change": "{0}[{1}].sync_path and {0}.paths_differ({1})",
    "SyncEntry.is_rename": "{0}[{1}].sync_path and {0}[{1}].path and {0}.paths_differ({1})",
    "SyncEntry.needs_sync": "{0}[LOCAL].needs_sync() or {0}[REMOTE].needs_sync()",
    "SyncEntry.is_trash": "{0}[LOCAL].oid is None and {0}[REMOTE].oid is None",
}


def definition_holds(ctx: Ctx, rep: Report, rid: str, spec: str, consequence: str):
    """The predicate `spec` returns a truthy value under exactly the conditions of DEFINITIONS[spec] (compared as DNF normal forms: order,
    De Morgan spelling, early-return style and hoisted locals do not matter; an added, dropped or weakened condition does)."""
    from sa import predform
    f = ctx.prog.cls(spec.split(".")[0]).methods.get(spec.split(".")[1]) or ctx.prog.cls(spec.split(".")[0]).getters.get(spec.split(".")[1])
    if f is None:
        raise AnalysisError("%s vanished" % spec)
    names = f.params()
    try:
        got = predform.dnf(predform.formula(f.node))
        want = predform.dnf(predform.parse(DEFINITIONS[spec].format(*names)))
    except predform.Undecided as e:
        rep.error("rule=%s reason=undecided: %s is no longer a plain predicate (%s)" % (rid, spec, e))
        return
    rep.check(rid, "%s|definition" % spec, f, got == want, "is true exactly when %s" % predform.show(want)[:300],
              "%s is now true when %s ; the state machine was read with: %s . %s" % (spec, predform.show(got)[:500], predform.show(want)[:500], consequence))


def creation_dispatch(ctx: Ctx, rep: Report, rid: str):
    """handle_path_change_or_creation: the peer object is created (create_synced / mkdir_synced) only for a creation, only after
    check_disjoint_create looked for a clash, a file only after download_changed succeeded; handle_rename only for a non-creation."""
    f = ctx.prog.func("SyncManager.handle_path_change_or_creation")
    sync, changed = f.params()[1], f.params()[2]
    g = ctx.cfg(f)
    crt = [n for n in g.nodes if node_has_call(n, "self.create_synced($$$)")]
    mkd = [n for n in g.nodes if node_has_call(n, "self.mkdir_synced($$$)")]
    ren = [n for n in g.nodes if node_has_call(n, "self.handle_rename($$$)")]
    chk = [n for n in g.nodes if node_has_call(n, "self.check_disjoint_create($$$)")]
    dl = [n for n in g.nodes if node_has_call(n, "self.download_changed($$$)")]
    if not (crt and mkd and ren and dl):
        raise AnalysisError("handle_path_change_or_creation: create / mkdir / rename / download call missing")
    if not chk:
        rep.violation(rid, "creation|clash-check", f, "handle_path_change_or_creation no longer calls check_disjoint_create: a creation is sent to the peer without looking for "
                      "an object that already has that name there (one of two different files is overwritten / adopted silently)")
    isc = "%s.is_creation(%s)" % (sync, changed)
    for what, nodes in (("create_synced", crt), ("mkdir_synced", mkd)):
        okf = all(fact_in(ctx.facts(f).facts(n), isc, True) for n in nodes)
        from sa.pathsens import find_path
        p1 = find_path(g, [g.entry.id], lambda n, nodes=nodes: n in nodes, avoid=lambda n: n in chk, follow=NORMAL)
        # the clash check must have said "no clash": its true edge leaves
        tests = [n for n in chk if n.kind == "test"]
        p2 = None
        for t in tests:
            ts = [b for (b, l) in g.succ[t.id] if l == "T"]
            p2 = p2 or g.reach(ts, lambda n, nodes=nodes: n in nodes, follow=NORMAL, include_src=True)
        rep.check(rid, "creation|%s" % what, f, okf and p1 is None and p2 is None and bool(tests), "%s only for a creation, after the clash check said no" % what,
                  "%s can be reached %s: an object is created on the peer without checking for an existing object of that name (or although one was found)" %
                  (what, "outside `is_creation`" if not okf else "without / against check_disjoint_create"), witness=describe_path(p1 or p2) if (p1 or p2) else None)
    # a file is created only after a successful download
    dt = [n for n in dl if n.kind == "test"]
    p3 = g.reach([g.entry.id], lambda n: n in crt, avoid=lambda n: n in dl, follow=NORMAL)
    p4 = None
    for t in dt:
        neg = isinstance(t.ast, ast.UnaryOp) and isinstance(t.ast.op, ast.Not)
        bad = [b for (b, l) in g.succ[t.id] if l == ("T" if neg else "F")]
        p4 = p4 or g.reach(bad, lambda n: n in crt, follow=NORMAL, include_src=True)
    rep.check(rid, "creation|download-first", f, p3 is None and p4 is None and bool(dt), "create_synced only after download_changed succeeded",
              "create_synced can run without a successful download of the content: the peer file is created from a missing / stale temp file",
              witness=describe_path(p3 or p4) if (p3 or p4) else None)
    okr = all(fact_in(ctx.facts(f).facts(n), isc, False) for n in ren)
    rep.check(rid, "rename|not-a-creation", f, okr, "handle_rename only when the change is not a creation",
              "handle_rename is reached for a creation: the engine renames a peer object that was never synced with this one")


def embrace_dispatch(ctx: Ctx, rep: Report, rid: str):
    """embrace_change is a dispatch on the state of the changed side: gone for good -> peer delete; missing -> handle_changed_is_missing;
    renamed or new -> handle_path_change_or_creation; content differs (or the peer copy is corrupt) -> handle_hash_diff.  Each call is
    reached under exactly its own condition (plus 'not discarded', 'nothing handled it before', and the negations of the earlier arms)."""
    from sa.util import extra_facts
    f = ctx.prog.func("SyncManager.embrace_change")
    sync, ch, sy = f.params()[1:4]
    S = {"s": sync, "c": ch, "y": sy}
    table = {
        "handle_changed_is_missing": (["{s}[{c}].exists == MISSING"], []),
        "handle_path_change_or_creation": (["{s}.is_path_change({c}) or {s}.is_creation({c})"], ["{s}[{c}].exists == MISSING"]),
        "handle_hash_diff": (["{s}[{c}].hash != {s}[{c}].sync_hash or {s}[{y}].is_corrupt and not {s}[{y}].corrupt_gone"], ["{s}[{c}].exists == MISSING"]),
    }
    common_false = ["{s}.is_discarded", "{s}[{c}].exists == TRASHED"]
    for name, (must_true, must_false) in table.items():
        calls = [n for n in ctx.own_nodes(f) if isinstance(n, ast.Call) and pat.match("self.%s($$$)" % name, n) is not None]
        if not calls:
            rep.violation(rid, "embrace_change|%s" % name, f, "embrace_change no longer dispatches to %s" % name)
            continue
        for c_ in calls:
            facts = ctx.facts_at(f, c_)
            from sa.guards import nnf
            want_t = [ast.unparse(nnf(pat.compile_pat(t.format(**S)))) for t in must_true]
            want_f = [t.format(**S) for t in must_false + common_false]
            allowed = [(t, True) for t in want_t] + [(t, False) for t in want_f] + [("$H is None", True)]
            have_all = all(fact_in(facts, t, True) for t in want_t) and all(fact_in(facts, t, False) for t in want_f)
            extra = extra_facts(facts, allowed)
            args = [ast.unparse(a) for a in c_.args]
            side_ok = ch in args and sync in args
            rep.check(rid, "embrace_change|%s" % name, ctx.line(f, c_), have_all and not extra and side_ok, "reached exactly when %s" % " and ".join(want_t),
                      "%s is dispatched under %s (expected: %s true; %s false; nothing else): the state machine takes the wrong arm for some state of the changed side" %
                      (name, sorted(facts), want_t, want_f))


def uploads_read_the_changed_sides_download(ctx: Ctx, rep: Report, rid: str):
    """upload_synced / _create_synced send the bytes that were downloaded from the CHANGED side: every temp file they open is
    `sync[changed].temp_file`, and download_changed keys that temp file to the current content (make_temp_file) before it looks at it."""
    from sa.util import side_names
    for spec in ("SyncManager.upload_synced", "SyncManager._create_synced"):
        f = ctx.prog.func(spec)
        chn, syn = side_names(ctx, f)
        sync = [p for p in f.params()[1:] if p not in (chn, syn)]
        sync = sync[0] if sync else "sync"
        opens = [n for n in ctx.own_nodes(f) if isinstance(n, ast.Call) and isinstance(n.func, ast.Name) and n.func.id == "open" and n.args]
        if not opens:
            raise AnalysisError("%s: no temp file is opened" % spec)
        for o in opens:
            ok = pat.match("%s[%s].temp_file" % (sync, chn), o.args[0]) is not None
            rep.check(rid, "%s|%s" % (f.name, ast.unparse(o)[:50]), ctx.line(f, o), ok, "reads %s[%s].temp_file" % (sync, chn),
                      "%s opens `%s`: the bytes sent to the peer are not the changed side's download" % (f.name, ast.unparse(o.args[0])))
    d = ctx.prog.func("SyncManager.download_changed")
    g = ctx.cfg(d)
    chn = d.params()[1]
    sync = d.params()[2]
    mk = [n for n in g.nodes if node_has_call(n, "self.make_temp_file(%s[%s])" % (sync, chn))]
    uses = [n for n in g.nodes if n not in mk and cfg_root(n) is not None and any(isinstance(x, ast.Attribute) and x.attr == "temp_file" for x in ast.walk(cfg_root(n)))]
    pth = g.reach([g.entry.id], lambda n: n in uses, avoid=lambda n: n in mk, follow=NORMAL)
    rep.check(rid, "download_changed|fresh-temp-name", d, bool(mk) and pth is None, "make_temp_file(sync[changed]) before the temp file is looked at",
              "download_changed looks at sync[changed].temp_file without re-keying it to the current content first: a download of older content is reused",
              witness=describe_path(pth) if pth else None)
    # reuse only when the file is there; otherwise download
    ex_t = [n for n in g.nodes if n.kind == "test" and any(isinstance(x, ast.Call) and ast.unparse(x.func) == "os.path.exists" for x in ast.walk(n.ast))]
    dl = [n for n in g.nodes if node_has_call(n, "$P.download($$$)")]
    okx = bool(ex_t) and bool(dl)
    for t in ex_t:
        neg = isinstance(t.ast, ast.UnaryOp) and isinstance(t.ast.op, ast.Not)
        exists_edge = [b for (b, l) in g.succ[t.id] if l == ("F" if neg else "T")]
        okx = okx and g.reach(exists_edge, lambda n: n in dl, follow=NORMAL, include_src=True) is None
    rep.check(rid, "download_changed|reuse-only-existing", d, okx, "an existing temp file is reused, a missing one is downloaded",
              "download_changed downloads when the temp file exists and reuses it when it does not: the upload that follows finds no file")


def parent_first_priorities(ctx: Ctx, rep: Report, rid: str):
    """embrace_change, gentle punt behind a changed parent folder: with m = min(child priority, parent priority), in BOTH cases (m < 0, m >= 0) the
    parent ends strictly below (= ahead of) the child, and in the case m >= 0 neither priority becomes negative (negative = 'immediately, skip ageing')."""
    from sa import linear
    ec = ctx.prog.func("SyncManager.embrace_change")
    sy = ec.params()[1]
    cf = local_assigned_from(ctx, ec, "self._get_parent_conflict($$$)")
    if cf is None:
        raise AnalysisError("embrace_change: parent conflict is not bound to a single local")
    mp = None
    for n_ in ctx.own_nodes(ec):
        if isinstance(n_, ast.Assign) and isinstance(n_.targets[0], ast.Name) and isinstance(n_.value, ast.Call) and pat.match("min(%s.priority, %s.priority)" % (sy, cf), n_.value) is not None:
            mp = n_.targets[0].id
    if mp is None:
        raise AnalysisError("embrace_change: `min(child.priority, parent.priority)` not found")
    asg = []
    for n_ in ctx.own_nodes(ec):
        if isinstance(n_, ast.Assign) and isinstance(n_.targets[0], ast.Attribute) and n_.targets[0].attr == "priority" and isinstance(n_.targets[0].value, ast.Name) \
                and n_.targets[0].value.id in (sy, cf) and any(isinstance(x, ast.Name) and x.id == mp for x in ast.walk(n_.value)):
            facts = ctx.facts_at(ec, n_)
            case = "neg" if fact_in(facts, "%s < 0" % mp, True) else ("nonneg" if fact_in(facts, "%s < 0" % mp, False) else "both")
            asg.append((case, n_.targets[0].value.id, n_))
    if not asg:
        raise AnalysisError("embrace_change: the priority assignments of the parent-conflict punt were not found")
    sym = lambda e: "m" if isinstance(e, ast.Name) and e.id == mp else None   # noqa: E731
    for case in ("neg", "nonneg"):
        d = {}
        for (cs, who, n_) in asg:
            if cs in (case, "both"):
                d[who] = n_
        ok = sy in d and cf in d
        detail = "both priorities must be assigned when m %s 0" % ("<" if case == "neg" else ">=")
        if ok:
            try:
                a, b = linear.linear(d[cf].value, sym), linear.linear(d[sy].value, sym)
            except linear.Undecided as e_:
                rep.error("rule=%s reason=undecided: %s" % (rid, e_))
                continue
            diff = {k: a.get(k, 0) - b.get(k, 0) for k in set(a) | set(b)}
            diff = {k: v for k, v in diff.items() if v != 0}
            ok = set(diff) == {"1"} and diff["1"] < 0 and a.get("m", 0) == 1 and b.get("m", 0) == 1
            if case == "nonneg":
                ok = ok and a.get("1", 0) >= 0 and b.get("1", 0) >= 0
            detail = "m %s 0: parent = m%+g, child = m%+g" % ("<" if case == "neg" else ">=", float(a.get("1", 0)), float(b.get("1", 0)))
        rep.check(rid, "embrace_change|parent-first|%s" % ("m<0" if case == "neg" else "m>=0"), ctx.line(ec, d.get(cf, d.get(sy, asg[0][2]))), ok, detail,
                  "after the gentle punt: %s - the blocking parent must end strictly ahead of its child, and a priority that was >= 0 must stay >= 0 (a negative priority "
                  "means 'now': it skips ageing for ever after, it is only recomputed on a path change)" % detail)


def rename_copy_guard(ctx: Ctx, rep: Report, rid: str):
    """SyncState.update, rename on a path-id provider: the other side's half of the entry that already owns the NEW id is grafted onto the rename-from
    entry only when that entry has no other-side id of its own - a genuine synced peer is never overwritten."""
    f = ctx.prog.func("SyncState.update")
    side = f.params()[1]
    st = [n for n in ctx.own_nodes(f) if isinstance(n, ast.Assign) and isinstance(n.targets[0], ast.Subscript) and isinstance(n.targets[0].value, ast.Name)
          and isinstance(n.value, ast.Name) and pat.match("$E[1 - %s]" % side, n.targets[0]) is not None]
    if not st:
        raise AnalysisError("SyncState.update: the graft `ent[1 - side] = <copy>` was not found")
    for n in st:
        e = ast.unparse(n.targets[0].value)
        facts = ctx.facts_at(f, n)
        rep.check(rid, "update|graft-guard", ctx.line(f, n), fact_in(facts, "%s[1 - %s].oid" % (e, side), False) and fact_in(facts, n.value.id, True),
                  "grafted only onto an entry without an other-side id", "`%s` is executed although the entry may already have an other-side id (facts %s): the rename-from entry's "
                  "own synced peer is overwritten by the peer of the entry that owned the new name - the renamed object ends up at both its old and its new path" %
                  (ast.unparse(n), sorted(facts)))


def codec_keeps_tuples(ctx: Ctx, rep: Report, rid: str):
    """Deserialisation gives back what was serialised: msgpack.loads is called with use_list=False (tuples stay tuples - a provider's multi-part hash
    loaded as a list never equals the tuple the provider reports) and raw=False in every deserialize of the state."""
    n = 0
    for spec in ("SideState.deserialize", "SyncEntry.deserialize"):
        try:
            f = ctx.prog.func(spec)
        except AnalysisError:
            continue
        for c_ in [x for x in ctx.own_nodes(f) if isinstance(x, ast.Call) and ast.unparse(x.func) in ("msgpack.loads", "msgpack.unpackb")]:
            n += 1
            kw = {k.arg: k.value for k in c_.keywords}
            ok = isinstance(kw.get("use_list"), ast.Constant) and kw["use_list"].value is False
            rep.check(rid, "%s|use_list" % spec, ctx.line(f, c_), ok, "msgpack.loads(..., use_list=False)",
                      "%s loads stored arrays as lists: a reloaded tuple hash / sync_hash no longer equals the provider's tuple, every entry re-examined after a restart "
                      "looks changed on both sides (spurious conflicts, renames to .conflicted)" % spec)
    if n == 0:
        raise AnalysisError("no msgpack.loads call found in the state's deserialize methods")


def walk_propagates_faults(ctx: Ctx, rep: Report, rid: str):
    """Provider._walk / walk / walk_oid swallow nothing but 'this folder disappeared' (CloudFileNotFoundError): a transient fault while listing a
    folder propagates, so the caller does not take a partial walk for a complete one."""
    P = ctx.prog.cls("Provider")
    n = 0
    for name in ("_walk", "walk", "walk_oid"):
        f = P.methods.get(name)
        if f is None:
            continue
        for t in [x for x in ctx.own_nodes(f) if isinstance(x, ast.Try)]:
            for h in t.handlers:
                n += 1
                names = [ast.unparse(e).split(".")[-1] for e in (h.type.elts if isinstance(h.type, ast.Tuple) else [h.type])] if h.type is not None else ["BaseException"]
                reraises = any(isinstance(x, ast.Raise) for b in h.body for x in ast.walk(b))
                ok = reraises or set(names) <= {"CloudFileNotFoundError"}
                rep.check(rid, "Provider.%s|handler" % name, ctx.line(f, h), ok, "swallows only CloudFileNotFoundError",
                          "Provider.%s swallows %s: a folder that cannot be listed right now is silently left out of the walk, the walk counts as complete (marker "
                          "written), nothing is reported and the skipped content is never synced" % (name, names))
    if n == 0:
        raise AnalysisError("Provider._walk has no exception handler any more (positive control)")


def pathless_event_takes_known_path(ctx: Ctx, rep: Report, rid: str):
    """EventManager._fill_event_path: an event without a path takes the path the state knows for its id, whatever the ignore status of that entry
    (a discarded entry is exactly the one whose re-creation has to be recognised)."""
    from sa.util import extra_facts
    f = ctx.prog.func("EventManager._fill_event_path")
    ev = f.params()[1]
    st = [n for n in ctx.own_nodes(f) if isinstance(n, ast.Assign) and pat.match("%s.path" % ev, n.targets[0]) is not None]
    if not st:
        rep.violation(rid, "_fill_event_path|fill", f, "_fill_event_path no longer fills the event's path from the state")
        return
    ent = local_assigned_from(ctx, f, "self.state.lookup_oid(self.side, %s.oid)" % ev) or "state"
    for n in st:
        facts = ctx.facts_at(f, n)
        extra = extra_facts(facts, [(ent, True), ("%s.path" % ev, False), ("%s.prior_oid" % ev, True), ("%s.prior_oid" % ev, False)])
        src_ok = pat.match("%s[self.side].path" % ent, n.value) is not None
        rep.check(rid, "_fill_event_path|fill", ctx.line(f, n), fact_in(facts, ent, True) and not extra and src_ok, "filled whenever the id is known",
                  "the path of a path-less event is filled from the state only under the extra condition(s) %s: e.g. a re-creation reported without its path lands on the "
                  "discarded entry of the old object and is finished without being synced" % (extra or "(source `%s`)" % ast.unparse(n.value)))


def remote_listing_independent_of_local(ctx: Ctx, rep: Report, rid: str):
    """SmartCloudSync.smart_listdir_path: the remote half of the merged listing is computed whether or not the local listing succeeded - the loop over
    state.smart_listdir_path(REMOTE, ..) is reached after the CloudFileNotFoundError handler of the local listdir too."""
    f = ctx.prog.func("SmartCloudSync.smart_listdir_path")
    g = ctx.cfg(f)
    rem = [n for n in g.nodes if node_has_call(n, "self.state.smart_listdir_path(REMOTE, $P)")]
    hs = [n for n in g.nodes if n.kind == "except" and n.handler_types and "CloudFileNotFoundError" in n.handler_types]
    if not rem or not hs:
        raise AnalysisError("smart_listdir_path: remote listing / local not-found handler not found")
    for h in hs:
        p_ = g.reach([h.id], lambda n: n in rem, follow=NORMAL)
        rep.check(rid, "smart_listdir_path|remote-after-local-failure", ctx.line(f, h.ast), p_ is not None, "the remote listing is reached from the not-found handler",
                  "when the local folder does not exist the remote half of the listing is skipped too: files that exist only in the cloud disappear from the merged listing")


def resolution_bookkeeping(ctx: Ctx, rep: Report, rid: str):
    """resolve_conflict, one side picked: keep -> the loser's entry is flagged CONFLICT and its winner-side half cleared (a stale change recorded on that half
    must never act on the .conflicted copy), the winner's own sync markers are reset so that it is sent over; not keep -> the winner half is grafted onto the
    loser's entry, the emptied entry discarded and all four sync markers set (both sides hold the winner's content now)."""
    f = ctx.prog.func("SyncManager.resolve_conflict")
    g = ctx.cfg(f)
    keep = local_assigned_from(ctx, f, "self.__safe_call_resolver($$$)", 1)
    defs = {}
    for n in ctx.own_nodes(f):
        if isinstance(n, ast.Assign) and isinstance(n.targets[0], ast.Name):
            defs.setdefault(n.targets[0].id, []).append(n.value)
    rs = [k for k, v in defs.items() if any(pat.match("OTHER_SIDE[$D]", x) is not None for x in v)]
    if keep is None or len(rs) != 1:
        raise AnalysisError("resolve_conflict: keep / replace side not identified")
    rside = rs[0]
    dside = ast.unparse(pat.match("OTHER_SIDE[$D]", defs[rside][0])["D"])
    rent = [k for k, v in defs.items() if any(pat.match("self.state.lookup_oid(%s, $O)" % rside, x) is not None for x in v)]
    dent = [k for k, v in defs.items() if any(pat.match("self.state.lookup_oid(%s, $O)" % dside, x) is not None for x in v)]
    if len(rent) != 1 or len(dent) != 1:
        raise AnalysisError("resolve_conflict: loser / winner entries not identified")
    R, D = rent[0], dent[0]
    tests = [n for n in g.nodes if n.kind == "test" and pat.match(keep, n.ast) is not None and fact_in(ctx.facts(f).facts(n), "%s is None" % dside, False)]
    if not tests:
        raise AnalysisError("resolve_conflict: `if keep:` of the one-side-picked arm not found")
    t = tests[0]
    joins = [n for n in g.nodes if node_has_call(n, "log.info('RESOLVED CONFLICT: %s side: %s', $$$)")] or [g.exit]

    def must(edge, what, pred, cond_tests=()):
        starts = [b for (b, l) in g.succ[t.id] if l == edge]
        skip = set(cond_tests)
        p_ = g.reach(starts, lambda n: n in joins or n is g.exit, avoid=pred, follow=lambda a, b, l: l != "exc" and (a, l) not in skip, include_src=True)
        rep.check(rid, "resolve_conflict|%s|%s" % ("keep" if edge == "T" else "merge", what), ctx.line(f, t.ast), p_ is None, what,
                  "resolve_conflict (%s arm) can finish without `%s`: %s" % ("keep" if edge == "T" else "not keep", what,
                  "the .conflicted copy keeps a stale half that a later event acts on (the kept version is deleted / overwritten), or the winner is never sent over" if edge == "T"
                  else "the two sides are not booked as holding the winner's content: duplicate entries / the resolution is re-done or echoed"), witness=describe_path(p_) if p_ else None)
    a_ = lambda patt: (lambda n: cfg_root(n) is not None and isinstance(cfg_root(n), ast.Assign) and pat.match(patt, cfg_root(n)) is not None)   # noqa: E731
    rtests = {(n.id, "F") for n in g.nodes if n.kind == "test" and pat.match(R, n.ast) is not None}
    must("T", "%s.ignore(IgnoreReason.CONFLICT)" % R, lambda n: node_has_call(n, "%s.ignore(IgnoreReason.CONFLICT)" % R), rtests)
    must("T", "%s[%s].clear()" % (R, dside), lambda n: node_has_call(n, "%s[%s].clear()" % (R, dside)), rtests)
    must("T", "%s[%s].sync_path = None" % (D, dside), a_("%s[%s].sync_path = None" % (D, dside)))
    must("T", "%s[%s].sync_hash = None" % (D, dside), a_("%s[%s].sync_hash = None" % (D, dside)))
    must("F", "%s[%s] = %s[%s]" % (R, dside, D, dside), a_("%s[%s] = %s[%s]" % (R, dside, D, dside)))
    must("F", "%s.ignore(IgnoreReason.DISCARDED)" % D, lambda n: node_has_call(n, "%s.ignore(IgnoreReason.DISCARDED)" % D))
    must("F", "%s[%s].sync_path = %s[%s].path" % (R, rside, R, rside), a_("%s[%s].sync_path = %s[%s].path" % (R, rside, R, rside)))
    must("F", "%s[%s].sync_hash = %s[%s].hash" % (R, rside, R, rside), a_("%s[%s].sync_hash = %s[%s].hash" % (R, rside, R, rside)))
    must("F", "%s[%s].sync_hash = %s[%s].hash" % (R, dside, R, dside), a_("%s[%s].sync_hash = %s[%s].hash" % (R, dside, R, dside)))
    must("F", "%s[%s].sync_path = translate(...)" % (R, dside), a_("%s[%s].sync_path = self.translate(%s, %s[%s].path)" % (R, dside, dside, R, rside)))


def content_first_deferral(ctx: Ctx, rep: Report, rid: str):
    """sync(): a side whose own content is unchanged yields to the other side whenever that side has a pending CONTENT change - under no further
    condition.  (This is what makes 'edit wins over a concurrent move-out / rename': the edit is transferred before the path change is acted on.)"""
    from sa.util import extra_facts
    f = ctx.prog.func("SyncManager.sync")
    g = ctx.cfg(f)
    sy = f.params()[1]
    loops = [n for n in g.nodes if n.kind == "iter" and isinstance(n.ast.target, ast.Name)]
    if not loops:
        raise AnalysisError("SyncManager.sync: side loop not found")
    sv = loops[0].ast.target.id
    found = 0
    for n in g.nodes:
        if n.kind == "stmt" and isinstance(n.ast, ast.Continue):
            facts = ctx.facts(f).facts(n)
            oth = [m["O"] for m in [pat.match("%s[$O].hash == %s[$O].sync_hash" % (sy, sy), ast.parse(t, mode="eval").body) for (t, p) in facts if not p and ".sync_hash" in t] if m is not None]
            if not oth or not any(pol and pat.match("%s[$O].changed" % sy, ast.parse(t, mode="eval").body) is not None for (t, pol) in facts):
                continue
            found += 1
            o = ast.unparse(oth[0])
            allowed = [("%s.hash_conflict()" % sy, False), ("%s[%s].hash == %s[%s].sync_hash" % (sy, sv, sy, sv), True), ("%s[%s].changed" % (sy, o), True),
                       ("%s[%s].hash == %s[%s].sync_hash" % (sy, o, sy, o), False), ("%s[%s].needs_sync()" % (sy, sv), True)]
            atomic = [(t, p) for (t, p) in facts if not isinstance(ast.parse(t, mode="eval").body, ast.BoolOp)]
            extra = extra_facts(atomic, allowed)
            rep.check(rid, "sync|content-first", ctx.line(f, n.ast), not extra and fact_in(facts, "%s[%s].hash == %s[%s].sync_hash" % (sy, sv, sy, sv), True),
                      "deferral to the other side's pending content change is unconditional",
                      "the deferral to a pending content change of the other side is taken only under the extra condition(s) %s: a path change (rename, move out of the root) of "
                      "this side is acted on first - for a move-out that deletes the peer copy holding the only version of the newer edit" % extra)
    if found == 0:
        rep.violation(rid, "sync|content-first", f, "sync() no longer defers to the other side's pending content change when this side's content is unchanged")


# (function, provider method) -> the path condition under which the engine issues that write, as (pattern, polarity) literals; every literal must be
# present and nothing else may be ($X = any expression).  Read from the pinned tree; each literal is what keeps the write from happening in a state
# where it destroys or duplicates something (see the rule texts of C02.R1-R3, C04.R5, C05.V9 for the individual reasons).
WRITE_CONDITIONS = {
    ("_smart_unsync_ent", "delete"): [("$E[LOCAL].path", True), ("$I", True)],
    ("smart_rename", "rename"): [("self.providers[$O].exists_path($P)", False)],
    ("unsafe_mkdir_synced", "mkdirs"): [("$C", False)],
    ("upload_synced", "upload"): [],
    ("_create_synced", "create"): [],
    ("__resolver_merge_upload", "create"): [("$K", True)],
    ("resolve_conflict", "upload"): [("$F is $R", False), ("$K", False)],
    ("delete_synced", "delete"): [("$S[$Y].oid", True)],
    ("handle_rename", "rename"): [("self.providers[$Y].paths_match($T, $S[$Y].sync_path, for_display=True)", False), ("$S[$Y].sync_path == $T", False)],
    ("handle_rename", "delete"): [("$C[LOCAL].needs_sync()", False), ("$C[REMOTE].needs_sync()", False), ("$L", True),
                                  ("self.providers[$Y].paths_match($T, $S[$Y].sync_path, for_display=True)", False), ("$S.priority <= 0", False), ("$S[$Y].sync_path == $T", False)],
    # the same condition asked of the entry (SyncEntry.needs_sync is 'either side needs sync', C01.R15)
    ("handle_rename", "delete", "alt"): [("$C.needs_sync()", False), ("$L", True),
                                         ("self.providers[$Y].paths_match($T, $S[$Y].sync_path, for_display=True)", False), ("$S.priority <= 0", False), ("$S[$Y].sync_path == $T", False)],
    ("conflict_rename", "rename"): [("$N is None", True), ("$I", True)],
}


def provider_write_conditions(ctx: Ctx, rep: Report, rid: str):
    """Every provider-mutating call of the engine is issued under exactly the path condition recorded in WRITE_CONDITIONS (facts at the call,
    read through extracted helpers; compound literals in negation normal form): a strengthened, weakened or inverted guard in front of a write
    is a change of WHEN the engine writes to a user's storage."""
    from sa.effects import Effects
    from sa.ctx import ENGINE_MODULES
    eff = Effects(ctx)
    seen = set()
    for f in ctx.prog.functions.values():
        if f.module.name not in ENGINE_MODULES:
            continue
        for c_ in eff.provider_mutations(f):
            owner = f if (f.name, c_.func.attr) in WRITE_CONDITIONS else ctx.owner(f)
            key = (owner.name, c_.func.attr)
            if key not in WRITE_CONDITIONS:
                rep.violation(rid, "%s|%s" % key, ctx.line(f, c_), "`%s` in %s is a provider write that is not in the inventory of the engine's writes" % (ast.unparse(c_)[:60], f.name), func=f.qname)
                continue
            seen.add(key)
            facts = _site_facts(ctx, f, c_)
            variants = [WRITE_CONDITIONS[key]] + ([WRITE_CONDITIONS[key + ("alt",)]] if key + ("alt",) in WRITE_CONDITIONS else [])
            verdicts = [_match_condition(facts, w) for w in variants]
            best = min(verdicts, key=lambda v: len(v[0]) + len(v[1]))
            unmatched_facts, missing, want = best[0], best[1], variants[verdicts.index(best)]
            rep.check(rid, "%s|%s@%s" % (key[0], key[1], stmt_key_short(c_)), ctx.line(f, c_), not unmatched_facts and not missing, "issued under %s" % (sorted(facts) or "no condition"),
                      "the provider write `%s` in %s is issued under %s - expected exactly %s (extra: %s, missing: %s)" % (
                          ast.unparse(c_)[:60], f.name, sorted(facts), want, unmatched_facts, missing), func=f.qname)
            continue
            unmatched_facts = []
            used = set()
            for (txt, pol) in sorted(facts):
                try:
                    e_ = ast.parse(txt, mode="eval").body
                except SyntaxError:
                    unmatched_facts.append((txt, pol))
                    continue
                hit = None
                for i, (p_, ppol) in enumerate(want):
                    if ppol == pol and pat.match(p_, e_) is not None and i not in used:
                        hit = i
                        break
                if hit is None:
                    # a second occurrence of an already used pattern is fine only if identical polarity+pattern exists (metavariables differ)
                    if any(ppol == pol and pat.match(p_, e_) is not None for (p_, ppol) in want):
                        continue
                    unmatched_facts.append((txt, pol))
                else:
                    used.add(hit)
            missing = [want[i] for i in range(len(want)) if i not in used]
            rep.check(rid, "%s|%s@%s" % (key[0], key[1], stmt_key_short(c_)), ctx.line(f, c_), not unmatched_facts and not missing, "issued under %s" % (sorted(facts) or "no condition"),
                      "the provider write `%s` in %s is issued under %s - expected exactly %s (extra: %s, missing: %s)" % (
                          ast.unparse(c_)[:60], f.name, sorted(facts), want, unmatched_facts, missing), func=f.qname)
    for key in [k for k in WRITE_CONDITIONS if len(k) == 2]:
        if key not in seen:
            rep.note(rid, "%s|%s" % key, "-", "inventoried write not found on this tree (the mechanism changed; the rules that own it decide)")
    if len(seen) < 9:
        raise AnalysisError("only %d of the engine's provider writes were found" % len(seen))


def _site_facts(ctx, f, node):
    """facts at a site of a function of the pinned tree; for a helper that is not in the inventory (and could not be spliced back), the facts of its call site too"""
    from sa.reinline import inventory
    known = set(inventory().get(f.module.name, []))
    if f.cls is not None and "%s.%s" % (f.cls.name, f.name) in known:
        return ctx.facts_at(f, node)
    return ctx.facts_inlined(f, node)


def _match_condition(facts, want):
    """(facts that match no wanted literal, wanted literals no fact matches) under a maximum one-to-one matching of facts to wanted patterns
    (a bare metavariable matches anything, so first-come matching would let it steal the fact a specific pattern needs)."""
    facts = sorted(facts)
    parsed = []
    for (txt, pol) in facts:
        try:
            parsed.append(ast.parse(txt, mode="eval").body)
        except SyntaxError:
            parsed.append(None)
    adj = []
    for i, (txt, pol) in enumerate(facts):
        adj.append([j for j, (p_, ppol) in enumerate(want) if parsed[i] is not None and ppol == pol and pat.match(p_, parsed[i]) is not None])
    match_w = {}        # wanted index -> fact index

    def try_fact(i, seen):
        for j in sorted(adj[i], key=lambda j: -len(want[j][0])):
            if j in seen:
                continue
            seen.add(j)
            if j not in match_w or try_fact(match_w[j], seen):
                match_w[j] = i
                return True
        return False
    for i in sorted(range(len(facts)), key=lambda i: len(adj[i])):
        try_fact(i, set())
    matched_f = set(match_w.values())
    unmatched = [facts[i] for i in range(len(facts)) if i not in matched_f]
    missing = [want[j] for j in range(len(want)) if j not in match_w]
    return unmatched, missing


def stmt_key_short(node) -> str:
    return ast.unparse(node)[:40]


_KEEP_NAMES = {"self", "LOCAL", "REMOTE", "FILE", "DIRECTORY", "NOTKNOWN", "TRASHED", "MISSING", "EXISTS", "UNKNOWN", "LIKELY_TRASHED", "IgnoreReason", "OTHER_SIDE",
               "FINISHED", "PUNT", "REQUEUE", "True", "False", "None", "other_side", "len", "isinstance"}


def generalise(txt: str) -> str:
    """fact / call text with every plain name that is not a constant of the package replaced by a metavariable ($a, $b, ... in order of appearance)"""
    e = ast.parse(txt, mode="eval")
    names = {}

    class G(ast.NodeTransformer):
        def visit_Name(self, n):
            if n.id in _KEEP_NAMES or n.id.isupper():
                return n
            names.setdefault(n.id, "__mv_%s" % "abcdefghijklmnop"[len(names) % 16])
            return ast.copy_location(ast.Name(id=names[n.id], ctx=n.ctx), n)
    out = ast.unparse(G().visit(e))
    return out.replace("__mv_", "$")


def disposal_sites(ctx: Ctx):
    """(key, function, call, facts) for every ignore / unignore / clear call on an entry or an entry half in the engine's decision code."""
    out = []
    counts = {}
    for f in sorted(ctx.prog.functions.values(), key=lambda x: (x.module.name, x.node.lineno)):
        if f.module.name not in ("cloudsync.sync.manager", "cloudsync.smartsync", "cloudsync.event") or isinstance(f.node, ast.Lambda):
            continue
        calls = sorted([n for n in ctx.own_nodes(f) if isinstance(n, ast.Call) and isinstance(n.func, ast.Attribute) and n.func.attr in ("ignore", "unignore", "clear")
                        and not ast.unparse(n.func.value).startswith("self._") and not ast.unparse(n.func.value).startswith("self.")], key=lambda n: (n.lineno, n.col_offset))
        from sa.reinline import inventory
        known = set(inventory().get(f.module.name, []))
        for c_ in calls:
            # a function of the pinned tree is its own owner; a helper that could not be spliced back is read as part of its caller
            owner = f if (f.cls is not None and "%s.%s" % (f.cls.name, f.name) in known) else ctx.owner(f)
            shape = generalise(ast.unparse(ast.Call(func=c_.func, args=c_.args[:1], keywords=[])))
            k0 = "%s|%s" % (owner.name, shape)
            counts[k0] = counts.get(k0, 0) + 1
            out.append(("%s#%d" % (k0, counts[k0]), f, c_, _site_facts(ctx, f, c_)))
    return out


def disposal_conditions(ctx: Ctx, rep: Report, rid: str):
    """Every place where the engine ignores / un-ignores an entry or clears one of its halves does so under exactly one of the path conditions recorded
    for that function and call shape in rules/disposal.json.  These calls decide that a change will NOT be propagated (or that an entry starts over);
    a guard that is strengthened, weakened or inverted in front of one of them changes which user changes are dropped."""
    import json
    import os
    p = os.path.join(os.path.dirname(os.path.abspath(__file__)), "disposal.json")
    raw = json.load(open(p))
    table = {}
    for key, cond in raw.items():
        table.setdefault(key.split("#")[0], []).append([(t, p_) for (t, p_) in cond])
    groups = {}
    n = 0
    for key, f, c_, facts in disposal_sites(ctx):
        n += 1
        groups.setdefault(key.split("#")[0], []).append((f, c_, facts))
    for grp, sites in sorted(groups.items()):
        conds = list(table.get(grp, []))
        if not conds:
            for (f, c_, facts) in sites:
                rep.violation(rid, grp, ctx.line(f, c_), "`%s` in %s: an entry is ignored / cleared at a site that is not in the inventory (facts %s)" % (ast.unparse(c_)[:60], f.name, sorted(facts)), func=f.qname)
            continue
        free = list(range(len(conds)))
        pending = []
        for (f, c_, facts) in sites:
            hit = [j for j in free if _match_condition(facts, conds[j]) == ([], [])]
            if hit:
                free.remove(hit[0])
                rep.ok(rid, "%s@%d" % (grp, conds.index(conds[hit[0]]) + 1), ctx.line(f, c_), "under %s" % (sorted(facts) or "no condition"), func=f.qname)
            else:
                pending.append((f, c_, facts))
        for (f, c_, facts) in pending:
            best = min(conds, key=lambda w: sum(len(x) for x in _match_condition(facts, w)))
            extra, missing = _match_condition(facts, best)
            rep.violation(rid, grp, ctx.line(f, c_), "`%s` in %s is reached under %s - the closest inventoried condition is %s (extra: %s, missing: %s): the set of states in "
                          "which this entry is dropped / reset changed" % (ast.unparse(c_)[:60], f.name, sorted(facts), best, extra, missing), func=f.qname)
        if free and not pending and len(sites) < len(conds):
            rep.violation(rid, grp, sites[0][0], "%d inventoried disposal site(s) of shape `%s` are gone: entries that used to be ignored / cleared there are not any more" % (len(free), grp))
    for grp in table:
        if grp not in groups:
            rep.violation(rid, grp, "-", "the inventoried disposal site `%s` is gone: entries that used to be ignored / cleared there are not any more" % grp)
    if n < 15:
        raise AnalysisError("only %d disposal sites found" % n)


def retry_thresholds_ordered(ctx: Ctx, rep: Report, rid: str):
    """handle_cloud_file_not_found_error: the 'punt at least once' threshold is strictly below the give-up threshold, so the recovery code
    between them (re-marking / re-creating a vanished parent) can run before the entry is given up."""
    f = ctx.prog.func("SyncManager.handle_cloud_file_not_found_error")
    sy = f.params()[2]
    give, punt = [], []
    for n in ctx.own_nodes(f):
        if isinstance(n, ast.If) and isinstance(n.test, ast.Compare) and len(n.test.ops) == 1 and pat.match("%s.priority" % sy, n.test.left) is not None \
                and isinstance(n.test.comparators[0], ast.Constant):
            k = n.test.comparators[0].value
            body_raises = any(isinstance(x, ast.Raise) for b in n.body for x in ast.walk(b))
            body_punts = any(isinstance(x, ast.Return) and isinstance(x.value, ast.Name) and x.value.id == "PUNT" for b in n.body for x in ast.walk(b))
            if body_raises and isinstance(n.test.ops[0], (ast.Gt, ast.GtE)):
                give.append(k + (0 if isinstance(n.test.ops[0], ast.GtE) else 1))        # first priority that gives up
            elif body_punts and isinstance(n.test.ops[0], (ast.LtE, ast.Lt)):
                punt.append(k + (1 if isinstance(n.test.ops[0], ast.LtE) else 0))        # first priority that no longer just punts
    if not give or not punt:
        raise AnalysisError("handle_cloud_file_not_found_error: give-up / punt thresholds not found")
    rep.check(rid, "handle_cloud_file_not_found_error|thresholds", f, max(punt) < min(give), "plain punts stop at priority %s, give-up starts at %s" % (max(punt), min(give)),
              "the entry is only punted up to priority %s and given up from priority %s on: the recovery code between the two thresholds can never run - a file whose parent "
              "folder vanished is dropped after the retries instead of having the folder re-created" % (max(punt) - 1, min(give)))


def entry_paths_match_for_display(ctx: Ctx, rep: Report, rid: str):
    """SyncEntry.paths_match(side) compares the last-synced path with the current path through the provider's paths_match(..., for_display=True): a
    rename that changes only the case of the leaf is a path change."""
    f = ctx.prog.func("SyncEntry.paths_match")
    calls = [n for n in ctx.own_nodes(f) if isinstance(n, ast.Call) and isinstance(n.func, ast.Attribute) and n.func.attr == "paths_match"]
    if not calls:
        raise AnalysisError("SyncEntry.paths_match no longer calls the provider's paths_match")
    for c_ in calls:
        kw = {k.arg: k.value for k in c_.keywords}
        v = kw.get("for_display") or (c_.args[2] if len(c_.args) > 2 else None)
        ok = isinstance(v, ast.Constant) and v.value is True
        args = {ast.unparse(a) for a in c_.args[:2]}
        s_ = f.params()[0]
        sd = f.params()[1]
        ok2 = args == {"%s[%s].sync_path" % (s_, sd), "%s[%s].path" % (s_, sd)}
        rep.check(rid, "SyncEntry.paths_match|for_display", ctx.line(f, c_), ok and ok2, "sync_path vs path, for_display=True",
                  "SyncEntry.paths_match compares %s with for_display=%s: a case-only rename of a file is not a path change any more (it is never mirrored), or the wrong pair "
                  "of paths is compared" % (sorted(args), ast.unparse(v) if v is not None else "False (default)"))


def rename_reuse_guard(ctx: Ctx, rep: Report, rid: str):
    """SyncState.update, rename event on a path-id provider: the rename-from entry takes over only when there is no entry for the new id yet, or that entry
    is not CONFLICTED and (the old one was synced or the new one was not)."""
    from sa import predform
    f = ctx.prog.func("SyncState.update")
    side = f.params()[1]
    cands = [n for n in ctx.own_nodes(f) if isinstance(n, ast.If) and any(isinstance(x, ast.Attribute) and x.attr == "sync_hash" for x in ast.walk(n.test))]
    if len(cands) != 1:
        raise AnalysisError("SyncState.update: the prior-entry reuse test was not found")
    t = cands[0].test
    oidp, priorp = f.params()[3], "prior_oid"
    e = local_assigned_from(ctx, f, "self.lookup_oid(%s, %s)" % (side, oidp))
    p = None
    for n in ctx.own_nodes(f):
        if isinstance(n, ast.Assign) and isinstance(n.targets[0], ast.Name) and isinstance(n.value, ast.Call) and pat.match("self.lookup_oid(%s, $P)" % side, n.value) is not None \
                and ast.unparse(n.value.args[1]) != oidp:
            p = n.targets[0].id
    if e is None or p is None:
        raise AnalysisError("SyncState.update: entry / prior-entry variables of the reuse test not identified")
    try:
        got = predform.dnf(t)
        want = predform.dnf(predform.parse("not {e} or (not {e}.is_conflicted and ({p}[{s}].sync_hash or not {e}[{s}].sync_hash))".format(e=e, p=p, s=side)))
    except predform.Undecided as u:
        rep.error("rule=%s reason=undecided: %s" % (rid, u))
        return
    rep.check(rid, "update|reuse-prior-entry", ctx.line(f, cands[0]), got == want, "reuse = no entry yet, or not conflicted and (old synced or new unsynced)",
              "the rename-from entry now takes over when [%s] (was [%s]): e.g. the provider's own rename event of a .conflicted copy takes over the winner's entry - the winner is "
              "renamed away and overwritten" % (predform.show(got)[:300], predform.show(want)[:300]))


def walk_iterates_inside_try(ctx: Ctx, rep: Report, rid: str):
    """Provider._walk: the ITERATION over listdir(oid) (a lazy generator) is inside the try that forgives a vanished folder, not only the call."""
    f = ctx.prog.cls("Provider").methods["_walk"]
    tries = [t for t in ctx.own_nodes(f) if isinstance(t, ast.Try) and any(h.type is not None and "CloudFileNotFoundError" in ast.unparse(h.type) for h in t.handlers)]
    loops = [n for n in ctx.own_nodes(f) if isinstance(n, ast.For)]
    defs = {n.targets[0].id: n.value for n in ctx.own_nodes(f) if isinstance(n, ast.Assign) and isinstance(n.targets[0], ast.Name)}
    lst = [lp for lp in loops if pat.match("self.listdir($O)", lp.iter) is not None or (isinstance(lp.iter, ast.Name) and lp.iter.id in defs and pat.match("self.listdir($O)", defs[lp.iter.id]) is not None)]
    if not tries or not lst:
        raise AnalysisError("Provider._walk: try / listdir loop not found")
    inside = all(any(any(x is lp for x in ast.walk(b)) for t in tries for b in t.body) for lp in lst)
    rep.check(rid, "Provider._walk|iteration-guarded", f, inside, "the loop over listdir() is inside the try",
              "only the call of listdir() is guarded: listdir is a generator, so a folder that vanishes during the walk raises from the unguarded loop - the caller takes the "
              "aborted walk for a complete one (walk marker written) and the siblings not yet visited are never walked")


def swallowing_handlers(ctx: Ctx, rep: Report, rid: str):
    """No new place in the sync manager swallows a provider fault: the handlers that catch a CloudException family (or Exception) and neither re-raise nor
    notify are the inventoried ones."""
    KNOWN = {  # function -> number of swallowing handlers today (read: each is a deliberate 'this is the expected answer' handler)
    }
    M = ctx.prog.cls("SyncManager")
    found = {}
    for f in M.methods.values():
        if isinstance(f.node, ast.Lambda):
            continue
        for t in [x for x in ctx.own_nodes(f) if isinstance(x, ast.Try)]:
            for h in t.handlers:
                names = [ast.unparse(e).split(".")[-1] for e in (h.type.elts if isinstance(h.type, ast.Tuple) else [h.type])] if h.type is not None else ["BaseException"]
                broad = [n_ for n_ in names if n_ in ("CloudException", "CloudTemporaryError", "CloudDisconnectedError", "CloudTokenError", "Exception", "BaseException")]
                if not broad:
                    continue
                body = ast.Module(body=list(h.body), type_ignores=[])
                reraises = any(isinstance(x, ast.Raise) for x in ast.walk(body))
                handles = any(isinstance(x, ast.Call) and isinstance(x.func, ast.Attribute) and x.func.attr in ("notify_from_exception", "backoff", "punt", "handle_corrupt") for x in ast.walk(body))
                if not reraises and not handles:
                    found.setdefault(f.name, []).append((h, broad))
    return found


def no_new_swallowing_handlers(ctx: Ctx, rep: Report, rid: str):
    """The only handler of the sync manager that catches a provider-fault family (CloudException, CloudTemporaryError, ..., Exception) and neither re-raises
    nor reports / punts is the resolver fallback of __safe_call_resolver: a fault anywhere else reaches the step's classify-notify-punt-back-off frame."""
    allowed = {("__safe_call_resolver", "Exception")}
    found = swallowing_handlers(ctx, rep, rid)
    ok_n = 0
    for fname, hs in sorted(found.items()):
        f = ctx.prog.cls("SyncManager").methods[fname]
        for h, broad in hs:
            if all((fname, b) in allowed for b in broad):
                ok_n += 1
                rep.ok(rid, "%s|except %s" % (fname, "/".join(broad)), ctx.line(f, h), "the inventoried fallback handler")
            else:
                rep.violation(rid, "%s|except %s" % (fname, "/".join(broad)), ctx.line(f, h), "%s catches %s and neither re-raises nor reports it: a transient provider fault at this "
                              "call is silently swallowed - not notified, not punted, not retried (the work behind it is dropped for good)" % (fname, "/".join(broad)), func=f.qname)
    if ok_n == 0:
        raise AnalysisError("the resolver fallback handler of __safe_call_resolver was not found (positive control)")


def change_oid_cleans_the_popped_entrys_slot(ctx: Ctx, rep: Report, rid: str):
    """SyncState._change_oid: the (path, id) slot that is cleaned belongs to the entry that was popped from the id index (`prior_ent`), whose path is read from
    that entry - not from the entry being re-keyed."""
    f = ctx.prog.func("SyncState._change_oid")
    entp = f.params()[2]
    pops = [n for n in ctx.own_nodes(f) if isinstance(n, ast.Assign) and isinstance(n.targets[0], ast.Name) and pat.match("self._oids[$S].pop($O, None)", n.value) is not None]
    if not pops:
        raise AnalysisError("_change_oid: pop from the id index not found")
    pe = pops[0].targets[0].id
    slot = [n for n in ctx.own_nodes(f) if isinstance(n, ast.Call) and pat.match("self._paths[$S][$P].pop($O, None)", n) is not None]
    if not slot:
        raise AnalysisError("_change_oid: slot removal not found")
    defs = {}
    for n in ctx.own_nodes(f):
        if isinstance(n, ast.Assign) and isinstance(n.targets[0], ast.Name):
            defs.setdefault(n.targets[0].id, []).append(n.value)
    for s_ in slot:
        pexpr = pat.match("self._paths[$S][$P].pop($O, None)", s_)["P"]
        srcs = [pexpr] if not isinstance(pexpr, ast.Name) else defs.get(pexpr.id, [])
        ok = bool(srcs) and all(pat.match("%s[$S].path" % pe, v) is not None for v in srcs)
        rep.check(rid, "_change_oid|slot-of-popped-entry", ctx.line(f, s_), ok, "the slot cleaned is (%s[side].path, id)" % pe,
                  "the slot that _change_oid cleans is keyed by `%s`, not by the path of the entry popped from the id index: when another entry loses the id, ITS slot stays "
                  "behind (lookup_path finds an entry that no longer owns the id) and the re-keyed entry's own slot is dropped" % ", ".join(ast.unparse(v) for v in srcs))


def idless_delete_lookup_is_live(ctx: Ctx, rep: Report, rid: str):
    """_process_event, folder delete without an id: the id is borrowed from the LIVE entry at that path (lookup_path without stale=True) - a discarded
    tombstone of an older folder of the same name must not absorb the delete."""
    f = ctx.prog.func("EventManager._process_event")
    ev = f.params()[1]
    calls = [n for n in ctx.own_nodes(f) if isinstance(n, ast.Call) and pat.match("self.state.lookup_path(self.side, %s.path, $$$)" % ev, n) is not None]
    if not calls:
        raise AnalysisError("_process_event: the look-up by path for an id-less folder delete was not found")
    for c_ in calls:
        stale = [k for k in c_.keywords if k.arg == "stale" and not (isinstance(k.value, ast.Constant) and not k.value.value)] or list(c_.args[2:3])
        rep.check(rid, "_process_event|idless-delete-lookup", ctx.line(f, c_), not stale, "lookup_path(side, path) - live entries only",
                  "`%s` includes discarded tombstones: the delete of a folder is applied to the oldest dead entry of that name and the live folder's delete is never propagated" % ast.unparse(c_))


def wait_joins_unless_own_thread(ctx: Ctx, rep: Report, rid: str):
    """Runnable.wait joins the service thread under exactly `there is a thread and it is not the current one` - in particular also when a stop is already
    pending (stop(forever=True) sets the flags BEFORE the thread has left its loop)."""
    from sa.util import extra_facts
    w = ctx.prog.cls("Runnable").methods["wait"]
    joins = [n for n in ctx.own_nodes(w) if isinstance(n, ast.Call) and pat.match("$T.join($$$)", n) is not None]
    if not joins:
        rep.violation(rid, "wait|join", w, "wait() no longer joins the service thread")
        return
    for j in joins:
        facts = ctx.facts_at(w, j)
        th = ast.unparse(j.func.value)
        extra = extra_facts(facts, [(th, True), ("threading.current_thread() == %s" % th, False), ("%s == threading.current_thread()" % th, False)])
        rep.check(rid, "wait|join-condition", ctx.line(w, j), fact_in(facts, th, True) and not extra, "join whenever another thread runs the service",
                  "wait() joins only under the extra condition(s) %s: after stop(forever=True) - which sets the flags first - stop()/stop_all()/CloudSync.stop() return while "
                  "the service thread is still inside do(), holding the state lock and committing" % extra)


def fs_events_trim_after_delivery(ctx: Ctx, rep: Report, rid: str):
    """FileSystemProvider.events(): the backlog is trimmed to the event window only AFTER the pending events were handed out (the delivery loop dominates
    every popleft): more than a window's worth of undelivered events is delivered, not dropped."""
    f = ctx.prog.cls("FileSystemProvider").methods["events"]
    g = ctx.cfg(f)
    pops = [n for n in g.nodes if node_has_call(n, "self._events.popleft()")]
    ylds = [n for n in g.nodes if cfg_root(n) is not None and any(isinstance(x, (ast.Yield, ast.YieldFrom)) for x in ast.walk(cfg_root(n)))]
    loops = [n for n in g.nodes if n.kind == "test" and any(any(x is cfg_root(y) for x in ast.walk(lp)) for lp in ctx.own_nodes(f) if isinstance(lp, ast.While) and lp.test is n.ast for y in ylds)]
    if not pops or not loops:
        raise AnalysisError("FileSystemProvider.events: trimming / delivery loop not found")
    p_ = g.reach([g.entry.id], lambda n: n in pops, avoid=lambda n: n in loops, follow=NORMAL)
    rep.check(rid, "FileSystemProvider.events|trim-after-delivery", f, p_ is None, "every popleft is behind the delivery loop",
              "the event backlog is trimmed before the pending events were delivered: when more than a window of events piled up between two polls the oldest undelivered "
              "ones are dropped and the cursor skips past them - mutations the consumer never hears about", witness=describe_path(p_) if p_ else None)


def mock_rename_noop_is_exact(ctx: Ctx, rep: Report, rid: str):
    """MockProvider.rename returns early ('nothing to do') only when the stored path EQUALS the target path; a target that differs in case is a rename."""
    f = ctx.prog.cls("MockProvider").methods["rename"]
    g = ctx.cfg(f)
    rets = [n for n in g.nodes if n.kind == "stmt" and isinstance(n.ast, ast.Return)]
    ren = [n for n in g.nodes if node_has_call(n, "self._rename_single_object($$$)")]
    early = [r for r in rets if g.reach([g.entry.id], lambda n, r=r: n is r, avoid=lambda n: n in ren, follow=NORMAL) is not None]
    pathp = f.params()[2]
    bad = []
    seen_exact = False
    for r in early:
        facts = ctx.facts(f).facts(r)
        for (t, p_) in facts:
            if p_ and "paths_match(" in t and pathp in t:
                bad.append(t)
            if p_ and pat.match("$O.path == %s" % pathp, ast.parse(t, mode="eval").body) is not None:
                seen_exact = True
    rep.check(rid, "MockProvider.rename|noop-exact", f, not bad and seen_exact, "the no-op shortcut is `object.path == path`",
              "rename returns without renaming under %s: on a case-insensitive mock a rename that changes only the case of the name reports success but stores and announces "
              "nothing" % (bad or "a condition other than path equality"))


def selection_loop_has_no_early_stop(ctx: Ctx, rep: Report, rid: str):
    """SyncState.change: the selection loop over the sorted pending set leaves only by returning an eligible entry - no break / return None inside it (the list is
    sorted by (priority, newest stamp); eligibility is 'either side aged or negative priority', which is not monotone in that order)."""
    f = ctx.prog.func("SyncState.change")
    srt = [n for n in ctx.own_nodes(f) if isinstance(n, ast.Assign) and isinstance(n.targets[0], ast.Name) and isinstance(n.value, ast.Call) and isinstance(n.value.func, ast.Name) and n.value.func.id == "sorted"]
    if not srt:
        raise AnalysisError("SyncState.change: sorted() not found")
    lst = srt[0].targets[0].id
    loops = [n for n in ctx.own_nodes(f) if isinstance(n, ast.For) and isinstance(n.iter, ast.Name) and n.iter.id == lst]
    if not loops:
        raise AnalysisError("SyncState.change: selection loop not found")
    for lp in loops:
        var = lp.target.id if isinstance(lp.target, ast.Name) else None
        stops = [x for b in lp.body for x in ast.walk(b) if isinstance(x, ast.Break) or (isinstance(x, ast.Return) and not (isinstance(x.value, ast.Name) and x.value.id == var))]
        rep.check(rid, "change|selection-loop", ctx.line(f, lp), not stops, "the loop ends only by returning an eligible entry or by exhausting the list",
                  "the selection loop stops early (`%s`): an aged / deferred entry behind a fresh one is never offered - a trickle of new changes starves it for ever" % (ast.unparse(stops[0]) if stops else ""))


def per_side_tuples_are_indexed_in_order(ctx: Ctx, rep: Report, rid: str):
    """A pair built from the two providers / roots takes element i from side i: `(providers[0].x, providers[1].x)` - never the same index twice."""
    n = 0
    for f in ctx.prog.functions.values():
        if f.module.name not in ("cloudsync.cs", "cloudsync.smartsync", "cloudsync.sync.manager"):
            continue
        for t in ctx.own_nodes(f):
            if isinstance(t, ast.Tuple) and len(t.elts) == 2 and all(
                    isinstance(e, ast.Attribute) and isinstance(e.value, ast.Subscript) and isinstance(e.value.slice, ast.Constant) and e.value.slice.value in (0, 1) for e in t.elts):
                e0, e1 = t.elts
                if e0.attr == e1.attr and ast.unparse(e0.value.value) == ast.unparse(e1.value.value):
                    n += 1
                    rep.check(rid, stmt_key_short(t) + "@" + f.name, ctx.line(f, t), (e0.value.slice.value, e1.value.slice.value) == (0, 1), "element i comes from side i",
                              "`%s` in %s takes both elements from the same side: the other side's value (poll interval -> ageing, root, ...) is ignored" % (ast.unparse(t), f.name), func=f.qname)
    if n == 0:
        raise AnalysisError("no per-side pair `(x[0].a, x[1].a)` found (positive control)")


def refresh_covers_both_sides(ctx: Ctx, rep: Report, rid: str):
    """SyncEntry.get_latest refreshes EVERY requested side whenever the newest change stamp of the entry (max over the sides) is newer than that side's last
    refresh - a change on one side re-reads the quiet side too (that is how a still undelivered edit / move of the peer is noticed before acting)."""
    from sa.util import has_fact
    ge = ctx.prog.func("SyncEntry.get_latest")
    calls = [c_ for c_ in ctx.calls(ge, "unconditionally_get_latest")]
    mk = [n for n in ctx.own_nodes(ge) if isinstance(n, ast.Assign) and isinstance(n.value, ast.Call) and isinstance(n.value.func, ast.Name) and n.value.func.id == "max" and isinstance(n.targets[0], ast.Name)]
    mx = mk[0].targets[0].id if mk else "?"
    ok = bool(calls) and bool(mk)
    for c_ in calls:
        facts = ctx.facts_at(ge, c_)
        ok = ok and (has_fact(facts, "force or %s > $S._last_gotten" % mx, True) or has_fact(facts, "%s > $S._last_gotten or force" % mx, True))
    # the maximum is taken over the sides' change stamps
    # ... over the change stamps of the sides: directly (a comprehension over the sides) or through a list built from them
    srcs = [mk[0].value] if mk else []
    if mk:
        for a_ in mk[0].value.args:
            if isinstance(a_, ast.Name):
                srcs += [n for n in ctx.own_nodes(ge) if isinstance(n, ast.Call) and pat.match("%s.append($V)" % a_.id, n) is not None]
    over_sides = bool(mk) and any(isinstance(x, ast.Attribute) and x.attr == "changed" and not (isinstance(x.value, ast.Name)) for s_ in srcs for x in ast.walk(s_))
    rep.check(rid, "get_latest|condition", ge, ok and over_sides, "refresh when forced or the entry's newest change stamp is newer than the side's last refresh",
              "get_latest no longer refreshes a side exactly when `force or max(change stamps of all sides) > its _last_gotten`: a change on one side no longer re-reads the quiet "
              "side, so a peer edit / move whose event is still in flight is not noticed before the engine deletes, overwrites or renames the peer object")


def sort_key_takes_latest_stamp(ctx: Ctx, rep: Report, rid: str):
    """SyncState.change: entries are ordered by (priority, the LATER of the two sides' change stamps): an entry both of whose sides are pending is as old as its
    latest notification, not as old as one of the sides."""
    f = ctx.prog.func("SyncState.change")
    keys = [n for n in ast.walk(f.node) if isinstance(n, ast.Lambda) and isinstance(n.body, ast.Tuple) and len(n.body.elts) == 2
            and any(isinstance(x, ast.Attribute) and x.attr == "priority" for x in ast.walk(n.body.elts[0]))]
    if not keys:
        raise AnalysisError("SyncState.change: the (priority, stamp) sort key was not found")
    for lam in keys:
        e = lam.body.elts[1]
        if "random" in ast.unparse(e):
            continue        # the shuffle mode of the tests: (priority, random)
        stamps = {pat_side(x) for x in ast.walk(e) if isinstance(x, ast.Attribute) and x.attr == "changed"}
        ok = isinstance(e, ast.Call) and isinstance(e.func, ast.Name) and e.func.id == "max" and {"LOCAL", "REMOTE"} <= stamps
        rep.check(rid, "change|sort-key", ctx.line(f, lam), ok, "second key component is max(stamp of LOCAL, stamp of REMOTE)",
                  "the sort key's second component is `%s`, not the later of the two sides' change stamps: an entry whose sides were notified at different times is "
                  "ranked by the older one and overtakes entries whose last notification is older" % ast.unparse(e)[:120])


def pat_side(attr: ast.Attribute) -> str:
    v = attr.value
    if isinstance(v, ast.Subscript):
        return ast.unparse(v.slice)
    return "?"


def saved_cursor_is_the_consumed_position(ctx: Ctx, rep: Report, rid: str):
    """EventManager._save_current_cursor persists the provider's current_cursor (the position up to which events were handed out), never latest_cursor (where the
    provider's feed ends now): what lies between the two has not been applied to the state yet, a restart would skip it."""
    f = ctx.prog.func("EventManager._save_current_cursor")
    stores = [c for c in ctx.calls(f, "storage_update_data")]
    if not stores:
        raise AnalysisError("_save_current_cursor: no storage_update_data call")
    from sa.util import unalias
    for c in stores:
        if len(c.args) < 2:
            continue
        v = unalias(ctx, f, c.args[1])
        txt = ast.unparse(v)
        ok = txt.endswith(".current_cursor") and "latest" not in txt
        rep.check(rid, "_save_current_cursor|value", ctx.line(f, c), ok, "persists provider.current_cursor",
                  "the persisted cursor is `%s`, not the provider's current_cursor: events between the consumed position and that value are skipped after a restart" % txt)


def no_late_bound_loop_variable(ctx: Ctx, rep: Report, rid: str, specs):
    """A lambda / nested function created inside a loop or comprehension and kept (passed on, stored) must not read the loop variable when it is CALLED: all the
    closures of the loop then see the last value (the classic late binding).  Binding it as a default (`lambda side=side: ...`) is the accepted idiom."""
    n_checked = 0
    for spec in specs:
        try:
            f = ctx.prog.func(spec)
        except AnalysisError:
            continue        # dissolved into its caller, or renamed: nothing to look at under this name
        for loop in [x for x in ast.walk(f.node) if isinstance(x, (ast.For, ast.ListComp, ast.SetComp, ast.GeneratorExp, ast.DictComp))]:
            if isinstance(loop, ast.For):
                targets = {x.id for x in ast.walk(loop.target) if isinstance(x, ast.Name)}
                bodies = loop.body
            else:
                targets = set()
                for g in loop.generators:
                    targets |= {x.id for x in ast.walk(g.target) if isinstance(x, ast.Name)}
                bodies = [loop]
            for b in bodies:
                for lam in [x for x in ast.walk(b) if isinstance(x, (ast.Lambda, ast.FunctionDef)) and x is not loop]:
                    params = {a.arg for a in lam.args.args + lam.args.kwonlyargs}
                    body = lam.body if isinstance(lam.body, list) else [lam.body]
                    used = {x.id for st in body for x in ast.walk(st) if isinstance(x, ast.Name) and isinstance(x.ctx, ast.Load)} - params
                    late = sorted(used & targets)
                    # a key= / default= argument of a call evaluated in the same iteration is consumed at once
                    immediate = any(isinstance(c, ast.Call) and any(k.value is lam for k in c.keywords if k.arg in ("key", "default")) for c in ast.walk(b))
                    n_checked += 1
                    if late and not immediate:
                        rep.violation(rid, "%s|closure over %s" % (f.name, ",".join(late)), ctx.line(f, lam), "`%s` is created once per iteration but reads the loop variable `%s` "
                                      "when it is called - every copy sees the last value (e.g. both event managers re-authenticate side 1)" % (ast.unparse(lam)[:80], late[0]), func=f.qname)
        rep.ok(rid, "%s|closures" % spec, "-", "no kept closure reads a loop variable late", nontrivial=False)


def derived_local_is_recomputed(ctx: Ctx, rep: Report, rid: str, specs):
    """Inside a loop, a local X computed from a local Y must be computed again after Y is reassigned in the loop, before X is used there: otherwise the loop
    retries with the value of the first round (conflict_rename: the next `.conflictedN` name is chosen but the old path is renamed again, for ever)."""
    for spec in specs:
        try:
            f = ctx.prog.func(spec)
        except AnalysisError:
            continue
        found = 0
        for loop in [x for x in ast.walk(f.node) if isinstance(x, (ast.For, ast.While))]:
            inside = [x for st in loop.body for x in ast.walk(st)]
            reassigned = {t.id for x in inside if isinstance(x, (ast.Assign, ast.AugAssign)) for t in (x.targets if isinstance(x, ast.Assign) else [x.target]) if isinstance(t, ast.Name)}
            assigned_inside = set(reassigned)
            used_inside = {x.id for x in inside if isinstance(x, ast.Name) and isinstance(x.ctx, ast.Load)}
            # locals defined before the loop from something the loop reassigns, used in the loop, never recomputed in it
            for st in ast.walk(f.node):
                if isinstance(st, ast.Assign) and len(st.targets) == 1 and isinstance(st.targets[0], ast.Name) and st not in inside and st.lineno < loop.lineno:
                    x = st.targets[0].id
                    deps = {n.id for n in ast.walk(st.value) if isinstance(n, ast.Name)} & reassigned
                    if deps and x in used_inside and x not in assigned_inside and x not in deps:
                        # only when the dependency is really a recomputed value (assigned from an expression, not just a counter read by the loop test)
                        found += 1
                        rep.violation(rid, "%s|%s" % (f.name, x), ctx.line(f, st), "`%s` is computed from `%s` before the loop, `%s` is reassigned inside the loop, and the loop keeps "
                                      "using the first `%s`" % (x, sorted(deps)[0], sorted(deps)[0], x), func=f.qname)
        if not found:
            rep.ok(rid, "%s|derived-locals" % spec, "-", "every local derived from a loop-updated local is recomputed in the loop", nontrivial=False)


def overrides_forward_their_parameters(ctx: Ctx, rep: Report, rid: str):
    """`super().__init__(...)` in a subclass passes on every parameter of the subclass's __init__ that the base __init__ also takes (same name): an override that
    accepts `prioritize` / `shuffle` / `tag` and does not hand it to the base silently runs the base with its default."""
    n = 0
    for cls in ctx.prog.classes.values() if hasattr(ctx.prog, "classes") else []:
        f = cls.methods.get("__init__")
        if f is None or not cls.module.name.startswith("cloudsync") or ".tests" in cls.module.name:
            continue
        own = [p for p in f.params()[1:]]
        for c_ in [x for x in ctx.own_nodes(f) if isinstance(x, ast.Call) and isinstance(x.func, ast.Attribute) and x.func.attr == "__init__"
                   and isinstance(x.func.value, ast.Call) and isinstance(x.func.value.func, ast.Name) and x.func.value.func.id == "super"]:
            base = None
            for b in getattr(cls, "mro", [])[1:]:
                if "__init__" in b.methods:
                    base = b.methods["__init__"]
                    break
            if base is None:
                continue
            bparams = base.params()[1:]
            passed = {x.id for a in list(c_.args) + [k.value for k in c_.keywords] for x in ast.walk(a) if isinstance(x, ast.Name)}
            star = any(isinstance(a, ast.Starred) for a in c_.args) or any(k.arg is None for k in c_.keywords)
            for p in own:
                if p in bparams and not star:
                    n += 1
                    rep.check(rid, "%s.__init__|forwards %s" % (cls.name, p), ctx.line(f, c_), p in passed, "`%s` is handed to %s.__init__" % (p, base.cls.name if base.cls else "base"),
                              "%s.__init__ accepts `%s` but does not pass it to %s.__init__: the base runs with its default (e.g. every entry gets priority 0)"
                              % (cls.name, p, base.cls.name if base.cls else "the base"), func=f.qname)
    if n < 3:
        raise AnalysisError("only %d forwarded constructor parameters found" % n)


def parent_search_climbs(ctx: Ctx, rep: Report, rid: str):
    """_get_parent_conflict walks every ancestor: inside its loop it moves to the parent (`path = parent`) and recomputes the parent of THAT (`parent = dirname(path)`),
    in this order - computing the next parent from the old one first and then aliasing both stops the walk after one level."""
    gp = ctx.prog.func("SyncManager._get_parent_conflict")
    loops = [n for n in ctx.own_nodes(gp) if isinstance(n, ast.While)]
    ok = False
    if loops:
        lp = loops[0]
        names = {x.id for x in ast.walk(lp.test) if isinstance(x, ast.Name)}
        seq = [n_ for n_ in lp.body if isinstance(n_, ast.Assign) and isinstance(n_.targets[0], ast.Name)] + \
              [n_ for st in lp.body if not isinstance(st, ast.Assign) for n_ in ast.walk(st) if isinstance(n_, ast.Assign) and isinstance(n_.targets[0], ast.Name)]
        asg = {n_.targets[0].id: n_.value for n_ in ast.walk(lp) if isinstance(n_, ast.Assign) and isinstance(n_.targets[0], ast.Name)}
        climbing = [k for k, v in asg.items() if isinstance(v, ast.Call) and isinstance(v.func, ast.Attribute) and v.func.attr == "dirname"]
        moving = [k for k, v in asg.items() if isinstance(v, ast.Name) and v.id in climbing]
        ok = bool(climbing) and bool(moving) and set(climbing + moving) >= names and any(pat.match("$P.dirname(%s)" % mv, asg[c_]) is not None for c_ in climbing for mv in moving)
        if ok:
            # order: the move (`path = parent`) stands before the climb (`parent = dirname(path)`)
            order = [n_.targets[0].id for n_ in seq if n_.targets[0].id in climbing + moving]
            ok = bool(order) and order.index(moving[0]) < order.index(climbing[0]) if (moving[0] in order and climbing[0] in order) else False
    rep.check(rid, "_get_parent_conflict|climb", gp, ok, "path := parent; parent := dirname(path) inside the loop",
              "the ancestor walk of _get_parent_conflict no longer climbs (only the immediate parent is examined): a changed grand-parent is synced after its descendants")


def notifications_go_through_the_queue(ctx: Ctx, rep: Report, rid: str):
    """CloudSync.handle_notification is the application's callback: it is handed to the NotificationManager, which calls it from its own loop, one notification at a
    time, in the order raised.  Nothing in the engine calls it directly - a direct call overtakes what is queued, runs on the caller's thread, and lets a raising
    handler break the caller."""
    n = 0
    for f in ctx.prog.functions.values():
        if isinstance(f.node, ast.Lambda) or not f.module.name.startswith("cloudsync") or ".tests" in f.module.name:
            continue
        for c_ in [x for x in ctx.own_nodes(f) if isinstance(x, ast.Call) and isinstance(x.func, ast.Attribute) and x.func.attr == "handle_notification"]:
            n += 1
            rep.violation(rid, "%s|direct handle_notification" % f.name, ctx.line(f, c_), "`%s` calls the application's notification handler directly instead of queueing through "
                          "the NotificationManager: it is delivered out of order, on this thread, and a raising handler propagates here" % ast.unparse(c_)[:70], func=f.qname)
    cs = ctx.prog.func("CloudSync.__init__")
    # (handed over as a bound method or through a forwarding lambda)
    handed = [x for x in ast.walk(cs.node) if isinstance(x, ast.Call) and "NotificationManager" in ast.unparse(x.func)
              and any(isinstance(y, ast.Attribute) and y.attr == "handle_notification" for a in list(x.args) + [k.value for k in x.keywords] for y in ast.walk(a))]
    rep.check(rid, "CloudSync.__init__|handler registered", cs, bool(handed), "handle_notification is handed to the NotificationManager as its callback",
              "the application's handler is no longer registered with the NotificationManager")
