"""Rule fragments shared by several properties (each caller reports them under its own rule id)."""
from __future__ import annotations

import ast

from sa.model import AnalysisError
from sa.ctx import Ctx
from sa.cfg import NORMAL, describe_path
from sa.report import Report
from sa.util import cfg_root, node_has_call
from sa import pat


def _conj(e):
    if isinstance(e, ast.BoolOp) and isinstance(e.op, ast.And):
        out = []
        for v in e.values:
            out += _conj(v)
        return out
    return [e]


def hash_conflict_definition(ctx: Ctx, rep: Report, rid: str):
    """SyncEntry.hash_conflict() is true exactly when both sides carry a hash and a path and BOTH hashes differ from their
    last-synced value - in particular an object that was never synced (no sync_hash) can conflict."""
    f = ctx.prog.func("SyncEntry.hash_conflict")
    atoms = set()
    shape_ok = True
    rets = [n for n in ctx.own_nodes(f) if isinstance(n, ast.Return)]
    ifs = [n for n in ctx.own_nodes(f) if isinstance(n, ast.If)]
    main = [r for r in rets if not (isinstance(r.value, ast.Constant) and r.value.value is False)]
    if len(main) != 1:
        shape_ok = False
    else:
        conds = []
        for i in ifs:
            if any(x is main[0] for b in i.body for x in ast.walk(b)):
                conds += _conj(i.test)
        conds += _conj(main[0].value)
        for c in conds:
            if isinstance(c, ast.Compare) and len(c.ops) == 1 and isinstance(c.ops[0], ast.NotEq) and isinstance(c.left, ast.Attribute) and isinstance(c.comparators[0], ast.Attribute):
                l, r = c.left, c.comparators[0]
                ml, mr = pat.match("self[$I]", l.value), pat.match("self[$I]", r.value)
                if ml is not None and mr is not None and isinstance(ml["I"], ast.Constant) and isinstance(mr["I"], ast.Constant) and ml["I"].value == mr["I"].value:
                    atoms.add("NE%s(%s)" % (ml["I"].value, ",".join(sorted([l.attr, r.attr]))))
                    continue
            if isinstance(c, ast.Attribute) and isinstance(c.value, ast.Subscript) and isinstance(c.value.slice, ast.Constant) and pat.match("self[$I]", c.value) is not None:
                atoms.add("T%s(%s)" % (c.value.slice.value, c.attr))
                continue
            atoms.add("?" + ast.unparse(c))
    want = {"T0(hash)", "T1(hash)", "T0(path)", "T1(path)", "NE0(hash,sync_hash)", "NE1(hash,sync_hash)"}
    rep.check(rid, "hash_conflict|definition", f, shape_ok and atoms == want, "conflict = both sides have hash and path, and both hashes differ from the last-synced ones",
              "hash_conflict() is now [%s], expected [%s]: e.g. two never-synced files of the same path are not seen as a conflict and one version is uploaded over the other"
              % (" and ".join(sorted(atoms)), " and ".join(sorted(want))))


def refresh_marks_changed(ctx: Ctx, rep: Report, rid: str):
    """unconditionally_get_latest: when the refresh discovers a new hash or a new path, the side is stamped changed
    (unless the entry is ignored or the side is already changed) - this is what lets 'a delete never wins over a newer edit' see the edit."""
    f = ctx.prog.func("SyncState.unconditionally_get_latest")
    ent, side = f.params()[1:3]
    g = ctx.cfg(f)
    for what in ("hash", "path"):
        stores = [n for n in g.nodes if cfg_root(n) is not None and isinstance(cfg_root(n), ast.Assign) and pat.match("%s[%s].%s = $V" % (ent, side, what), cfg_root(n)) is not None
                  and not (isinstance(cfg_root(n).value, ast.Call) and isinstance(cfg_root(n).value.func, ast.Attribute) and cfg_root(n).value.func.attr == "hash_oid")]
        if not stores:
            raise AnalysisError("unconditionally_get_latest: store to %s[%s].%s not found" % (ent, side, what))
        stamp = lambda n: cfg_root(n) is not None and isinstance(cfg_root(n), ast.Assign) and pat.match("%s[%s].changed = $V" % (ent, side), cfg_root(n)) is not None   # noqa: E731
        # the only way around the stamp is the false edge of a test that says "ignored, or already changed"
        skip_tests = {t.id for t in g.nodes if t.kind == "test" and any(isinstance(x, ast.Attribute) and x.attr == "changed" for x in ast.walk(t.ast))
                      and any(isinstance(x, ast.Attribute) and x.attr == "ignored" for x in ast.walk(t.ast))}
        nxt = [n for n in g.nodes if n.kind in ("test", "stmt") and n not in stores]
        pth = None
        for s_ in stores:
            # look only at the statements that belong to the same discovery block: stop at the next store to another field
            other = lambda n, s_=s_: cfg_root(n) is not None and isinstance(cfg_root(n), ast.Assign) and pat.match("%s[%s].$F = $V" % (ent, side), cfg_root(n)) is not None and not stamp(n) and n is not s_   # noqa: E731
            p_ = g.reach([s_.id], lambda n: other(n) or n is g.exit, avoid=stamp, follow=lambda a, b, l: l != "exc" and not (a in skip_tests and l == "F"))
            if p_ is not None:
                pth = p_
        rep.check(rid, "get_latest|new-%s-marks-changed" % what, f, pth is None, "a newly discovered %s stamps the side changed" % what,
                  "a refresh that discovers a new %s no longer marks the side changed: a concurrent delete on the other side wins over the newer edit" % what,
                  witness=describe_path(pth) if pth else None)


def alias(rep: Report, src_rules, dst_rule: str, text: str, expect: int, fn, keep=None):
    """Run rule(s) of a neighbouring property and report the instances selected by `keep` (default: all of the first source rule) under
    `dst_rule`; every other instance the call produced is dropped. Source rules that the property declares itself are left untouched."""
    if isinstance(src_rules, str):
        src_rules = [src_rules]
    rep.rule(dst_rule, text, expect)
    saved = {r: (rep.rules.get(r), rep.expect.get(r)) for r in src_rules}
    before = len(rep.instances)
    for r in src_rules:
        rep.rules[r] = "alias"
        rep.expect[r] = 0
    fn()
    new = rep.instances[before:]
    del rep.instances[before:]
    for i in new:
        if i.rule not in src_rules:
            rep.instances.append(i)
        elif (keep(i) if keep else i.rule == src_rules[0]):
            i.rule = dst_rule
            rep.instances.append(i)
    for r, (t, e) in saved.items():
        if t is None or e is None:
            rep.rules.pop(r, None)
            rep.expect.pop(r, None)
        else:
            rep.rules[r], rep.expect[r] = t, e


def kids_sync_path_rebased(ctx: Ctx, rep: Report, rid: str):
    """_update_kids: a child's last-synced path is rebased from ITS OWN old last-synced path (not from its current path): a child rename that
    has not been synced yet must stay visible as a difference between path and sync_path."""
    f = ctx.prog.func("SyncState._update_kids")
    ps = f.params()
    prior, newp = ps[3], ps[4]
    stores = [n for n in ctx.own_nodes(f) if isinstance(n, ast.Assign) and isinstance(n.targets[0], ast.Attribute) and n.targets[0].attr == "sync_path"]
    if not stores:
        rep.violation(rid, "_update_kids|sync_path", f, "children's last-synced paths are no longer moved with a renamed folder")
        return
    defs = {}
    for n in ctx.own_nodes(f):
        if isinstance(n, ast.Assign) and isinstance(n.targets[0], ast.Name):
            defs.setdefault(n.targets[0].id, []).append(n.value)

    def resolve(e):
        if isinstance(e, ast.Name) and len(defs.get(e.id, [])) == 1:
            return defs[e.id][0]
        return e
    for st_ in stores:
        sub_ = ast.unparse(st_.targets[0].value)          # e.g. sub[side]
        v = resolve(st_.value)
        m = pat.match("$P.join(%s, $R)" % newp, v)
        ok = False
        detail = "value `%s`" % ast.unparse(st_.value)
        if m is not None:
            r = resolve(m["R"])
            m2 = pat.match("$P.is_subpath(%s, %s.sync_path)" % (prior, sub_), r)
            ok = m2 is not None
            detail = "join(new folder, is_subpath(old folder, %s.sync_path))" % sub_ if ok else "relative part comes from `%s`" % ast.unparse(r)
        rep.check(rid, "_update_kids|sync_path", ctx.line(f, st_), ok, detail,
                  "a child's last-synced path is not rebased from its own old last-synced path (%s): a pending child rename is booked as already synced / the synced marker drifts" % detail)


def refresh_marks_exists(ctx: Ctx, rep: Report, rid: str):
    """unconditionally_get_latest: once the provider returned info, the side is marked EXISTS on every path (a stale tombstone is repaired
    even when the content hash did not change)."""
    f = ctx.prog.func("SyncState.unconditionally_get_latest")
    ent, side = f.params()[1:3]
    g = ctx.cfg(f)
    infos = [n for n in g.nodes if n.kind == "test" and isinstance(n.ast, ast.UnaryOp) and isinstance(n.ast.op, ast.Not)]
    iname = None
    for n in ctx.own_nodes(f):
        if isinstance(n, (ast.Assign, ast.AnnAssign)) and isinstance(n.value, ast.Call) and isinstance(n.value.func, ast.Attribute) and n.value.func.attr == "info_oid":
            tg = n.targets[0] if isinstance(n, ast.Assign) else n.target
            iname = tg.id if isinstance(tg, ast.Name) else None
    tests = [n for n in g.nodes if n.kind == "test" and iname and pat.match("not %s" % iname, n.ast) is not None]
    if not tests:
        raise AnalysisError("unconditionally_get_latest: `if not <info>` not found")
    starts = [b for t in tests for (b, l) in g.succ[t.id] if l == "F"]
    mark = lambda n: cfg_root(n) is not None and isinstance(cfg_root(n), ast.Assign) and pat.match("%s[%s].exists = EXISTS" % (ent, side), cfg_root(n)) is not None   # noqa: E731
    pth = g.reach(starts, lambda n: n is g.exit, avoid=mark, follow=NORMAL, include_src=True)
    rep.check(rid, "get_latest|info-marks-exists", f, pth is None, "info present -> exists = EXISTS on every path",
              "a refresh that finds the object does not always mark it EXISTS: a replayed / stale delete leaves a live object TRASHED and its peer is deleted",
              witness=describe_path(pth) if pth else None)


def refresh_stamp_after_fetch(ctx: Ctx, rep: Report, rid: str):
    """SyncEntry.get_latest: `_last_gotten` is stored only after unconditionally_get_latest returned (a refresh that raised is not
    booked as done: the next step refreshes again instead of acting on stale data)."""
    f = ctx.prog.func("SyncEntry.get_latest")
    g = ctx.cfg(f)
    fetch = [n for n in g.nodes if node_has_call(n, "$P.unconditionally_get_latest($$$)")]
    stamp = [n for n in g.nodes if cfg_root(n) is not None and isinstance(cfg_root(n), ast.Assign) and any(
        isinstance(t, ast.Attribute) and t.attr == "_last_gotten" for t in cfg_root(n).targets)]
    if not fetch or not stamp:
        raise AnalysisError("SyncEntry.get_latest: refresh call / _last_gotten store not found")
    loops = [n for n in g.nodes if n.kind == "iter"]
    starts = [b for lp in loops for (b, l) in g.succ[lp.id] if l == "T"] or [g.entry.id]
    pth = g.reach(starts, lambda n: n in stamp, avoid=lambda n: n in fetch, follow=NORMAL, include_src=True)
    rep.check(rid, "get_latest|stamp-after-fetch", f, pth is None, "_last_gotten stored only after the refresh returned",
              "the refresh stamp can be stored before / without the provider refresh: a refresh that fails (temporary error, disconnect) is booked as done and the retry acts on stale state",
              witness=describe_path(pth) if pth else None)
