"""Reach conditions: for every action shape of a function, the boolean function of its guard atoms under which some site of that shape is reached.

The decision table (rules/decisions.py) compares *when* the engine takes each action.  Comparing the must-facts of single sites was not stable under
restructuring (guard clauses, merged / split tails, nested `if` against `and`): at a join the must-facts forget what the branches knew.  This module computes
the exact structured path condition instead:

* the function body is walked as a structured program; the condition of a statement is the condition of its block, the tests of the enclosing `if`s with their
  polarity, and the negated conditions under which an earlier statement of the block always leaves (return / raise / continue / break);
* a test is a formula over *atoms* (its and / or / not structure is kept; `x in (A, B)` is `x == A or x == B`; a local with one plain boolean definition is
  replaced by that definition); an atom is the normalised text of a leaf (rules/decisions._Norm: aliases expanded, sides as role tokens, locals by what defines
  them, comprehension variables as ELEM), so it does not depend on names;
* `except T:` contributes the atom EXCEPT('T'); a loop body is reached whenever the loop is (plus the `while` test); what follows a loop is reached whenever
  the loop is;
* all sites of one shape are or-ed: one function per (function, shape).  It is stored as a reduced ordered decision diagram over the atoms of its support in a
  name-independent order - a canonical form, so equivalence of two spellings is equality of two strings.  No solver is involved: the diagram is built by
  Shannon expansion of the formula.

The diagram of the current tree must equal the diagram of the table; a difference is reported with a state (an assignment of the atoms) in which the action is
taken now and was not, or the reverse.
"""
from __future__ import annotations

import ast
from typing import Dict, List, Tuple

from sa.guards import literals

TRUE, FALSE = ("T",), ("F",)


# ---------------------------------------------------------------------------------------------------------------- formulas
def f_not(a):
    if a == TRUE:
        return FALSE
    if a == FALSE:
        return TRUE
    if a[0] == "not":
        return a[1]
    return ("not", a)


def f_and(*xs):
    out = []
    for x in xs:
        if x == FALSE:
            return FALSE
        if x == TRUE:
            continue
        if x[0] == "and":
            out.extend(x[1:])
        else:
            out.append(x)
    ded = []
    for x in out:
        if x not in ded:
            ded.append(x)
    for x in ded:
        if f_not(x) in ded:
            return FALSE
    if not ded:
        return TRUE
    return ded[0] if len(ded) == 1 else ("and",) + tuple(ded)


def f_or(*xs):
    out = []
    for x in xs:
        if x == TRUE:
            return TRUE
        if x == FALSE:
            continue
        if x[0] == "or":
            out.extend(x[1:])
        else:
            out.append(x)
    ded = []
    for x in out:
        if x not in ded:
            ded.append(x)
    for x in ded:
        if f_not(x) in ded:
            return TRUE
    # (p and c) or (p and not c) -> p : the two arms of an `if` that both fall through
    changed = True
    while changed and len(ded) > 1:
        changed = False
        for i in range(len(ded)):
            for j in range(i + 1, len(ded)):
                a = set(ded[i][1:]) if ded[i][0] == "and" else {ded[i]}
                b = set(ded[j][1:]) if ded[j][0] == "and" else {ded[j]}
                d = a ^ b
                if len(d) == 2:
                    p, q = tuple(d)
                    if p == f_not(q):
                        m = f_and(*[x for x in (ded[i][1:] if ded[i][0] == "and" else (ded[i],)) if x in b])
                        ded = [x for k, x in enumerate(ded) if k not in (i, j)] + [m]
                        changed = True
                        break
            if changed:
                break
        if TRUE in ded:
            return TRUE
    if not ded:
        return FALSE
    return ded[0] if len(ded) == 1 else ("or",) + tuple(ded)


def atoms_of(f, acc=None):
    acc = set() if acc is None else acc
    if f[0] == "atom":
        acc.add(f[1])
    elif f[0] in ("and", "or", "not"):
        for x in f[1:]:
            atoms_of(x, acc)
    return acc


def restrict(f, atom, val):
    if f[0] == "atom":
        return (TRUE if val else FALSE) if f[1] == atom else f
    if f[0] == "not":
        return f_not(restrict(f[1], atom, val))
    if f[0] == "and":
        return f_and(*[restrict(x, atom, val) for x in f[1:]])
    if f[0] == "or":
        return f_or(*[restrict(x, atom, val) for x in f[1:]])
    return f


def diagram(f, order: List[str], memo=None):
    """reduced ordered decision diagram of f as nested tuples (atom index, low, high) / 0 / 1"""
    memo = {} if memo is None else memo

    def build(g, i):
        if g == TRUE:
            return 1
        if g == FALSE:
            return 0
        key = (g, i)
        if key in memo:
            return memo[key]
        sup = atoms_of(g)
        while i < len(order) and order[i] not in sup:
            i += 1
        if i >= len(order):
            raise ValueError("atom outside the order")
        lo = build(restrict(g, order[i], False), i + 1)
        hi = build(restrict(g, order[i], True), i + 1)
        r = lo if lo == hi else (i, lo, hi)
        memo[key] = r
        return r
    return build(f, 0)


def support(d, acc=None):
    acc = set() if acc is None else acc
    if isinstance(d, tuple):
        acc.add(d[0])
        support(d[1], acc)
        support(d[2], acc)
    return acc


def renumber(d, m):
    if not isinstance(d, tuple):
        return d
    return (m[d[0]], renumber(d[1], m), renumber(d[2], m))


def show_diagram(d) -> str:
    if not isinstance(d, tuple):
        return str(d)
    return "(%d?%s:%s)" % (d[0], show_diagram(d[2]), show_diagram(d[1]))


def difference(da, db, n):
    """an assignment (list of (index, value)) on which the two diagrams over the same n atoms differ, with the value of the first"""
    def ev(d, asg):
        while isinstance(d, tuple):
            d = d[2] if asg.get(d[0], False) else d[1]
        return d

    def rec(a, b, asg):
        if a == b:
            return None
        if not isinstance(a, tuple) and not isinstance(b, tuple):
            return (dict(asg), a)
        i = min([x[0] for x in (a, b) if isinstance(x, tuple)])
        for v in (True, False):
            a2 = (a[2] if v else a[1]) if isinstance(a, tuple) and a[0] == i else a
            b2 = (b[2] if v else b[1]) if isinstance(b, tuple) and b[0] == i else b
            asg[i] = v
            r = rec(a2, b2, asg)
            if r is not None:
                return r
            del asg[i]
        return None
    return rec(da, db, {})


# ---------------------------------------------------------------------------------------------------------------- walking a function
class Walker:
    """sites of one function with their reach conditions"""

    def __init__(self, ctx, f, norm, site_fn, helper_fn=None, norm_fn=None):
        self.ctx, self.f, self.nm, self.site_fn = ctx, f, norm, site_fn
        self.helper_fn, self.norm_fn = helper_fn, norm_fn      # call -> new single-use private helper to read as part of this function
        self.skip_calls = set()                             # ids of call nodes that were read inline (not sites themselves)
        self.frames = 0                                     # > 0 while walking a helper's body
        self.returned = FALSE                               # inside a helper read in statement position: the conditions under which it returned
        self.before = set()                                 # (shape A, shape B): in some block, a statement doing A stands before a statement doing B
        self.ret_values: List = []                          # inside a helper read in statement position: (condition, returned expression, its frame's normaliser, statement)
        self.valflow: Dict = {}                             # id(assignment statement) -> {target name: [(condition, truth formula of the value returned on that path)]}
        self.sites: List[Tuple[str, ast.AST, tuple]] = []      # (shape, statement, formula)
        self.first_pos: Dict[str, Tuple[int, int]] = {}
        self.epoch = 0                                      # advanced by every action site: a guard evaluated again after an action is another atom
        self.vers: Dict[str, Tuple[int, int]] = {}           # per path: test -> (version, epoch of its last evaluation)

    # -- formulas of tests
    def atom(self, text: str, node) -> tuple:
        if not text.startswith(("EXCEPT(", "KEPT(", "WITHIN(", "GUARDED(")) and self._mutable(text):
            k, last = self.vers.get(text, (0, self.epoch))
            if last != self.epoch:
                k += 1                  # the function has acted since this test was last evaluated on this path
            self.vers[text] = (k, self.epoch)
            if k:
                text = "AGAIN(%s, %d)" % (text, k)       # the same test, evaluated again after the function has acted
        self.first_pos.setdefault(text, (getattr(node, "lineno", 0), getattr(node, "col_offset", 0)))
        return ("atom", text)

    @staticmethod
    def _mutable(text: str) -> bool:
        """can the truth of this test change while the function runs?  A test of parameters / constants alone (`oid is not None`) cannot: it has no versions."""
        try:
            e = ast.parse(text, mode="eval").body
        except SyntaxError:
            return True
        return any(isinstance(x, (ast.Attribute, ast.Subscript, ast.Call)) for x in ast.walk(e))

    def _ctx_text(self, e: ast.AST) -> str:
        from rules.common import generalise
        try:
            return generalise(ast.unparse(self.nm.expr(e, at=e)))
        except Exception:
            return ast.unparse(e)

    def leaf(self, e: ast.AST, at) -> tuple:
        from sa.canon import canon_text
        # membership in a small literal collection is a disjunction of equalities
        if isinstance(e, ast.Compare) and len(e.ops) == 1 and isinstance(e.ops[0], (ast.In, ast.NotIn)) and isinstance(e.comparators[0], (ast.Tuple, ast.List, ast.Set)) \
                and 1 <= len(e.comparators[0].elts) <= 5 and not any(isinstance(x, ast.Starred) for x in e.comparators[0].elts):
            eqs = []
            for el in e.comparators[0].elts:
                cmp_ = ast.parse(canon_text("%s == %s" % (ast.unparse(e.left), ast.unparse(el))), mode="eval").body
                eqs.append(self.leaf(cmp_, at))
            r = f_or(*eqs)
            return f_not(r) if isinstance(e.ops[0], ast.NotIn) else r
        if isinstance(e, ast.Call) and isinstance(e.func, ast.Name) and e.func.id == "isinstance" and len(e.args) == 2 and isinstance(e.args[1], ast.Tuple) \
                and 1 <= len(e.args[1].elts) <= 6:
            return f_or(*[self.leaf(ast.Call(func=e.func, args=[e.args[0], el], keywords=[]), at) for el in e.args[1].elts])
        lits = literals(e, True)
        out = []
        for (t, p) in sorted(lits):
            txt = _symmetric(self.nm.txt(t, at))
            a = self.atom(txt, e)
            out.append(a if p else f_not(a))
        return f_and(*out)

    def _truth(self, v, at) -> tuple:
        """the formula of `bool(v)` for a value a helper returns (evaluated in the helper's frame, which is the current one)"""
        if v is None or (isinstance(v, ast.Constant) and not v.value):
            return FALSE
        if isinstance(v, ast.Constant):
            return TRUE
        if isinstance(v, (ast.List, ast.Tuple, ast.Set, ast.Dict)):
            return TRUE if (getattr(v, "elts", None) or getattr(v, "keys", None)) else FALSE
        return self.formula(v, at if at is not None else v)

    def formula(self, e: ast.AST, at, depth=0) -> tuple:
        if isinstance(e, ast.Name) and e.id in self.nm.locdefs and self.valflow:
            ents = self.nm.reaching(e.id, at)
            if len(ents) == 1 and ents[0][2] is not None and id(ents[0][2]) in self.valflow and e.id in self.valflow[id(ents[0][2])]:
                # the local holds what a helper (read in place) returned: true exactly on the helper's paths that return something true
                return f_or(*[f_and(c_, t_) for (c_, t_) in self.valflow[id(ents[0][2])][e.id]])
        if isinstance(e, ast.UnaryOp) and isinstance(e.op, ast.Not):
            return f_not(self.formula(e.operand, at, depth))
        if isinstance(e, ast.BoolOp):
            parts = [self.formula(v, at, depth) for v in e.values]
            return f_and(*parts) if isinstance(e.op, ast.And) else f_or(*parts)
        if isinstance(e, ast.Constant):
            return TRUE if e.value else FALSE
        if isinstance(e, ast.Name) and depth < 3 and e.id in self.nm.locdefs and e.id not in self.nm.side_names:
            ents = self.nm.reaching(e.id, at)
            if len(ents) == 1 and ents[0][0] == "=" and isinstance(ents[0][1], (ast.BoolOp, ast.Compare, ast.UnaryOp)) and not self.nm._opaque(ents[0][1]) \
                    and not any(isinstance(x, ast.Name) and x.id == e.id for x in ast.walk(ents[0][1])):
                return self.formula(ents[0][1], ents[0][2], depth + 1)
        return self.leaf(e, at)

    # -- statements
    def add_sites(self, node, at, cond):
        found = self.site_fn(self, node, at)
        for (shape, extra) in found:
            self.sites.append((shape, at, f_and(cond, extra)))
        if any(not sh.startswith(("return ", "raise ", "continue", "yield ", "set ", "filter ")) for (sh, _e) in found):
            self.epoch += 1

    def block(self, stmts, cond) -> tuple:
        """walks the statements under `cond`; returns the condition under which the block completes normally"""
        cur = cond
        done_shapes: List[set] = []
        mark = len(self.sites)
        for st in stmts:
            new = {sh for (sh, _s, _c) in self.sites[mark:] if _effect(sh)}
            if new or done_shapes:
                for prev in done_shapes:
                    for a in prev:
                        for b in new:
                            if a != b:
                                self.before.add((a, b))
                if new:
                    done_shapes.append(new)
            mark = len(self.sites)
            if cur == FALSE:
                break               # unreachable in the structured sense
            if isinstance(st, ast.If):
                c = self.formula(st.test, st.test)      # the test is evaluated before what it calls counts as done
                self.add_sites(st.test, st.test, cur)
                e0, v0 = self.epoch, dict(self.vers)
                t_out = self.block(st.body, f_and(cur, c))
                e1, v1 = self.epoch, self.vers
                self.epoch, self.vers = e0, dict(v0)
                f_out = self.block(st.orelse, f_and(cur, f_not(c)))
                e2, v2 = self.epoch, self.vers
                # the arms are alternatives: both start from the same point; what follows comes after whichever arm can fall through
                live = ([(e1, v1)] if t_out != FALSE else []) + ([(e2, v2)] if f_out != FALSE else [])
                self.epoch = max([e0] + [e for e, _v in live])
                self.vers = self._join([v for _e, v in live]) if live else dict(v0)
                cur = f_or(t_out, f_out)
            elif isinstance(st, (ast.For, ast.AsyncFor)):
                self.add_sites(st.iter, st.iter, cur)
                self.block(st.body, cur)
                self.block(st.orelse, cur)
            elif isinstance(st, ast.While):
                c = self.formula(st.test, st.test)
                self.add_sites(st.test, st.test, cur)
                self.block(st.body, f_and(cur, c))
                self.block(st.orelse, cur)
                if isinstance(st.test, ast.Constant) and st.test.value and not any(isinstance(x, ast.Break) for x in ast.walk(st)):
                    cur = FALSE
            elif isinstance(st, (ast.With, ast.AsyncWith)):
                for it in st.items:
                    self.add_sites(it.context_expr, it.context_expr, cur)
                # what runs inside `with X:` runs WITHIN(X): a statement moved out of the block (out of the lock, out of the error translation) acts in other states
                ctxs = [self.atom("WITHIN(%r)" % self._ctx_text(it.context_expr), it.context_expr) for it in st.items]
                out = self.block(st.body, f_and(cur, *ctxs))
                for a in ctxs:
                    out = restrict(out, a[1], True)
                    self.returned = restrict(self.returned, a[1], True)      # a helper that returned from inside the block has left it
                cur = out
            elif isinstance(st, ast.Try):
                # the body of a try runs GUARDED by its handlers: a statement moved out of the try is no longer covered by them
                types = sorted((ast.unparse(h.type) if h.type is not None else "BaseException") for h in st.handlers)
                ga = self.atom("GUARDED(%r)" % ", ".join(types), st) if types else None
                b_out = self.block(st.body, f_and(cur, ga) if ga else cur)
                if ga:
                    b_out = restrict(b_out, ga[1], True)
                    self.returned = restrict(self.returned, ga[1], True)
                outs = []
                e1, v1 = self.epoch, dict(self.vers)
                ends, lives = e1, []
                for h in st.handlers:
                    self.epoch, self.vers = e1, dict(v1)
                    a = self.atom("EXCEPT(%r)" % (ast.unparse(h.type) if h.type is not None else "BaseException"), h)
                    outs.append(self.block(h.body, f_and(cur, a)))
                    if outs[-1] != FALSE:
                        ends = max(ends, self.epoch)
                        lives.append(self.vers)
                self.epoch, self.vers = e1, dict(v1)
                e_out = self.block(st.orelse, b_out) if st.orelse else b_out
                if e_out != FALSE:
                    lives.append(self.vers)
                self.epoch = max(ends, self.epoch)
                self.vers = self._join(lives) if lives else dict(v1)
                done = f_or(e_out, *outs)
                if st.finalbody:
                    fin = self.block(st.finalbody, cur)
                    if fin == FALSE:
                        done = FALSE
                cur = done
            elif isinstance(st, (ast.FunctionDef, ast.AsyncFunctionDef, ast.ClassDef, ast.Assert, ast.Pass, ast.Global, ast.Nonlocal, ast.Import, ast.ImportFrom)):
                continue
            else:
                inl = self._inline(st, cur)
                if inl is not None:
                    cur = inl
                    continue
                if isinstance(st, ast.Return) and self.frames and self.returns_are_values:
                    # a `return` of a helper read in statement position ends the helper, not the function
                    self.add_sites(ast.Expr(value=st.value) if st.value is not None else ast.Pass(), st, cur) if st.value is not None else None
                    self.returned = f_or(self.returned, cur)
                    self.ret_values.append((cur, st.value, self.nm, st))
                    cur = FALSE
                    continue
                self.add_sites(st, st, cur)
                if isinstance(st, (ast.Return, ast.Raise, ast.Continue, ast.Break)):
                    cur = FALSE
        new = {sh for (sh, _s, _c) in self.sites[mark:] if _effect(sh)}
        for prev in done_shapes:
            for a in prev:
                for b in new:
                    if a != b:
                        self.before.add((a, b))
        return cur

    returns_are_values = False

    def _inline(self, st, cur):
        """`self._helper(...)`, `x = self._helper(...)`, `return self._helper(...)` with a new private helper that only this statement calls: the helper's body is
        read in place (its own names are normalised in its own frame).  Returns the condition under which the statement completes, or None if it is no such call."""
        if self.helper_fn is None or self.frames >= 2:
            return None
        call = None
        if isinstance(st, ast.Expr) and isinstance(st.value, ast.Call):
            call, as_return = st.value, False
        elif isinstance(st, (ast.Assign, ast.AnnAssign)) and isinstance(getattr(st, "value", None), ast.Call):
            call, as_return = st.value, False
        elif isinstance(st, ast.Return) and isinstance(st.value, ast.Call):
            call, as_return = st.value, True
        if call is None:
            return None
        h = self.helper_fn(self.f, call)
        if h is None:
            return None
        # what the arguments evaluate is still evaluated here
        for a in list(call.args) + [k.value for k in call.keywords]:
            self.add_sites(a, st, cur)
        saved = (self.f, self.nm, self.returned, self.returns_are_values, self.ret_values)
        self.f, self.nm = h, self.norm_fn(h, call)
        self.frames += 1
        self.returned, self.returns_are_values, self.ret_values = FALSE, not as_return, []
        try:
            out = self.block(h.node.body, cur)
            done = f_or(out, self.returned)
            if isinstance(st, ast.Assign) and len(st.targets) == 1:
                # what the helper returns on each of its paths flows into the caller's local(s): `x = self._h(...)`, `a, b = self._h(...)`
                tg = st.targets[0]
                names = [tg.id] if isinstance(tg, ast.Name) else ([e.id if isinstance(e, ast.Name) else None for e in tg.elts] if isinstance(tg, ast.Tuple) else [])
                flows = {n: [] for n in names if n}
                usable = bool(flows)
                for (c_, v, nm_, rst) in self.ret_values + ([(out, None, self.nm, None)] if out != FALSE else []):
                    for i, n in enumerate(names):
                        if not n:
                            continue
                        if isinstance(tg, ast.Tuple):
                            if isinstance(v, ast.Tuple) and len(v.elts) == len(names):
                                vv = v.elts[i]
                            else:
                                usable = False
                                continue
                        else:
                            vv = v
                        t_ = self._truth(vv, rst)
                        if any("|" in a and a.startswith(("DEF(", "AGAIN(DEF(")) or ("DEF('" in a and " | " in a) for a in atoms_of(t_)):
                            usable = False      # the value is a local with several definitions: its description depends on how the tails are written
                        flows[n].append((c_, t_))
                if usable:
                    self.valflow[id(st)] = flows
        finally:
            self.frames -= 1
            self.f, self.nm, self.returned, self.returns_are_values, self.ret_values = saved
        if isinstance(st, (ast.Assign, ast.AnnAssign)):
            # the assignment itself (a store to an attribute / item) is a site of the caller
            self.skip_calls.add(id(call))
            self.add_sites(st, st, done)
        return FALSE if as_return else done

    @staticmethod
    def _join(vs):
        out = {}
        for v in vs:
            for t, (k, e) in v.items():
                if t not in out or (k, e) > out[t]:
                    out[t] = (k, e)
        return out

    def run(self):
        self.block(self.f.node.body, TRUE)
        return self.sites


def _effect(shape: str) -> bool:
    return not shape.startswith(("return ", "raise ", "yield ", "set ", "filter "))


def order_pairs(walker: "Walker"):
    """pairs (A, B) of action shapes such that A stands before B in some block and B never stands before A: the order the function acts in"""
    coupled = _coupled_attributes(walker.ctx)

    def plain_store(sh):
        # a store to an attribute that no `__setattr__` / `updated` hook / property setter of the program looks at: it has no effect beyond the field
        if not sh.startswith("store "):
            return False
        attr = sh.rsplit(".", 1)[-1]
        return attr not in coupled
    return sorted((a, b) for (a, b) in walker.before if (b, a) not in walker.before and not (plain_store(a) and plain_store(b)))


def _coupled_attributes(ctx):
    """attribute names some hook of the program reacts to when they are stored: the string constants a `__setattr__` / `updated` compares its key parameter with,
    and the names of property setters.  Two stores to other attributes commute."""
    cache = ctx.__dict__.setdefault("_decision_coupled", None)
    if cache is not None:
        return cache
    out = set()
    for g in ctx.prog.functions.values():
        if isinstance(g.node, ast.Lambda):
            continue
        if g.name in ("__setattr__", "updated", "__setitem__"):
            for x in ast.walk(g.node):
                if isinstance(x, ast.Compare):
                    for c in [x.left] + list(x.comparators):
                        if isinstance(c, ast.Constant) and isinstance(c.value, str):
                            out.add(c.value)
                        elif isinstance(c, (ast.Tuple, ast.List, ast.Set)):
                            out |= {e.value for e in c.elts if isinstance(e, ast.Constant) and isinstance(e.value, str)}
        for d in getattr(g.node, "decorator_list", []) or []:
            if isinstance(d, ast.Attribute) and d.attr == "setter":
                out.add(g.name)
    ctx.__dict__["_decision_coupled"] = out
    return out


def _symmetric(txt: str) -> str:
    """`a == b` / `a is b` with the operands in a name-independent order"""
    try:
        e = ast.parse(txt, mode="eval").body
    except SyntaxError:
        return txt
    if isinstance(e, ast.Compare) and len(e.ops) == 1 and isinstance(e.ops[0], (ast.Eq, ast.Is)) and not isinstance(e.comparators[0], ast.Constant):
        from rules.common import generalise
        l, r = ast.unparse(e.left), ast.unparse(e.comparators[0])
        kl, kr = (generalise(l), len(l), l), (generalise(r), len(r), r)
        if kr < kl:
            return "%s %s %s" % (r, "==" if isinstance(e.ops[0], ast.Eq) else "is", l)
    return txt


def shape_functions(walker: Walker):
    """shape -> (generalised atoms of the support in canonical order, diagram text, raw atoms, diagram)"""
    from rules.common import generalise
    by_shape: Dict[str, List] = {}
    for (shape, st, cond) in walker.sites:
        by_shape.setdefault(shape, []).append((st, cond))
    out = {}
    for shape, lst in by_shape.items():
        f = f_or(*[c for (_st, c) in lst])
        ats = sorted(atoms_of(f), key=lambda a: (generalise(a) if _parses(a) else a, walker.first_pos.get(a, (0, 0)), a))
        d = diagram(f, ats)
        sup = sorted(support(d))
        m = {old: new for new, old in enumerate(sup)}
        d2 = renumber(d, m)
        raw = [ats[i] for i in sup]
        out[shape] = ([generalise(a) if _parses(a) else a for a in raw], show_diagram(d2), raw, d2, [st for (st, _c) in lst])
    return out


def _parses(t: str) -> bool:
    try:
        ast.parse(t, mode="eval")
        return True
    except SyntaxError:
        return False


def parse_diagram(s: str):
    pos = [0]

    def rec():
        if s[pos[0]] == "(":
            pos[0] += 1
            j = s.index("?", pos[0])
            i = int(s[pos[0]:j])
            pos[0] = j + 1
            hi = rec()
            assert s[pos[0]] == ":"
            pos[0] += 1
            lo = rec()
            assert s[pos[0]] == ")"
            pos[0] += 1
            return (i, lo, hi)
        v = int(s[pos[0]])
        pos[0] += 1
        return v
    return rec()
