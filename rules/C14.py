"""C14 - events are hints: duplicated, delayed, reordered, replayed events change nothing.

Decided (refresh-before-act discipline): every path to sync() in a step passes a refresh of the entry from the providers
(W1); change stamps strictly increase so a later event always forces a refresh (W2 = C17.A6); events without an id are
dropped before the state is touched (W3); the no-information arm never reports an object as existing and honours the
tombstone (W4); the freshness marker is written only by the refresh, its invalidation and the accurate-event path (W5);
walk events that change nothing are dropped (W6).
Not decided: equality of outcomes under duplication / delay / permutation / batching.
"""
from __future__ import annotations

import ast

from sa.model import AnalysisError
from sa.ctx import Ctx, short, stmt_key
from sa.cfg import NORMAL, describe_path
from sa.report import Report, section
from sa.util import cfg_root, node_has_call, has_fact, exists_in, fact_in, local_assigned_from
from sa import pat


def _assign(n, patt):
    r = cfg_root(n)
    return r is not None and isinstance(r, ast.Assign) and pat.match(patt, r) is not None


def w4(ctx: Ctx, rep: Report, rid: str = "C14.W4"):
    p = ctx.prog
    rep.rule(rid, "no information about an object never makes it EXISTS: unconditionally_get_no_info stores only TRASHED / MISSING, ends with a "
             "LIKELY_TRASHED entry tombstoned (TRASHED) for every provider style, and unconditionally_get_latest returns right after it", expect_min=3)
    ni = p.func("SyncState.unconditionally_get_no_info")
    ent, side = ni.params()[1:3]
    vals = set()
    for n in ctx.own_nodes(ni):
        if isinstance(n, ast.Assign) and pat.match("%s[%s].exists" % (ent, side), n.targets[0]) is not None:
            vals |= {x.id for x in ast.walk(n.value) if isinstance(x, ast.Name) and x.id.isupper()}
    rep.check(rid, "no_info|values", ni, vals and vals <= {"TRASHED", "MISSING"}, "stores %s" % sorted(vals), "the no-information arm can store %s" % sorted(vals - {"TRASHED", "MISSING"}))
    gn = ctx.cfg(ni)
    lt = [n for n in gn.nodes if n.kind == "test" and pat.match("%s[%s].exists == LIKELY_TRASHED" % (ent, side), n.ast) is not None]
    ok = bool(lt)
    if ok:
        starts = [b for t in lt for (b, l) in gn.succ[t.id] if l == "T"]
        follow_if = [n for n in gn.nodes if n.kind == "test" and n not in lt]
        first_after = None
        pth = gn.reach(starts, lambda n: n in follow_if or n is gn.exit, avoid=lambda n: _assign(n, "%s[%s].exists = TRASHED" % (ent, side)), follow=NORMAL, include_src=True)
        # tests inside the LIKELY_TRASHED arm itself (the oid_is_path log branch) are allowed to be crossed
        inner = {id(x) for t in lt for x in ast.walk(t.ast)}
        arm_tests = [n for n in follow_if if any(isinstance(i, ast.If) and i.test is t.ast and any(x is n.ast for b in i.body for x in ast.walk(b)) for t in lt for i in ctx.own_nodes(ni) if isinstance(i, ast.If))]
        pth = gn.reach(starts, lambda n: (n in follow_if and n not in arm_tests) or n is gn.exit, avoid=lambda n: _assign(n, "%s[%s].exists = TRASHED" % (ent, side)), follow=NORMAL, include_src=True)
        ok = pth is None
    if ok:
        # nothing may overwrite a LIKELY_TRASHED existence before that test: the only earlier store allowed is the UNKNOWN arm
        stores = [n for n in gn.nodes if _assign(n, "%s[%s].exists = $V" % (ent, side))]
        early = []
        for st_ in stores:
            if gn.reach([st_.id], lambda n: n in lt, follow=NORMAL) is not None and not exists_in(ctx.facts(ni).facts(st_), "%s[%s].exists" % (ent, side), {"UNKNOWN"}, pol=True):
                early.append(st_)
        if early:
            ok = False
    rep.check(rid, "no_info|tombstone", ni, ok, "LIKELY_TRASHED + no info -> TRASHED on every path", "a tombstoned id that is gone is not confirmed as TRASHED for every provider style (it becomes MISSING: the deleted file is resurrected)")
    ul = p.func("SyncState.unconditionally_get_latest")
    gu = ctx.cfg(ul)
    nic = [n for n in gu.nodes if node_has_call(n, "self.unconditionally_get_no_info($$$)")]
    iname = local_assigned_from(ctx, ul, "$P.info_oid($$$)")
    ok = bool(nic) and iname is not None and all(fact_in(ctx.facts(ul).facts(n), iname, False) for n in nic)
    ex = [n for n in gu.nodes if _assign(n, "$E[$S].exists = EXISTS")]
    pth = gu.reach([n.id for n in nic], lambda n: n in ex, follow=NORMAL) if nic else None
    rep.check(rid, "get_latest|no-info-returns", ul, ok and pth is None, "no info -> no_info arm, then return", "after the no-information arm the entry can still be marked EXISTS",
              witness=describe_path(pth) if pth else None)


def run(ctx: Ctx, rep: Report, tier: str):
    p = ctx.prog
    rep.rule("C14.W1", "SyncManager.pre_sync reaches a falsy return only through sync.get_latest(); its other returns are truthy constants; "
             "SmartSyncManager.pre_sync can be falsy only when super().pre_sync() was (C20.S1); get_latest refreshes a side whenever a newer "
             "change stamp exists", expect_min=3)
    f = p.func("SyncManager.pre_sync")
    g = ctx.cfg(f)
    sync = f.params()[1]
    rets = [n for n in g.nodes if n.kind == "stmt" and isinstance(n.ast, ast.Return)]
    falsy = [n for n in rets if n.ast.value is None or (isinstance(n.ast.value, ast.Constant) and not n.ast.value.value)]
    other = [n for n in rets if n not in falsy and not (isinstance(n.ast.value, ast.Constant) and n.ast.value.value is True)]
    gl = lambda n: node_has_call(n, "%s.get_latest()" % sync)   # noqa: E731
    pth = g.reach([g.entry.id], lambda n: n in falsy, avoid=gl, follow=NORMAL)
    rep.check("C14.W1", "pre_sync|refresh", f, bool(falsy) and not other and pth is None, "falsy result only after get_latest()",
              "sync() can be reached without re-reading the truth from the providers: the engine acts on the event's own (possibly stale) data",
              witness=describe_path(pth) if pth else None)
    sm = p.func("SmartSyncManager.pre_sync")
    base = any(isinstance(n, ast.Call) and pat.match("super().pre_sync(%s)" % sm.params()[1], n) is not None for n in ctx.own_nodes(sm))
    rep.check("C14.W1", "SmartSyncManager.pre_sync|super", sm, base, "builds on super().pre_sync()", "the on-demand pre_sync no longer runs the refreshing base implementation")
    ge = p.func("SyncEntry.get_latest")
    calls = [c for c in ctx.calls(ge, "unconditionally_get_latest")]
    ok = bool(calls)
    mk = [n for n in ctx.own_nodes(ge) if isinstance(n, ast.Assign) and isinstance(n.value, ast.Call) and isinstance(n.value.func, ast.Name) and n.value.func.id == "max" and isinstance(n.targets[0], ast.Name)]
    mx = mk[0].targets[0].id if mk else "?"
    for c in calls:
        facts = ctx.facts_at(ge, c)
        ok = ok and (has_fact(facts, "force or %s > $S._last_gotten" % mx, True) or has_fact(facts, "%s > $S._last_gotten or force" % mx, True))
    rep.check("C14.W1", "get_latest|condition", ge, ok and bool(mk), "refresh when forced or a change stamp is newer than the last refresh",
              "get_latest no longer refreshes exactly when `force or max_changed > _last_gotten`")
    rep.rule("C14.W2", "change stamps strictly increase (alias of C17.A6): an event arriving in the same clock tick still outdates the last refresh", expect_min=1)
    from rules.C17 import C17
    c17 = C17(ctx, rep)
    for k in ("C17.A5", "C17.A6", "C17.A7"):
        rep.rules[k] = "alias"
    c17.a5_a7()
    for i in list(rep.instances):
        if i.rule == "C17.A6":
            i.rule = "C14.W2"
        elif i.rule in ("C17.A5", "C17.A7"):
            rep.instances.remove(i)
    for k in ("C17.A5", "C17.A6", "C17.A7"):
        rep.rules.pop(k, None)
        rep.expect.pop(k, None)
    rep.rule("C14.W3", "_process_event touches the state only for events that carry an id (after the folder-delete-by-path lookup)", expect_min=1)
    pe = p.func("EventManager._process_event")
    ups = [c for c in ctx.calls(pe, "update") if pat.match("self.state.update($$$)", c) is not None]
    ok = bool(ups) and all(("event.oid is None", False) in ctx.facts_at(pe, c) for c in ups)
    rep.check("C14.W3", "_process_event|id", pe, ok, "state.update only with an id", "an event without an id reaches state.update")
    w4(ctx, rep)
    rep.rule("C14.W5", "_last_gotten is written only by get_latest, mark_dirty, the SideState constructor and update_entry under `accurate`", expect_min=4)
    allowed = {"SyncEntry.get_latest", "SyncEntry.mark_dirty", "SideState.__init__", "SyncState.update_entry"}
    k = 0
    for fn in ctx.prog.functions.values():
        for n in ctx.own_nodes(fn):
            if isinstance(n, ast.Attribute) and isinstance(n.ctx, ast.Store) and n.attr in ("_last_gotten", "last_gotten"):
                k += 1
                nm = ".".join(fn.qname.split(".")[-2:])
                ok = nm in allowed
                if nm == "SyncState.update_entry":
                    ok = ("accurate", True) in ctx.facts_at(fn, n)
                rep.check("C14.W5", stmt_key(fn, n), ctx.line(fn, n), ok, "allowed writer", "%s writes the freshness marker: a stale entry can be taken for fresh and synced without a refresh" % short(fn.qname),
                          func=fn.qname, nontrivial=False)
    if k < 4:
        raise AnalysisError("only %d stores to _last_gotten found, expected >= 4" % k)
    rep.rule("C14.W6", "a walk event is dropped only when the entry is known and neither its hash nor its path differs", expect_min=1)
    g2 = ctx.cfg(pe)
    rets = [n for n in g2.nodes if n.kind == "stmt" and isinstance(n.ast, ast.Return) and fact_in(ctx.facts(pe).facts(n), "from_walk", True)]
    chg = [n for n in ctx.own_nodes(pe) if isinstance(n, ast.Assign) and isinstance(n.targets[0], ast.Name) and isinstance(n.value, ast.BoolOp)
           and {"hash", "path"} <= {x.attr for x in ast.walk(n.value) if isinstance(x, ast.Attribute)}]
    cname = chg[0].targets[0].id if chg else None
    aname = local_assigned_from(ctx, pe, "self.state.lookup_oid(self.side, event.oid)") or "?"
    from rules.common import unchanged_walk_facts
    ok = bool(rets)
    for r in rets:
        facts = ctx.facts(pe).facts(r)
        ok = ok and fact_in(facts, aname, True) and unchanged_walk_facts(facts, cname)
    # the difference test is a disjunction of the two comparisons (in a local, or in place - then the facts above are its negation)
    ok = ok and (not chg or (len(chg) == 1 and isinstance(chg[0].value, ast.BoolOp) and isinstance(chg[0].value.op, ast.Or)))
    rep.check("C14.W6", "_process_event|walk-dedupe", pe, ok, "dropped only when known and hash and path are equal", "walk events are dropped under a weaker condition (a changed object is missed) or never")
    from rules.common import refresh_marks_changed
    rep.rule("C14.W7", "a refresh that discovers a new hash or a new path stamps the side changed (unless ignored / already changed): what was learnt from the "
             "provider is acted upon even if the corresponding event never arrives", expect_min=2)
    section(rep, lambda: refresh_marks_changed(ctx, rep, "C14.W7"))
    from rules.common import refresh_marks_exists
    rep.rule("C14.W8", "a refresh that finds the object marks the side EXISTS on every path, whether or not the content hash changed: a stale tombstone is "
             "corrected by the refreshed truth before sync() acts on it", expect_min=1)
    section(rep, lambda: refresh_marks_exists(ctx, rep, "C14.W8"))
    from rules.common import refresh_stamp_after_fetch
    rep.rule("C14.W9", "the refresh stamp is stored only after the refresh returned (C10.T8): a failed refresh does not let sync() proceed on the event's stale data", 1)
    section(rep, lambda: refresh_stamp_after_fetch(ctx, rep, "C14.W9"))
    from rules.common import walk_dedupe_is_exact, parent_recorded_when_provider_knows_it
    rep.rule("C14.W6b", "a walk event is dropped only when hash and path are exactly equal to the state's (no comparison modulo case / separators)", 1)
    section(rep, lambda: walk_dedupe_is_exact(ctx, rep, "C14.W6b"))
    rep.rule("C14.W10", "a late / missing parent-folder event is harmless: when a transfer fails because the parent is unknown at its path, the parent the provider reports "
             "there is recorded in the state unconditionally", 1)
    section(rep, lambda: parent_recorded_when_provider_knows_it(ctx, rep, "C14.W10"))
    from rules.common import event_application_writes_through
    rep.rule("C14.W11", "how an event becomes state: SyncState.update looks the object up on the event's side, creates an entry only when none is known, and hands every field "
             "to update_entry, which writes each field the event carries to that side only - guarded by nothing but 'the event carries it' - stores the existence flag on "
             "every path and marks the entry changed", 12)
    section(rep, lambda: event_application_writes_through(ctx, rep, "C14.W11"))
    from rules.common import refresh_writes_through
    rep.rule("C14.W12", "how the provider's answer becomes state: the refresh asks info_oid for the entry's id on that side with the cache bypassed, touches that side only, "
             "and writes type, path, size, mtime (every path) and hash (whenever it differs) of the answer to the state", 8)
    section(rep, lambda: refresh_writes_through(ctx, rep, "C14.W12"))
    from rules.common import pathless_event_takes_known_path
    rep.rule("C14.W13", "an event that carries no path is completed from the state: _fill_event_path copies the path the state knows for the event's id under no further condition", 1)
    section(rep, lambda: pathless_event_takes_known_path(ctx, rep, "C14.W13"))
    from rules.common import idless_delete_lookup_is_live
    rep.rule("C14.W14", "an id-less folder delete is matched to the live folder of that path (no stale look-up)", 1)
    section(rep, lambda: idless_delete_lookup_is_live(ctx, rep, "C14.W14"))
    from rules.decisions import decision_table, table_sites
    rep.rule("C14.DT", "decision table (rules/decisions.json) of event application: EventManager._process_event and its helpers, SyncState.update and the creation / deletion look-ups: for every function and every action shape (an impure call with the parameters it passes, a store to an "
             "attribute or item, a delete, a returned constant, a yield, a raise) the set of states - over the function's guard atoms - in which the action is taken "
             "equals the recorded one; compared as canonical decision diagrams, so any equivalent respelling of the guards is the same table", table_sites("C14"))
    section(rep, lambda: decision_table(ctx, rep, "C14.DT", "C14"))
