"""C17 - scheduling laws: nothing syncs before it has aged; lower priority value and older change go first.

Decided: the entry returned by SyncState.change is the loop variable of an ascending sort of the pending set (A1) under
the eligibility predicate, which - as a boolean combination of linear inequalities over (changed, now, age) and the
priority test - equals `(changed_s and changed_s <= now - age) for some side s, or priority < 0` (A2); the sort key is
(priority, time) un-negated (A3); the manager passes its ageing value and syncs exactly the returned entry (A4); a punt
raises the priority by one and defers the change time by a bounded amount (A5); change times strictly increase (A6);
finishing an entry resets the priority of related deferred entries (A7).
Not decided: virtual-time behaviour of whole runs; starvation freedom.
"""
from __future__ import annotations

import ast

from sa.model import AnalysisError, FuncInfo
from sa.ctx import Ctx, short, stmt_key
from sa.cfg import NORMAL, describe_path
from sa.report import Report, section
from sa.util import cfg_root, node_has_call, node_stores_attr, has_fact, extra_facts, fact_in, fact_in
from sa import pat, linear


class C17:
    def __init__(self, ctx: Ctx, rep: Report):
        self.ctx, self.rep = ctx, rep
        self.state = ctx.prog.cls("SyncState")
        self.f = self.state.methods["change"]

    def a1_a3(self):
        rep, ctx, f = self.rep, self.ctx, self.f
        rep.rule("C17.A1", "every non-None return of SyncState.change returns the loop variable of an iteration over "
                 "sorted(<pending set>, key=K) in ascending order", expect_min=1)
        rep.rule("C17.A2", "the eligibility predicate guarding that return equals, as a disjunction over linear inequalities: "
                 "(changed_L and changed_L <= now - age) or (changed_R and changed_R <= now - age) or priority < 0, with now = time.time() "
                 "and age the parameter", expect_min=1)
        rep.rule("C17.A3", "the sort key is a tuple whose first component is the entry's priority and whose second is time based, "
                 "neither negated; no reverse", expect_min=1)
        age = f.params()[1]
        rets = [n for n in ctx.own_nodes(f) if isinstance(n, ast.Return) and n.value is not None and not (isinstance(n.value, ast.Constant) and n.value.value is None)]
        if not rets:
            rep.violation("C17.A1", "change|return", f, "SyncState.change never returns an entry")
            return
        defs = {}
        for n in ctx.own_nodes(f):
            if isinstance(n, ast.Assign) and isinstance(n.targets[0], ast.Name):
                defs.setdefault(n.targets[0].id, []).append(n.value)
        for r in rets:
            loops = [lp for lp in ctx.own_nodes(f) if isinstance(lp, ast.For) and any(x is r for x in ast.walk(lp))]
            good = False
            detail = "the returned value is not the variable of a loop over the sorted pending set"
            key_expr = None
            if loops and isinstance(r.value, ast.Name) and isinstance(loops[-1].target, ast.Name) and loops[-1].target.id == r.value.id:
                it = loops[-1].iter
                srt = None
                if isinstance(it, ast.Name) and len(defs.get(it.id, [])) == 1:
                    srt = defs[it.id][0]
                elif isinstance(it, ast.Call):
                    srt = it
                if isinstance(srt, ast.Call) and isinstance(srt.func, ast.Name) and srt.func.id == "sorted":
                    kws = {k.arg: k.value for k in srt.keywords}
                    rev = kws.get("reverse")
                    src = srt.args[0] if srt.args else None
                    src_ok = False
                    if isinstance(src, ast.Name):
                        ds = defs.get(src.id, [])
                        src_ok = any(isinstance(d, ast.Attribute) and d.attr in ("_changeset", "_changeset_storage") for d in ds)
                    elif isinstance(src, ast.Attribute):
                        src_ok = src.attr in ("_changeset", "_changeset_storage")
                    asc = rev is None or (isinstance(rev, ast.Constant) and rev.value is False)
                    good = src_ok and asc and "key" in kws
                    key_expr = kws.get("key")
                    detail = "sorted(pending set: %s, ascending: %s, key given: %s)" % (src_ok, asc, "key" in kws)
            rep.check("C17.A1", "change|return %s" % ast.unparse(r.value), ctx.line(f, r), good, detail,
                      "SyncState.change returns an entry that is not the next one of an ascending sort of the pending set: %s" % detail)
            # ---- A2
            self._a2(r, loops[-1] if loops else None, age, defs)
            # ---- A3
            self._a3(r, key_expr, defs)

    def _a2(self, r, loop, age, defs):
        rep, ctx, f = self.rep, self.ctx, self.f
        if loop is None:
            return
        var = loop.target.id if isinstance(loop.target, ast.Name) else None
        # the innermost `if` containing the return
        ifs = [n for n in ast.walk(loop) if isinstance(n, ast.If) and any(x is r for b in n.body for x in ast.walk(b))]
        if not ifs:
            rep.violation("C17.A2", "change|predicate", ctx.line(f, r), "the entry is returned unconditionally: ageing is not enforced")
            return
        test = ifs[-1].test

        def subst(e):
            # substitute single-definition locals (earlier_than = now - age)
            class S(ast.NodeTransformer):
                def visit_Name(s_, n):
                    if n.id in defs and len(defs[n.id]) == 1 and n.id not in (age, var) and not _is_time_call(defs[n.id][0]):
                        return S().visit(ast.parse(ast.unparse(defs[n.id][0]), mode="eval").body)
                    return n
            return S().visit(ast.parse(ast.unparse(e), mode="eval").body)

        def sym(e):
            for i, nm in ((0, "LOCAL"), (1, "REMOTE")):
                if pat.match("%s[%s].changed" % (var, nm), e) is not None or pat.match("%s[%d].changed" % (var, i), e) is not None:
                    return "C%d" % i
            if isinstance(e, ast.Name) and e.id == age:
                return "age"
            if isinstance(e, ast.Name) and e.id in defs and len(defs[e.id]) == 1 and _is_time_call(defs[e.id][0]):
                return "now"
            if _is_time_call(e):
                return "now"
            return None

        def atom(e):
            """-> canonical atom string"""
            e2 = subst(e)
            if isinstance(e2, ast.Compare) and len(e2.ops) == 1 and pat.match("%s.priority" % var, e2.left) is not None:
                c = e2.comparators[0]
                if isinstance(c, ast.Constant) and isinstance(c.value, (int, float)):
                    op = {ast.Lt: "<", ast.LtE: "<=", ast.Gt: ">", ast.GtE: ">=", ast.Eq: "==", ast.NotEq: "!="}.get(type(e2.ops[0]))
                    if op:
                        return "PRIO%s%s" % (op, c.value)
                raise linear.Undecided("priority test `%s`" % ast.unparse(e))
            s = sym(e2)
            if s in ("C0", "C1"):
                return "T(%s)" % s
            nf, rel = linear.normal_form(e2, sym)
            return "LIN(%s)%s" % (",".join("%s:%s" % (k, v) for k, v in nf), "<=0" if rel in ("<=0", "<0") else rel)

        def dnf(e):
            if isinstance(e, ast.BoolOp) and isinstance(e.op, ast.Or):
                out = set()
                for v in e.values:
                    out |= dnf(v)
                return out
            if isinstance(e, ast.BoolOp) and isinstance(e.op, ast.And):
                acc = {frozenset()}
                for v in e.values:
                    acc = {a | b for a in acc for b in dnf(v)}
                return acc
            return {frozenset([atom(e)])}

        from sa.guards import nnf
        try:
            got = dnf(nnf(test))
        except linear.Undecided as e:
            rep.error("rule=C17.A2 reason=undecided: %s" % e)
            return
        want = {frozenset(["T(C0)", "LIN(C0:1,age:1,now:-1)<=0"]), frozenset(["T(C1)", "LIN(C1:1,age:1,now:-1)<=0"]), frozenset(["PRIO<0"])}
        show = lambda d: " or ".join("(" + " and ".join(sorted(c)) + ")" for c in sorted(d, key=sorted))   # noqa: E731
        rep.check("C17.A2", "change|predicate", ctx.line(f, ifs[-1]), got == want, show(got),
                  "eligibility predicate is [%s], the law requires [%s] (C = change time of a side; LIN(C:1,age:1,now:-1)<=0 means C <= now - age)" % (show(got), show(want)))

    def _a3(self, r, key_expr, defs):
        rep, ctx, f = self.rep, self.ctx, self.f
        cands = []
        if isinstance(key_expr, ast.Name):
            cands = [d for d in defs.get(key_expr.id, []) if isinstance(d, ast.Lambda)]
        elif isinstance(key_expr, ast.Lambda):
            cands = [key_expr]
        if not cands:
            rep.violation("C17.A3", "change|sort-key", ctx.line(f, r), "no lambda sort key found for the pending-set sort")
            return
        for lam in cands:
            a = lam.args.args[0].arg if lam.args.args else "?"
            body = lam.body
            good = isinstance(body, ast.Tuple) and len(body.elts) >= 2 and pat.match("%s.priority" % a, body.elts[0]) is not None
            second = body.elts[1] if isinstance(body, ast.Tuple) and len(body.elts) >= 2 else None
            timey = second is not None and (any(isinstance(x, ast.Attribute) and x.attr == "changed" for x in ast.walk(second)) or pat.match("random.random()", second) is not None)
            neg = second is not None and isinstance(second, ast.UnaryOp) and isinstance(second.op, ast.USub)
            rep.check("C17.A3", "change|sort-key|%s" % ast.unparse(lam)[:50], ctx.line(f, lam), good and timey and not neg, "key = (priority, time)",
                      "sort key `%s` is not (priority, change-time) ascending: lower priority values / older changes no longer go first" % ast.unparse(lam))

    def a4(self):
        rep, ctx = self.rep, self.ctx
        rep.rule("C17.A4", "SyncManager.do passes self.aging to state.change and syncs exactly the entry it returned; CloudSync.aging "
                 "reads and writes the manager's value", expect_min=3)
        f = ctx.prog.func("SyncManager.do")
        calls = [c for c in ctx.calls(f, "change") if pat.match("self.state.change($A)", c) is not None]
        good = len(calls) == 1 and pat.match("self.aging", calls[0].args[0]) is not None
        rep.check("C17.A4", "do|aging", f, good, "state.change(self.aging)", "SyncManager.do does not pass self.aging to state.change")
        var = None
        for n in ctx.own_nodes(f):
            if isinstance(n, (ast.Assign, ast.AnnAssign)) and calls and n.value is calls[0]:
                t = n.targets[0] if isinstance(n, ast.Assign) else n.target
                var = t.id if isinstance(t, ast.Name) else None
        sy = [c for c in ctx.calls(f, "_sync_one_entry")]
        good = var is not None and bool(sy) and all(len(c.args) == 1 and isinstance(c.args[0], ast.Name) and c.args[0].id == var for c in sy)
        rep.check("C17.A4", "do|entry", f, good, "only the returned entry is synced", "SyncManager.do syncs something other than the entry returned by state.change")
        g = ctx.prog.cls("CloudSync").getters.get("aging")
        s = ctx.prog.cls("CloudSync").setters.get("aging")
        good = g is not None and s is not None and any(pat.match("self.smgr.aging", n.value) is not None for n in ctx.own_nodes(g) if isinstance(n, ast.Return)) and \
            any(isinstance(n, ast.Assign) and pat.match("self.smgr.aging", n.targets[0]) is not None and isinstance(n.value, ast.Name) and n.value.id == s.params()[1] for n in ctx.own_nodes(s))
        rep.check("C17.A4", "CloudSync.aging", g or f, good, "property reads / writes smgr.aging", "CloudSync.aging is no longer wired to the manager's ageing value", nontrivial=False)

    def a5_a7(self):
        rep, ctx = self.rep, self.ctx
        rep.rule("C17.A5", "bounded deferral: punt adds exactly 1 to the priority; the priority arm of updated() pushes each changed side "
                 "later by _punt_secs[side] (= default_sleep / 10) only when the priority rises above its old value and above 0", expect_min=3)
        E = ctx.prog.cls("SyncEntry")
        punt = E.methods["punt"]
        good = any(isinstance(n, ast.AugAssign) and isinstance(n.op, ast.Add) and pat.match("self.priority", n.target) is not None and isinstance(n.value, ast.Constant) and n.value.value == 1
                   for n in ctx.own_nodes(punt))
        rep.check("C17.A5", "punt", punt, good, "priority += 1", "punt() no longer raises the priority by exactly 1")
        u = self.state.methods["updated"]
        ent, side, key, val = u.params()[1:5]
        augs = [n for n in ctx.own_nodes(u) if isinstance(n, ast.AugAssign) and isinstance(n.target, ast.Attribute) and n.target.attr == "changed"]
        good = len(augs) >= 2
        for a in augs:
            facts = ctx.facts_at(u, a)
            good = good and isinstance(a.op, ast.Add) and "_punt_secs" in ast.unparse(a.value) and fact_in(facts, "%s == 'priority'" % key, True) and \
                any(pol and ">" in txt and "priority" in txt for (txt, pol) in facts) and any(pol and txt.replace(" ", "") == "%s>0" % val for (txt, pol) in facts)
        rep.check("C17.A5", "updated|priority-arm", u, good, "changed += _punt_secs[side] under val > old priority and val > 0",
                  "the deferral applied when an entry is punted is no longer `changed += _punt_secs[side]` under (val > ent.priority and val > 0)")
        init = self.state.methods["__init__"]
        ps = [n for n in ctx.own_nodes(init) if isinstance(n, ast.Assign) and isinstance(n.targets[0], ast.Attribute) and n.targets[0].attr == "_punt_secs"]
        good = len(ps) == 1 and isinstance(ps[0].value, ast.Tuple) and all(pat.match("providers[%d].default_sleep / $K" % i, e) is not None and isinstance(e.right, ast.Constant) and e.right.value >= 1
                                                                             for i, e in enumerate(ps[0].value.elts))
        rep.check("C17.A5", "_punt_secs", init, good, "_punt_secs = default_sleep / k, k >= 1", "_punt_secs is no longer a bounded fraction of the providers' poll interval")
        rep.rule("C17.A6", "mark_changed makes change times strictly increasing: a time not later than the last one is replaced by last + epsilon, and the last time is updated", expect_min=1)
        mc = self.state.methods["mark_changed"]
        side, ent = mc.params()[1:3]
        g = ctx.cfg(mc)
        bump = [n for n in ctx.own_nodes(mc) if isinstance(n, ast.Assign) and pat.match("%s[%s].changed" % (ent, side), n.targets[0]) is not None
                and isinstance(n.value, ast.BinOp) and isinstance(n.value.op, ast.Add) and pat.match("self._last_changed_time", n.value.left) is not None
                and isinstance(n.value.right, ast.Constant) and n.value.right.value > 0]
        guard = bool(bump) and all(("%s[%s].changed <= self._last_changed_time" % (ent, side), True) in ctx.facts_at(mc, b) or
                                   ("%s[%s].changed > self._last_changed_time" % (ent, side), False) in ctx.facts_at(mc, b) for b in bump)
        upd = [n for n in g.nodes if node_stores_attr(n, "_last_changed_time")]
        pth = g.reach([g.entry.id], lambda n: n is g.exit, avoid=lambda n: n in upd, follow=NORMAL)
        rep.check("C17.A6", "mark_changed", mc, guard and bool(upd) and pth is None, "changed = last + eps when changed <= last; last updated on every path",
                  "mark_changed no longer guarantees strictly increasing change times (bump guarded: %s, last time updated on every path: %s)" % (guard, bool(upd) and pth is None))
        rep.rule("C17.A7", "finishing an entry resets the priority of related deferred entries (priority > 0 and is_related_to) to 0", expect_min=1)
        fin = self.state.methods["finished"]
        ent = fin.params()[1]
        sets = [n for n in ctx.own_nodes(fin) if isinstance(n, ast.Assign) and isinstance(n.targets[0], ast.Attribute) and n.targets[0].attr == "priority" and isinstance(n.value, ast.Constant) and n.value.value == 0]
        good = bool(sets)
        for s in sets:
            facts = ctx.facts_at(fin, s)
            e = ast.unparse(s.targets[0].value)
            good = good and fact_in(facts, "%s.priority > 0" % e, True) and fact_in(facts, "%s.is_related_to(%s)" % (ent, e), True)
        rep.check("C17.A7", "finished|reset", fin, good, "e.priority = 0 under e.priority > 0 and ent.is_related_to(e)",
                  "finished() no longer brings related deferred entries back to normal priority (they stay deferred after the obstacle is gone)")


    def a8_a9(self):
        rep, ctx = self.rep, self.ctx
        rep.rule("C17.A8", "the priority follows the path: whenever _change_path stores a new path it recomputes prioritize(side, path) and adopts it "
                 "whenever it differs from the current priority (no other condition) - a negative ('immediately') priority does not outlive its path", expect_min=1)
        f = self.state.methods["_change_path"]
        side, ent, path = f.params()[1:4]
        sets = [n for n in ctx.own_nodes(f) if isinstance(n, ast.Assign) and pat.match("%s.priority" % ent, n.targets[0]) is not None]
        good = bool(sets)
        detail = "no store to the priority in _change_path"
        for s_ in sets:
            v = s_.value
            src = None
            if isinstance(v, ast.Name):
                ds = [d for d in ctx.own_nodes(f) if isinstance(d, ast.Assign) and isinstance(d.targets[0], ast.Name) and d.targets[0].id == v.id]
                src = ds[0].value if len(ds) == 1 else None
            elif isinstance(v, ast.Call):
                src = v
            ok_src = src is not None and pat.match("self.prioritize(%s, %s)" % (side, path), src) is not None
            facts = ctx.facts_at(f, s_)
            extra = extra_facts(facts, [(path, True), ("$O == %s" % path, False), ("$N == %s.priority" % ent, False)])
            good = good and ok_src and not extra
            detail = "value from prioritize(side, path): %s; extra guards: %s" % (ok_src, extra)
        rep.check("C17.A8", "_change_path|priority", f, good, "priority := prioritize(side, path) whenever it differs",
                  "the entry's priority no longer follows its path (%s): e.g. an 'immediately' priority survives a rename and bypasses ageing" % detail)
        rep.rule("C17.A9", "a failing entry always loses rank: every handler of the sync step punts the entry (alias of C10.T2), so the oldest "
                 "eligible entry cannot starve the younger ones by failing for ever", expect_min=3)
        from rules.C10 import C10
        rep.rules["C10.T2"] = "alias"
        C10(ctx, rep).t2()
        for i in rep.instances:
            if i.rule == "C10.T2":
                i.rule = "C17.A9"
        rep.rules.pop("C10.T2", None)
        rep.expect.pop("C10.T2", None)


def _is_time_call(e) -> bool:
    return isinstance(e, ast.Call) and pat.match("time.time()", e) is not None


def run(ctx: Ctx, rep: Report, tier: str):
    c = C17(ctx, rep)
    section(rep, c.a1_a3)
    section(rep, c.a4)
    section(rep, c.a5_a7)
    section(rep, c.a8_a9)
    rep.rule("C17.A10", "the default ageing interval is a positive fraction of the larger provider poll interval (max(sleep) / k, k >= 1)", expect_min=1)
    init = ctx.prog.func("SyncManager.__init__")
    asg = [n for n in ctx.own_nodes(init) if isinstance(n, ast.Assign) and pat.match("self.aging", n.targets[0]) is not None]
    mx = {n.targets[0].id for n in ctx.own_nodes(init) if isinstance(n, ast.Assign) and isinstance(n.targets[0], ast.Name) and pat.match("max(sleep)", n.value) is not None}
    good = len(asg) == 1 and isinstance(asg[0].value, ast.BinOp) and isinstance(asg[0].value.op, ast.Div) and isinstance(asg[0].value.left, ast.Name) and asg[0].value.left.id in mx \
        and isinstance(asg[0].value.right, ast.Constant) and asg[0].value.right.value >= 1
    rep.check("C17.A10", "SyncManager.__init__|aging", init, good, "aging = max(sleep) / k", "the default ageing interval is no longer max(sleep) / k with k >= 1", nontrivial=False)
    rep.assume("time.time() is the clock the property's 'now' refers to")
    rep.rule("C17.A11", "the order is computed on complete information: SyncState.change resolves the missing paths (which set the priority) of the WHOLE pending set "
             "before it sorts - the loop with get_latest over the set being sorted dominates sorted()", 1)
    chf = ctx.prog.func("SyncState.change")
    g_ = ctx.cfg(chf)
    srt = [n for n in ctx.own_nodes(chf) if isinstance(n, ast.Call) and isinstance(n.func, ast.Name) and n.func.id == "sorted" and n.args]
    if not srt:
        raise AnalysisError("SyncState.change no longer sorts the pending set")
    for s_ in srt:
        coll = ast.unparse(s_.args[0])
        fills = [lp for lp in ctx.own_nodes(chf) if isinstance(lp, ast.For) and ast.unparse(lp.iter) == coll
                 and any(isinstance(x, ast.Call) and isinstance(x.func, ast.Attribute) and x.func.attr in ("get_latest", "unconditionally_get_latest") for x in ast.walk(lp))]
        iters = [n for n in g_.nodes if n.kind == "iter" and any(n.ast is lp for lp in fills)]
        tgt = g_.stmt_nodes_containing(s_)
        pth = g_.reach([g_.entry.id], lambda n: n in tgt, avoid=lambda n: n in iters, follow=NORMAL) if iters else []
        rep.check("C17.A11", "change|paths-before-sort", ctx.line(chf, s_), bool(iters) and pth is None, "path resolution over `%s` dominates sorted(%s)" % (coll, coll),
                  "the pending set is sorted before the path-less entries got their path (and with it their priority): an old low-priority-class change is attempted "
                  "before a younger eligible change of a more urgent class", witness=describe_path(pth) if pth else None)
    from rules.common import alias as _alias
    from rules.C15 import C15 as _C15
    _alias(rep, ["C15.R2"], "C17.A12", "aging is decided and acted on atomically: picking the aged entry (state.change(aging)) and syncing it share one lock region (C15.R2), "
           "so a fresh notification cannot slip in between the age test and the transfer", 1, lambda: _C15(ctx, rep).r2(), keep=lambda i: i.key.endswith("SyncManager.do"))
    from rules.common import parent_first_priorities
    rep.rule("C17.A13", "only the application's prioritize() makes an entry 'immediate': the engine's own priority arithmetic (gentle punt behind a changed parent) never turns a "
             "priority >= 0 into a negative one (C01.R8) - negative priorities skip ageing", 2)
    section(rep, lambda: parent_first_priorities(ctx, rep, "C17.A13"))
    from rules.common import event_application_writes_through
    _alias(rep, ["C17.tmp"], "C17.A14", "every notification restarts the ageing clock: update_entry stamps the side changed whenever it is asked to, also when a change is already "
           "pending (C14.W11)", 1, lambda: (rep.rule("C17.tmp", "alias", 0), event_application_writes_through(ctx, rep, "C17.tmp")), keep=lambda i: i.key == "update_entry|mark_changed")
    from rules.common import selection_loop_has_no_early_stop, per_side_tuples_are_indexed_in_order
    rep.rule("C17.A15", "every eligible entry is eventually offered: the selection loop of SyncState.change has no break / early return", 1)
    section(rep, lambda: selection_loop_has_no_early_stop(ctx, rep, "C17.A15"))
    rep.rule("C17.A16", "the ageing interval is derived from BOTH providers' poll intervals: per-side pairs take element i from side i", 1)
    section(rep, lambda: per_side_tuples_are_indexed_in_order(ctx, rep, "C17.A16"))
    from rules.common import sort_key_takes_latest_stamp
    rep.rule("C17.A17", "oldest eligible first: SyncState.change orders entries by (priority, the later of the two sides' change stamps)", 1)
    section(rep, lambda: sort_key_takes_latest_stamp(ctx, rep, "C17.A17"))
    from rules.common import overrides_forward_their_parameters
    rep.rule("C17.A18", "the scheduling hooks reach the state: every `super().__init__(...)` of the engine passes on each parameter the subclass accepts and the base takes "
             "(SmartSyncState -> SyncState: prioritize, shuffle, tag)", 3)
    section(rep, lambda: overrides_forward_their_parameters(ctx, rep, "C17.A18"))
    from rules.decisions import decision_table, table_sites
    rep.rule("C17.DT", "decision table (rules/decisions.json) of ageing, punting, marking changed and the selection of the next change: for every function and every action shape (an impure call with the parameters it passes, a store to an "
             "attribute or item, a delete, a returned constant, a yield, a raise) the set of states - over the function's guard atoms - in which the action is taken "
             "equals the recorded one; compared as canonical decision diagrams, so any equivalent respelling of the guards is the same table", table_sites("C17"))
    section(rep, lambda: decision_table(ctx, rep, "C17.DT", "C17"))
