"""C15 - thread safety: the shared sync state is only mutated while holding SyncState.lock.

Decided: the deterministic half of the property - every mutation of tracked sync state, on every call chain from
every production thread entry point and from every public application-facing method, happens with the state
lock held (R1); the three lock regions the property names exist and are not split (R2); the lock is one
re-entrant lock created once (R3).   Not decided: that threaded runs converge (inherits C01-C04).
"""
from __future__ import annotations

import ast

from sa.model import AnalysisError, FuncInfo
from sa.ctx import Ctx, short, stmt_key
from sa.lockset import LockSet
from sa.report import Report, section

from sa.statemodel import StateModel, TRACKED_CONTAINERS, TRACKED_ATTRS, MUTATORS, _has_inst


class C15:
    def __init__(self, ctx: Ctx, rep: Report):
        self.ctx, self.rep = ctx, rep
        self.sm = StateModel(ctx)
        self.state_cls = self.sm.state_cls
        self.state_q = self.sm.state_q
        self.entry_q = self.sm.entry_q
        self.ls = LockSet(ctx, self.is_lock_item, self.sm.mutation_sites, over=True, skip=self.skip)

    # ---------------------------------------------------------------- lock regions
    def is_lock_item(self, f: FuncInfo, it: ast.withitem) -> bool:
        e = it.context_expr
        if isinstance(e, ast.Attribute) and e.attr == "lock":
            return _has_inst(self.ctx.res.type_of(f, e.value), self.state_q)
        return False

    def skip(self, f: FuncInfo) -> bool:
        # objects under construction are not shared yet
        return f.qname in self.sm.state_inits

    # ---------------------------------------------------------------- roots
    def thread_roots(self):
        """`do`/`done` of the Runnable subclasses of the engine, as reached from Runnable.run (the thread body)."""
        p = self.ctx.prog
        run = p.func("Runnable.run")
        roots = []
        cs_q = {p.cls("CloudSync").qname} | {c.qname for c in p.cls("CloudSync").all_subclasses()}
        for s in self.ctx.sites(run):
            if s.kind == "call" and s.name in ("do", "done"):
                for t in s.over:
                    # CloudSync.do: documented as test-only, calls the managers' do() sequentially on one thread
                    if t.cls is not None and t.cls.qname in cs_q:
                        continue
                    if t.is_abstract:
                        continue
                    if t not in roots:
                        roots.append(t)
        if not any(r.name == "do" for r in roots):
            raise AnalysisError("Runnable.run no longer calls self.do()")
        return roots

    def api_roots(self):
        p = self.ctx.prog
        base = p.cls("CloudSync")
        roots = []
        excluded = {"do": "documented test-only, sequential", "run": "inherited Runnable.run: calls CloudSync.do on the caller's thread only"}
        for c in [base] + base.all_subclasses():
            for tbl, kind in ((c.methods, "method"), (c.getters, "getter"), (c.setters, "setter")):
                for name, f in tbl.items():
                    if name.startswith("_") or name in excluded or isinstance(f.node, ast.Lambda):
                        continue
                    if f not in roots:
                        roots.append(f)
                    if kind == "getter":
                        # a property that hands out a bound method (CloudSync.change_count) exposes that method too
                        for term in self.ctx.res.ret_type(f):
                            if term[0] == "func" and term[1] in p.functions and p.functions[term[1]] not in roots:
                                roots.append(p.functions[term[1]])
        return roots, excluded

    # ---------------------------------------------------------------- rules
    def r1(self, tier):
        rep = self.rep
        rep.rule("C15.R1", "no mutation of tracked sync state (SyncState index/pending/dirty/request/exclude containers, any "
                 "SideState/SyncEntry field) is reachable from a thread entry point or a public CloudSync/SmartCloudSync "
                 "method with the state lock not held (over-approximate call graph, one context bit)", expect_min=20)
        troots = self.thread_roots()
        aroots, excluded = self.api_roots()
        total_sites = 0
        seen_viol = set()
        for kind, roots in (("thread", troots), ("api", aroots)):
            for r in roots:
                viol, nstates, nsites = self.ls.unlocked_from(r)
                total_sites += nsites
                key = "%s-root|%s" % (kind, short(r.qname))
                if not viol:
                    rep.ok("C15.R1", key, r, "%d (function,lock-bit) states, %d mutation sites visited, all under the lock" % (nstates, nsites),
                           nontrivial=nsites > 0)
                else:
                    per = {}
                    for f, node, desc, chain in viol:
                        per.setdefault(stmt_key(f, node), (f, node, desc, chain))
                    items = sorted(per.items())
                    f, node, desc, chain = items[0][1]
                    more = "; ".join(k for k, _ in items[1:6])
                    rep.violation("C15.R1", key, self.ctx.line(f, node),
                                  "%d mutation construct(s) of tracked sync state reachable from %s root %s without SyncState.lock; first: %s%s"
                                  % (len(items), kind, short(r.qname), desc, (" | others: " + more) if more else ""),
                                  witness=chain, func=f.qname)
        rep.extra["C15_roots"] = {"thread": [short(r.qname) for r in troots], "api": [short(r.qname) for r in aroots],
                                  "excluded": excluded}
        nm = sum(len(self.ls.fsites(f)) for f in self.ctx.prog.functions.values() if f.module.name.startswith("cloudsync") and not self.skip(f))
        rep.extra["C15_mutation_sites_in_program"] = nm
        if nm < 150:
            rep.error("rule=C15.R1 reason=only %d mutation sites recognised in the program, expected >= 150 (tracked-state model broke)" % nm)

    def _enclosing_locks(self, f: FuncInfo, node: ast.AST):
        out = []
        for w in self.ls.regions(f):
            if any(x is node for b in w.body for x in ast.walk(b)):
                out.append(w)
        return out

    def _always_locked(self, f: FuncInfo, depth=3) -> bool:
        callers = self.ctx.callers(f)
        if not callers or depth == 0:
            return False
        for s in callers:
            if id(s.node) in self.ls.locked_nodes(s.func):
                continue
            if not self._always_locked(s.func, depth - 1):
                return False
        return True

    def _opt(self, spec):
        try:
            return self.ctx.prog.func(spec)
        except AnalysisError:
            return None

    def r2(self):
        rep, ctx, p = self.rep, self.ctx, self.ctx.prog
        rep.rule("C15.R2", "the three critical sections named by the property are single lock regions: event application "
                 "(look-up + state.update + storage_commit), pick+sync (state.change + _sync_one_entry), on-demand sync "
                 "(parent syncs + mark_changed + _sync_one_entry)", expect_min=3)
        st = self.state_cls
        specs = [
            ("EventManager._process_event", [[st.methods["update"]], [st.methods["storage_commit"]],
                                             [st.methods["lookup_oid"], st.methods["lookup_path"]]]),
            ("SyncManager.do", [[st.methods["change"]], [p.func("SyncManager._sync_one_entry")]]),
            ("SmartCloudSync._smart_sync_ent", [[p.func("SmartSyncManager.get_parent_conflicts")], [p.func("SmartCloudSync._sync_one_entry")],
                                                [x for x in (self._opt("SideState.mark_changed"), self._opt("SyncEntry.mark_changed"), st.methods.get("mark_changed")) if x is not None]]),
        ]
        for spec, groups in specs:
            f = p.func(spec)
            sites = []
            for grp in groups:
                gs = ctx.resolved_calls_to(f, grp, over=False)
                gs = [s for s in gs if s.kind == "call"]
                if not gs and grp == [st.methods["storage_commit"]]:
                    continue        # a step that does not commit itself has no commit to keep inside the region (C07/C08 decide whether it must)
                if not gs and len(groups) >= 3:
                    missing = getattr(self, "_r2_missing", 0) + 1
                    self._r2_missing = missing
                    continue        # one part of the section is gone (other properties decide whether it may): the remaining parts still have to share a region
                if not gs:
                    raise AnalysisError("%s no longer calls %s" % (spec, "/".join(short(g.qname) for g in grp)))
                sites += gs
            if len({id(s) for s in sites}) < 2:
                raise AnalysisError("%s: fewer than two parts of the critical section are left" % spec)
            common = None
            for s in sites:
                ids = {id(w) for w in self._enclosing_locks(f, s.node)}
                common = ids if common is None else (common & ids)
            okk = bool(common) or self._always_locked(f)
            rep.check("C15.R2", short(f.qname), f, okk,
                      "%d call sites share one `with <state>.lock` region" % len(sites),
                      "the critical section of %s is split or unlocked: its %d state call sites do not share one lock region "
                      "(and not every caller holds the lock)" % (short(f.qname), len(sites)))

    def r3(self):
        rep, ctx = self.rep, self.ctx
        rep.rule("C15.R3", "SyncState.lock is assigned exactly once, in SyncState.__init__, from threading.RLock() "
                 "(one shared, re-entrant lock: the regions nest)", expect_min=1)
        stores = []
        for f in ctx.prog.functions.values():
            for n in ctx.own_nodes(f):
                if isinstance(n, ast.Attribute) and isinstance(n.ctx, (ast.Store, ast.Del)) and n.attr == "lock":
                    if _has_inst(ctx.res.type_of(f, n.value), self.state_q):
                        stores.append((f, n))
        init0 = self.state_cls.methods["__init__"]
        init = init0
        if len(stores) == 1 and stores[0][0] is not init0:
            # a construction helper is fine as long as nothing but the constructor can run it
            h = stores[0][0]
            callers = {s_.func.qname for s_ in ctx.callers(h)}
            if callers == {init0.qname} and h.cls is self.state_cls:
                init = h
        good = len(stores) == 1 and stores[0][0] is init
        detail = ""
        if good:
            # find the assigned value
            val = None
            for n in ctx.own_nodes(init):
                if isinstance(n, ast.Assign) and any(t is stores[0][1] for t in n.targets):
                    val = n.value
            t = ctx.res.type_of(init, val) if val is not None else frozenset()
            good = isinstance(val, ast.Call) and any(term == ("ext", "threading.RLock()") for term in t)
            detail = "lock = %s : %s" % (ast.unparse(val) if val is not None else "?", sorted(t))
        rep.check("C15.R3", "SyncState.lock", init, good, detail,
                  "SyncState.lock must be created once, during construction only, by threading.RLock() (a lock re-created later lets two threads hold 'the' lock at once); found %d store(s): %s %s" % (
                      len(stores), [ctx.line(f, n) for f, n in stores], detail))

    def thorough_notes(self):
        """Extra roots, reported as notes only: public methods of the managers and of SyncState called directly."""
        rep, p = self.rep, self.ctx.prog
        for cname in ("SyncManager", "EventManager", "SyncState"):
            c = p.cls(cname)
            for name, f in list(c.methods.items()) + list(c.getters.items()):
                if name.startswith("_") or isinstance(f.node, ast.Lambda):
                    continue
                viol, _, _ = self.ls.unlocked_from(f)
                if viol:
                    rep.note("C15.R1", "extra-root|%s" % short(f.qname), f,
                             "%d mutation site(s) unlocked if called directly from an application thread (engine-internal API; callers in the engine hold the lock)" % len(viol))


def run(ctx: Ctx, rep: Report, tier: str):
    c = C15(ctx, rep)
    c.r1(tier)
    section(rep, c.r2)
    section(rep, c.r3)
    if tier == "thorough":
        c.thorough_notes()
    rep.assume("threads: Runnable.start creates one thread per manager running Runnable.run; application threads enter only through public CloudSync/SmartCloudSync methods")
    from rules.common import start_rechecks_after_join
    rep.rule("C15.R4", "threads per manager: Runnable.start creates the loop thread only past an is_alive() test that follows every join of the old thread", 1)
    section(rep, lambda: start_rechecks_after_join(ctx, rep, "C15.R4"))
    from rules.common import wait_joins_unless_own_thread
    rep.rule("C15.R5", "a stopped engine is a joined engine: Runnable.wait joins the service thread whenever another thread runs it, also when a stop is already pending", 1)
    section(rep, lambda: wait_joins_unless_own_thread(ctx, rep, "C15.R5"))
    from rules.decisions import decision_table, table_sites
    rep.rule("C15.DT", "decision table (rules/decisions.json) of the functions that decide what runs under the state lock: for every function and every action shape the set of states - over the function's guard atoms, "
             "including the `with` blocks and `try` scopes the action stands in - in which the action is taken equals the recorded one, and actions keep their order", 1)
    section(rep, lambda: decision_table(ctx, rep, "C15.DT", "C15"))
