"""C15 - thread safety: the shared sync state is only mutated while holding SyncState.lock.

Decided: the deterministic half of the property - every mutation of tracked sync state, on every call chain from
every production thread entry point and from every public application-facing method, happens with the state
lock held (R1); the three lock regions the property names exist and are not split (R2); the lock is one
re-entrant lock created once (R3).   Not decided: that threaded runs converge (inherits C01-C04).
"""
from __future__ import annotations

import ast

from sa.model import AnalysisError, FuncInfo
from sa.ctx import Ctx, short, stmt_key
from sa.lockset import LockSet
from sa.report import Report

TRACKED_CONTAINERS = {"_oids", "_paths", "_changeset_storage", "_dirtyset", "requestset", "excludeset"}
# the property setter `_changeset` rebinds _changeset_storage
TRACKED_ATTRS = TRACKED_CONTAINERS | {"_changeset"}
MUTATORS = {"add", "discard", "remove", "pop", "clear", "update", "append", "setdefault", "popitem", "extend", "insert",
            "difference_update", "intersection_update", "symmetric_difference_update", "__setitem__", "__delitem__"}

# deliberately untracked, with the reason (DESIGN.md C15): data_id / cursor rows go through the storage interface
# (its own mutex: C09.R6); EventManager._queue is private to the event manager and not covered by the state lock.


def _has_inst(t, qnames):
    return any(term[0] == "inst" and term[1] in qnames for term in t)


class C15:
    def __init__(self, ctx: Ctx, rep: Report):
        self.ctx, self.rep = ctx, rep
        p = ctx.prog
        self.state_cls = p.cls("SyncState")
        self.state_q = {self.state_cls.qname} | {c.qname for c in self.state_cls.all_subclasses()}
        self.entry_q = {p.cls("SyncEntry").qname, p.cls("SideState").qname}
        self.entry_inits = {p.func("SyncEntry.__init__").qname, p.func("SideState.__init__").qname}
        # anchors: the tracked containers must exist as attributes assigned in the constructors
        init_attrs = set()
        for c in [self.state_cls] + self.state_cls.all_subclasses():
            init = c.methods.get("__init__")
            if init:
                for n in ctx.own_nodes(init):
                    if isinstance(n, ast.Attribute) and isinstance(n.ctx, ast.Store) and isinstance(n.value, ast.Name) and n.value.id == init.self_name:
                        init_attrs.add(n.attr)
        missing = TRACKED_CONTAINERS - init_attrs
        if missing:
            raise AnalysisError("tracked state attribute(s) %s no longer assigned in SyncState/SmartSyncState.__init__" % sorted(missing))
        if "lock" not in init_attrs:
            raise AnalysisError("SyncState.lock is not assigned in SyncState.__init__")
        self.ls = LockSet(ctx, self.is_lock_item, self.mutation_sites, over=True, skip=self.skip)

    # ---------------------------------------------------------------- lock regions
    def is_lock_item(self, f: FuncInfo, it: ast.withitem) -> bool:
        e = it.context_expr
        if isinstance(e, ast.Attribute) and e.attr == "lock":
            return _has_inst(self.ctx.res.type_of(f, e.value), self.state_q)
        return False

    def skip(self, f: FuncInfo) -> bool:
        # objects under construction are not shared yet
        return f.qname == self.state_cls.methods["__init__"].qname or \
            any(f.qname == c.methods["__init__"].qname for c in self.state_cls.all_subclasses() if "__init__" in c.methods)

    # ---------------------------------------------------------------- mutation sites
    def _rooted_in_tracked(self, f, e, aliases) -> bool:
        """Is expression `e` an access path into a tracked container of a SyncState?"""
        while True:
            if isinstance(e, ast.Subscript):
                e = e.value
            elif isinstance(e, ast.Call) and isinstance(e.func, ast.Attribute) and e.func.attr in ("get", "setdefault", "values", "items", "keys"):
                e = e.func.value
            elif isinstance(e, ast.Attribute):
                if e.attr in TRACKED_ATTRS and _has_inst(self.ctx.res.type_of(f, e.value), self.state_q):
                    return True
                return False
            elif isinstance(e, ast.Name):
                return e.id in aliases
            else:
                return False

    def mutation_sites(self, f: FuncInfo):
        ctx, res = self.ctx, self.ctx.res
        out = []
        nodes = ctx.own_nodes(f)
        # local aliases of tracked containers
        aliases = set()
        for _ in range(2):
            for n in nodes:
                if isinstance(n, ast.Assign) and len(n.targets) == 1 and isinstance(n.targets[0], ast.Name):
                    if self._rooted_in_tracked(f, n.value, aliases) and not isinstance(n.value, ast.Name):
                        # element reads such as `ent = self._oids[side][oid]` yield entries, not containers:
                        # only keep aliases whose type is a container
                        t = res.type_of(f, n.value)
                        if not _has_inst(t, self.entry_q):
                            aliases.add(n.targets[0].id)
                elif isinstance(n, (ast.For, ast.comprehension)) and self._rooted_in_tracked(f, n.iter, aliases):
                    for x in ast.walk(n.target):
                        if isinstance(x, ast.Name):
                            t = res.type_of(f, x)
                            if any(term[0] in ("dict", "seq") for term in t) or not t:
                                if not _has_inst(t, self.entry_q):
                                    aliases.add(x.id)
        in_entry_init = f.qname in self.entry_inits
        for n in nodes:
            if isinstance(n, ast.Attribute) and isinstance(n.ctx, (ast.Store, ast.Del)):
                rt = res.type_of(f, n.value)
                if _has_inst(rt, self.entry_q):
                    if in_entry_init and isinstance(n.value, ast.Name) and n.value.id == f.self_name:
                        continue
                    out.append((n, "store to entry field `%s`" % ast.unparse(n)))
                elif n.attr in TRACKED_ATTRS and _has_inst(rt, self.state_q):
                    out.append((n, "rebinding of tracked container `%s`" % ast.unparse(n)))
            elif isinstance(n, ast.Subscript) and isinstance(n.ctx, (ast.Store, ast.Del)):
                if self._rooted_in_tracked(f, n.value, aliases):
                    out.append((n, "item store/delete in tracked container `%s`" % ast.unparse(n)))
                elif _has_inst(res.type_of(f, n.value), self.entry_q):
                    out.append((n, "side-state replacement `%s`" % ast.unparse(n)))
            elif isinstance(n, ast.Call) and isinstance(n.func, ast.Attribute):
                if n.func.attr in MUTATORS and self._rooted_in_tracked(f, n.func.value, aliases):
                    out.append((n, "mutating call on tracked container `%s`" % ast.unparse(n)[:80]))
                elif n.func.attr == "__setattr__" and isinstance(n.func.value, ast.Name) and n.func.value.id == "object" and n.args:
                    if _has_inst(res.type_of(f, n.args[0]), self.entry_q):
                        if in_entry_init:
                            continue
                        out.append((n, "raw field store `%s`" % ast.unparse(n)))
        return out

    # ---------------------------------------------------------------- roots
    def thread_roots(self):
        """`do`/`done` of the Runnable subclasses of the engine, as reached from Runnable.run (the thread body)."""
        p = self.ctx.prog
        run = p.func("Runnable.run")
        roots = []
        cs_q = {p.cls("CloudSync").qname} | {c.qname for c in p.cls("CloudSync").all_subclasses()}
        for s in self.ctx.sites(run):
            if s.kind == "call" and s.name in ("do", "done"):
                for t in s.over:
                    # CloudSync.do: documented as test-only, calls the managers' do() sequentially on one thread
                    if t.cls is not None and t.cls.qname in cs_q:
                        continue
                    if t.is_abstract:
                        continue
                    if t not in roots:
                        roots.append(t)
        if not any(r.name == "do" for r in roots):
            raise AnalysisError("Runnable.run no longer calls self.do()")
        return roots

    def api_roots(self):
        p = self.ctx.prog
        base = p.cls("CloudSync")
        roots = []
        excluded = {"do": "documented test-only, sequential", "run": "inherited Runnable.run: calls CloudSync.do on the caller's thread only"}
        for c in [base] + base.all_subclasses():
            for tbl, kind in ((c.methods, "method"), (c.getters, "getter"), (c.setters, "setter")):
                for name, f in tbl.items():
                    if name.startswith("_") or name in excluded or isinstance(f.node, ast.Lambda):
                        continue
                    if f not in roots:
                        roots.append(f)
                    if kind == "getter":
                        # a property that hands out a bound method (CloudSync.change_count) exposes that method too
                        for term in self.ctx.res.ret_type(f):
                            if term[0] == "func" and term[1] in p.functions and p.functions[term[1]] not in roots:
                                roots.append(p.functions[term[1]])
        return roots, excluded

    # ---------------------------------------------------------------- rules
    def r1(self, tier):
        rep = self.rep
        rep.rule("C15.R1", "no mutation of tracked sync state (SyncState index/pending/dirty/request/exclude containers, any "
                 "SideState/SyncEntry field) is reachable from a thread entry point or a public CloudSync/SmartCloudSync "
                 "method with the state lock not held (over-approximate call graph, one context bit)", expect_min=20)
        troots = self.thread_roots()
        aroots, excluded = self.api_roots()
        total_sites = 0
        seen_viol = set()
        for kind, roots in (("thread", troots), ("api", aroots)):
            for r in roots:
                viol, nstates, nsites = self.ls.unlocked_from(r)
                total_sites += nsites
                key = "%s-root|%s" % (kind, short(r.qname))
                if not viol:
                    rep.ok("C15.R1", key, r, "%d (function,lock-bit) states, %d mutation sites visited, all under the lock" % (nstates, nsites),
                           nontrivial=nsites > 0)
                else:
                    per = {}
                    for f, node, desc, chain in viol:
                        per.setdefault(stmt_key(f, node), (f, node, desc, chain))
                    items = sorted(per.items())
                    f, node, desc, chain = items[0][1]
                    more = "; ".join(k for k, _ in items[1:6])
                    rep.violation("C15.R1", key, self.ctx.line(f, node),
                                  "%d mutation construct(s) of tracked sync state reachable from %s root %s without SyncState.lock; first: %s%s"
                                  % (len(items), kind, short(r.qname), desc, (" | others: " + more) if more else ""),
                                  witness=chain, func=f.qname)
        rep.extra["C15_roots"] = {"thread": [short(r.qname) for r in troots], "api": [short(r.qname) for r in aroots],
                                  "excluded": excluded}
        nm = sum(len(self.ls.fsites(f)) for f in self.ctx.prog.functions.values() if f.module.name.startswith("cloudsync") and not self.skip(f))
        rep.extra["C15_mutation_sites_in_program"] = nm
        if nm < 150:
            rep.error("rule=C15.R1 reason=only %d mutation sites recognised in the program, expected >= 150 (tracked-state model broke)" % nm)

    def _enclosing_locks(self, f: FuncInfo, node: ast.AST):
        out = []
        for w in self.ls.regions(f):
            if any(x is node for b in w.body for x in ast.walk(b)):
                out.append(w)
        return out

    def _always_locked(self, f: FuncInfo, depth=3) -> bool:
        callers = self.ctx.callers(f)
        if not callers or depth == 0:
            return False
        for s in callers:
            if id(s.node) in self.ls.locked_nodes(s.func):
                continue
            if not self._always_locked(s.func, depth - 1):
                return False
        return True

    def r2(self):
        rep, ctx, p = self.rep, self.ctx, self.ctx.prog
        rep.rule("C15.R2", "the three critical sections named by the property are single lock regions: event application "
                 "(look-up + state.update + storage_commit), pick+sync (state.change + _sync_one_entry), on-demand sync "
                 "(parent syncs + mark_changed + _sync_one_entry)", expect_min=3)
        st = self.state_cls
        specs = [
            ("EventManager._process_event", [[st.methods["update"]], [st.methods["storage_commit"]],
                                             [st.methods["lookup_oid"], st.methods["lookup_path"]]]),
            ("SyncManager.do", [[st.methods["change"]], [p.func("SyncManager._sync_one_entry")]]),
            ("SmartCloudSync._smart_sync_ent", [[p.func("SmartSyncManager.get_parent_conflicts")], [p.func("SmartCloudSync._sync_one_entry")],
                                                [p.func("SideState.mark_changed"), p.func("SyncEntry.mark_changed"), st.methods["mark_changed"]]]),
        ]
        for spec, groups in specs:
            f = p.func(spec)
            sites = []
            for grp in groups:
                gs = ctx.resolved_calls_to(f, grp, over=False)
                gs = [s for s in gs if s.kind == "call"]
                if not gs:
                    raise AnalysisError("%s no longer calls %s" % (spec, "/".join(short(g.qname) for g in grp)))
                sites += gs
            common = None
            for s in sites:
                ids = {id(w) for w in self._enclosing_locks(f, s.node)}
                common = ids if common is None else (common & ids)
            okk = bool(common) or self._always_locked(f)
            rep.check("C15.R2", short(f.qname), f, okk,
                      "%d call sites share one `with <state>.lock` region" % len(sites),
                      "the critical section of %s is split or unlocked: its %d state call sites do not share one lock region "
                      "(and not every caller holds the lock)" % (short(f.qname), len(sites)))

    def r3(self):
        rep, ctx = self.rep, self.ctx
        rep.rule("C15.R3", "SyncState.lock is assigned exactly once, in SyncState.__init__, from threading.RLock() "
                 "(one shared, re-entrant lock: the regions nest)", expect_min=1)
        stores = []
        for f in ctx.prog.functions.values():
            for n in ctx.own_nodes(f):
                if isinstance(n, ast.Attribute) and isinstance(n.ctx, (ast.Store, ast.Del)) and n.attr == "lock":
                    if _has_inst(ctx.res.type_of(f, n.value), self.state_q):
                        stores.append((f, n))
        init = self.state_cls.methods["__init__"]
        good = len(stores) == 1 and stores[0][0] is init
        detail = ""
        if good:
            # find the assigned value
            val = None
            for n in ctx.own_nodes(init):
                if isinstance(n, ast.Assign) and any(t is stores[0][1] for t in n.targets):
                    val = n.value
            t = ctx.res.type_of(init, val) if val is not None else frozenset()
            good = isinstance(val, ast.Call) and any(term == ("ext", "threading.RLock()") for term in t)
            detail = "lock = %s : %s" % (ast.unparse(val) if val is not None else "?", sorted(t))
        rep.check("C15.R3", "SyncState.lock", init, good, detail,
                  "SyncState.lock must be created once in SyncState.__init__ by threading.RLock(); found %d store(s): %s %s" % (
                      len(stores), [ctx.line(f, n) for f, n in stores], detail))

    def thorough_notes(self):
        """Extra roots, reported as notes only: public methods of the managers and of SyncState called directly."""
        rep, p = self.rep, self.ctx.prog
        for cname in ("SyncManager", "EventManager", "SyncState"):
            c = p.cls(cname)
            for name, f in list(c.methods.items()) + list(c.getters.items()):
                if name.startswith("_") or isinstance(f.node, ast.Lambda):
                    continue
                viol, _, _ = self.ls.unlocked_from(f)
                if viol:
                    rep.note("C15.R1", "extra-root|%s" % short(f.qname), f,
                             "%d mutation site(s) unlocked if called directly from an application thread (engine-internal API; callers in the engine hold the lock)" % len(viol))


def run(ctx: Ctx, rep: Report, tier: str):
    c = C15(ctx, rep)
    c.r1(tier)
    c.r2()
    c.r3()
    if tier == "thorough":
        c.thorough_notes()
    rep.assume("threads: Runnable.start creates one thread per manager running Runnable.run; application threads enter only through public CloudSync/SmartCloudSync methods")
