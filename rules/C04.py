"""C04 - non-conflicting concurrent changes merge exactly (no resurrection / duplication).

Decided: the engine never removes a tree recursively (R1); a non-empty folder delete waits for its children without touching
the provider (R2); after a successful peer delete the side is tombstoned and the entry ignored on every path (R3); a folder
path change re-paths every child (R4); renames are issued by stored id (R5); a delete + create of equal content on a
path-id provider is folded into one rename (R6).   Not decided: that the merged tree equals base + both deltas.
"""
from __future__ import annotations

import ast

from sa.model import AnalysisError, FuncInfo
from sa.ctx import Ctx, short, stmt_key, ENGINE_MODULES
from sa.cfg import NORMAL, describe_path
from sa.report import Report, section
from sa.effects import Effects
from sa.util import cfg_root, node_has_call, node_stores_attr, has_fact, fact_in
from sa import pat


def _assign(n, patt):
    r = cfg_root(n)
    return r is not None and isinstance(r, ast.Assign) and pat.match(patt, r) is not None


class C04:
    def __init__(self, ctx: Ctx, rep: Report):
        self.ctx, self.rep = ctx, rep
        self.eff = Effects(ctx)

    def r1(self):
        rep, ctx = self.rep, self.ctx
        rep.rule("C04.R1", "no engine module calls rmtree on a provider (positive control: Provider.rmtree exists and itself deletes)", expect_min=1)
        hits = []
        for f in ctx.prog.functions.values():
            if f.module.name in ENGINE_MODULES:
                for n in ctx.own_nodes(f):
                    if isinstance(n, ast.Call) and isinstance(n.func, ast.Attribute) and n.func.attr == "rmtree" and not (isinstance(n.func.value, ast.Name) and n.func.value.id == "shutil"):
                        hits.append((f, n))
        ctrl = ctx.prog.cls("Provider").methods.get("rmtree")
        if ctrl is None or not any(isinstance(n, ast.Call) and isinstance(n.func, ast.Attribute) and n.func.attr == "delete" for n in ctx.own_nodes(ctrl)):
            raise AnalysisError("positive control failed: Provider.rmtree (calling delete) not found")
        rep.check("C04.R1", "engine|rmtree", ctrl, not hits, "0 provider rmtree calls in the engine",
                  "the engine removes a provider tree recursively: %s (children changed on the other side are destroyed)" % ["%s `%s`" % (ctx.line(f, n), ast.unparse(n)[:40]) for f, n in hits])

    def r2_r3(self):
        rep, ctx = self.rep, self.ctx
        rep.rule("C04.R2", "a CloudFileExistsError on the peer delete (folder not empty) goes to _handle_dir_delete_not_empty, which issues no provider mutation", expect_min=2)
        rep.rule("C04.R3", "after a successful (or already-gone) peer delete the synced side is marked TRASHED and the entry ignored on every normal path to the return", expect_min=2)
        d = ctx.prog.func("SyncManager.delete_synced")
        sync, changed, synced = d.params()[1:4]
        hs = [h for t in ctx.own_nodes(d) if isinstance(t, ast.Try) for h in t.handlers if h.type is not None and "CloudFileExistsError" in ast.unparse(h.type)]
        ok = bool(hs) and all(any(isinstance(x, ast.Return) and isinstance(x.value, ast.Call) and pat.match("self._handle_dir_delete_not_empty($$$)", x.value) is not None for x in h.body) for h in hs)
        rep.check("C04.R2", "delete_synced|not-empty", d, ok, "returns _handle_dir_delete_not_empty(...)", "a not-empty error on the peer delete is no longer deferred to _handle_dir_delete_not_empty")
        h = ctx.prog.func("SyncManager._handle_dir_delete_not_empty")
        muts = self.eff.provider_mutations(h)
        deep = [s for s in ctx.sites(h) if any(not (t.cls is not None and t.cls.qname in self.eff.provider_q) and self.eff.may_mutate_provider(t) for t in s.under)]
        rep.check("C04.R2", "_handle_dir_delete_not_empty|no-mutation", h, not muts and not deep, "reads the listing only", "the not-empty handler mutates the provider (%s): children changed on the other side can be destroyed"
                  % [ast.unparse(m)[:40] for m in muts])
        g = ctx.cfg(d)
        dele = [n for n in g.nodes if node_has_call(n, "self.providers[%s].delete($X)" % synced)]
        if not dele:
            raise AnalysisError("delete_synced: provider delete not found")
        rets = [n for n in g.nodes if n.kind == "stmt" and isinstance(n.ast, ast.Return) and pat.match("FINISHED", n.ast.value or ast.Constant(None)) is not None]
        tomb = lambda n: _assign(n, "%s[%s].exists = TRASHED" % (sync, synced))   # noqa: E731
        pth = g.reach([x.id for x in dele], lambda n: n in rets, avoid=tomb, follow=NORMAL)
        rep.check("C04.R3", "delete_synced|tombstone", d, pth is None, "exists = TRASHED after the peer delete", "after deleting the peer its side is not tombstoned: the next event resurrects it",
                  witness=describe_path(pth) if pth else None)
        conf = {t.id for t in g.nodes if t.kind == "test" and pat.match("not %s.is_conflicted" % sync, t.ast) is not None}
        ign = lambda n: node_has_call(n, "%s.ignore($$$)" % sync)   # noqa: E731
        pth = g.reach([x.id for x in dele], lambda n: n in rets, avoid=ign, follow=lambda a, b, l: l != "exc" and not (a in conf and l == "F"))
        rep.check("C04.R3", "delete_synced|ignored", d, pth is None, "entry ignored after the peer delete (unless conflicted)", "a deleted entry is not discarded: it stays live and is synced again",
                  witness=describe_path(pth) if pth else None)

    def r4_r5(self):
        rep, ctx = self.rep, self.ctx
        rep.rule("C04.R4", "a folder path change reaches _update_kids on every path that stores a new path, and _update_kids re-paths every child it enumerates", expect_min=2)
        cp = ctx.prog.func("SyncState._change_path")
        g = ctx.cfg(cp)
        side, ent, path = cp.params()[1:4]
        st = [n for n in g.nodes if _assign(n, "%s[%s]._path = %s" % (ent, side, path))]
        uk = lambda n: node_has_call(n, "self._update_kids($$$)")   # noqa: E731
        pth = g.reach([x.id for x in st], lambda n: n is g.exit, avoid=uk, follow=NORMAL)
        rep.check("C04.R4", "_change_path|update_kids", cp, bool(st) and pth is None, "every new path is followed by _update_kids", "a folder's path can change without its children being re-pathed",
                  witness=describe_path(pth) if pth else None)
        k = ctx.prog.func("SyncState._update_kids")
        gk = ctx.cfg(k)
        loops = [n for n in gk.nodes if n.kind == "iter" and node_has_call(n, "self.get_kids($$$)")]
        ok = bool(loops)
        if ok:
            lp = loops[0]
            sub = lp.ast.target.elts[0].id if isinstance(lp.ast.target, ast.Tuple) else "?"
            body = [b for (b, l) in gk.succ[lp.id] if l == "T"]
            pth = gk.reach(body, lambda n: n is lp, avoid=lambda n: _assign(n, "%s[$S].path = $V" % sub), follow=NORMAL, include_src=True)
            ok = pth is None
            facts = ctx.facts(k).facts(lp)
            ok = ok and any(pol and "DIRECTORY" in txt for (txt, pol) in facts)
        rep.check("C04.R4", "_update_kids|each-child", k, ok, "every enumerated child gets its new path (folders only)", "_update_kids can skip a child of a renamed folder")
        rep.rule("C04.R5", "renames are issued by the stored id of the synced side (the object keeps its identity and content)", expect_min=1)
        hr = ctx.prog.func("SyncManager.handle_rename")
        sync, changed, synced = hr.params()[1:4]
        calls = [c for c in self.eff.provider_mutations(hr) if c.func.attr == "rename"]
        tp = hr.params()[4] if len(hr.params()) > 4 else "translated_path"
        ok = bool(calls) and all(pat.match("self.providers[%s].rename(%s[%s].oid, %s)" % (synced, sync, synced, tp), c) is not None for c in calls)
        rep.check("C04.R5", "handle_rename|by-id", hr, ok, "rename(sync[synced].oid, translated_path)", "the peer is not renamed by its stored id to the translated path")
        res = {n.targets[0].id for n in ctx.own_nodes(hr) if isinstance(n, ast.Assign) and any(n.value is c for c in calls) and isinstance(n.targets[0], ast.Name)}
        ups = [c for c in ctx.calls(hr, "update_entry")]
        # update_entry(ent, side, oid=None, ...): the id may be passed by keyword or as the third positional argument
        def _oid_arg(c):
            return [k.value for k in c.keywords if k.arg == "oid"] + ([c.args[2]] if len(c.args) > 2 else [])
        ok = bool(res) and bool(ups) and all(any(isinstance(x, ast.Name) and x.id in res for v in _oid_arg(c) for x in ast.walk(v)) for c in ups)
        rep.check("C04.R5", "handle_rename|new-id-recorded", hr, ok, "the id returned by rename() is recorded for the renamed side",
                  "the id returned by the provider's rename is dropped: with path-style ids the entry keeps the old id and a second rename of the same object duplicates it")

    def r6(self):
        rep, ctx = self.rep, self.ctx
        rep.rule("C04.R6", "delete + create folding: attempted only for path-id providers; on a match the create entry is discarded and the delete "
                 "entry takes over the create's exists, path and id on every path of the match arm", expect_min=3)
        f = ctx.prog.func("SyncManager.check_rename_is_delete_create")
        g = ctx.cfg(f)
        sync, changed = f.params()[1:3]
        gate = [n for n in g.nodes if n.kind == "test" and pat.match("not self.providers[%s].oid_is_path" % changed, n.ast) is not None]
        look = [n for n in g.nodes if node_has_call(n, "self.state.lookup_creation($$$)") or node_has_call(n, "self.state.lookup_deletion($$$)")]
        pth = g.reach([g.entry.id], lambda n: n in look, avoid=lambda n: n in gate)
        rep.check("C04.R6", "fold|gate", f, bool(gate) and bool(look) and pth is None, "folding only under oid_is_path", "delete+create folding is attempted for id-style providers too")
        mname = None
        for n_ in ctx.own_nodes(f):
            if isinstance(n_, ast.Assign) and isinstance(n_.targets[0], ast.Name) and isinstance(n_.value, ast.Call) and \
                    (pat.match("self.state.lookup_creation($$$)", n_.value) is not None or pat.match("self.state.lookup_deletion($$$)", n_.value) is not None):
                mname = n_.targets[0].id
        dname = cname = None
        for n_ in ctx.own_nodes(f):
            if isinstance(n_, ast.Assign) and isinstance(n_.targets[0], ast.Tuple) and len(n_.targets[0].elts) == 2 and isinstance(n_.value, ast.IfExp) \
                    and all(isinstance(e, ast.Name) for e in n_.targets[0].elts):
                dname, cname = n_.targets[0].elts[0].id, n_.targets[0].elts[1].id
        mt = [n for n in g.nodes if n.kind == "test" and mname is not None and pat.match(mname, n.ast) is not None]
        if not mt or dname is None:
            raise AnalysisError("check_rename_is_delete_create: `if <match>:` / `delete, create = ...` not found")
        starts = [b for (b, l) in g.succ[mt[0].id] if l == "T"]
        ends = [n for n in g.nodes if n.kind == "stmt" and isinstance(n.ast, ast.Return) and any(x is n.ast for x in ast.walk(mt[0].ast) ) is False]
        arm_rets = [n for n in g.nodes if n.kind == "stmt" and isinstance(n.ast, ast.Return) and fact_in(ctx.facts(f).facts(n), mname, True)]
        for what, patt in (("exists", "%s[%s].exists = %s[%s].exists" % (dname, changed, cname, changed)), ("path", "%s[%s].path = %s[%s].path" % (dname, changed, cname, changed)),
                           ("oid", "%s[%s].oid = %s[%s].oid" % (dname, changed, cname, changed))):
            pth = g.reach(starts, lambda n: n in arm_rets, avoid=lambda n, patt=patt: _assign(n, patt), follow=NORMAL, include_src=True)
            rep.check("C04.R6", "fold|%s" % what, f, bool(arm_rets) and pth is None, patt, "the folded rename does not take over the create's %s on every path: the object ends at two paths / keeps the old id" % what,
                      witness=describe_path(pth) if pth else None)
        disc = lambda n: node_has_call(n, "%s.ignore(IgnoreReason.DISCARDED)" % cname)   # noqa: E731
        pth = g.reach(starts, lambda n: n in arm_rets, avoid=disc, follow=NORMAL, include_src=True)
        rep.check("C04.R6", "fold|discard-create", f, pth is None, "the create entry is discarded", "the create entry survives the fold: the object is duplicated", witness=describe_path(pth) if pth else None)


def run(ctx: Ctx, rep: Report, tier: str):
    c = C04(ctx, rep)
    section(rep, c.r1)
    section(rep, c.r2_r3)
    rep.rule("C04.R3b", "a delete stays deleted: when the provider has no information about a tombstoned (LIKELY_TRASHED) id it is confirmed TRASHED for "
             "every provider style, nothing stores EXISTS on that arm (same queries as C14.W4)", expect_min=3)
    from rules.C14 import w4
    section(rep, lambda: w4(ctx, rep, "C04.R3b"))
    section(rep, c.r4_r5)
    from rules.common import kids_sync_path_rebased, refresh_marks_exists
    rep.rule("C04.R4b", "a renamed folder re-bases each child's last-synced path from the child's own old last-synced path, so a child's own pending rename stays pending", 1)
    section(rep, lambda: kids_sync_path_rebased(ctx, rep, "C04.R4b"))
    from rules.common import alias
    from rules.C03 import C03
    alias(rep, ["C03.R1", "C03.R2"], "C04.R4c", "after a rename / folder creation is mirrored, both sides' last-synced paths are recorded (C03.R1): renaming the object "
          "back to its old name is still recognised as a rename and ends with the object only at its new path", 4, lambda: C03(ctx, rep).r1_r2(),
          keep=lambda i: i.rule == "C03.R1" and i.key.split("|")[0] in ("handle_rename", "unsafe_mkdir_synced"))
    rep.rule("C04.R7", "a folder delete that finds children re-examines the children on the side where the delete happened: the kids listed for "
             "(path, side) are FORCE-synced (a plain changed mark is discarded by the needs-no-sync short-circuit) on that same side, and so is the folder", 2)
    from rules.common import dir_delete_rechecks_kids
    section(rep, lambda: dir_delete_rechecks_kids(ctx, rep, "C04.R7"))
    rep.rule("C04.R3c", "a refresh that finds the object marks it EXISTS on every path (C14.W8): a stale tombstone does not delete the peer of a live object", 1)
    section(rep, lambda: refresh_marks_exists(ctx, rep, "C04.R3c"))
    section(rep, c.r6)
    from rules.common import alias as _alias
    from rules.common import temp_rename_on_moved_entry
    rep.rule("C04.R8", "the engine's own move-aside (.conflicted temp rename) is never mistaken for a user rename: TEMP_RENAME is flagged on the entry "
           "whose file was moved (C03.R6), so a one-sided rename cycle ends with each object only at its new path", 2)
    section(rep, lambda: temp_rename_on_moved_entry(ctx, rep, "C04.R8"))
    from rules.common import definition_holds
    rep.rule("C04.R9", "when two renames conflict: path_conflict is true exactly for an entry that was synced, exists on both sides, whose two paths no longer correspond "
             "and BOTH of which moved away from their last-synced path (and is no engine temp rename); is_path_change / is_rename as defined; is_trash = no id on either side", 4)
    section(rep, lambda: definition_holds(ctx, rep, "C04.R9", "SyncManager.path_conflict", "a one-sided rename is treated as a two-sided conflict (split / .conflicted artefact) or a real rename conflict is not noticed"))
    section(rep, lambda: definition_holds(ctx, rep, "C04.R9", "SyncEntry.is_path_change", "a rename is not propagated as a rename"))
    section(rep, lambda: definition_holds(ctx, rep, "C04.R9", "SyncEntry.is_rename", "a rename is not propagated as a rename"))
    section(rep, lambda: definition_holds(ctx, rep, "C04.R9", "SyncEntry.is_trash", "a live entry's row is deleted / a dead one kept"))
    from rules.common import creation_dispatch
    rep.rule("C04.R10", "creations and renames are dispatched apart (C02.R12): a rename is propagated by handle_rename, never re-created; a creation never renames", 4)
    section(rep, lambda: creation_dispatch(ctx, rep, "C04.R10"))
    from rules.common import rename_copy_guard
    rep.rule("C04.R11", "a rename on a path-id provider keeps the renamed object's own peer: SyncState.update grafts the other entry's peer half only onto an entry that has none", 1)
    section(rep, lambda: rename_copy_guard(ctx, rep, "C04.R11"))
    from rules.C02 import C02 as _C02
    _alias(rep, ["C02.R3"], "C04.R12", "a delete is dropped in favour of a pending creation only when the creation is pending on the OTHER side (C02.R3): delete + re-create of "
           "the same name on one side still deletes the old object", 2, lambda: _C02(ctx, rep).r3())
    from rules.common import entry_paths_match_for_display
    rep.rule("C04.R13", "rename detection sees case-only renames (C03.R16)", 1)
    section(rep, lambda: entry_paths_match_for_display(ctx, rep, "C04.R13"))
    from rules.common import rename_reuse_guard
    rep.rule("C04.R14", "which entry a rename event belongs to (C05.V18)", 1)
    section(rep, lambda: rename_reuse_guard(ctx, rep, "C04.R14"))
    from rules.common import event_application_writes_through
    _alias(rep, ["C04.tmp"], "C04.R15", "a delete stays deleted when a stale 'exists' event follows it: update_entry turns TRASHED + exists into LIKELY_TRASHED (identity tests on the "
           "enum member and on True), every other event writes its existence flag through (C14.W11)", 1,
           lambda: (rep.rule("C04.tmp", "alias", 0), event_application_writes_through(ctx, rep, "C04.tmp")), keep=lambda i: i.key == "update_entry|exists")
    from rules.common import definition_holds as _dh
    rep.rule("C04.R16", "what counts as a deletion (C02.R11): SyncEntry.is_deletion is true exactly when the peer EXISTS and this side is TRASHED / MISSING and changed - a "
             "one-sided tombstone is not a deletion to fold into a rename", 1)
    section(rep, lambda: _dh(ctx, rep, "C04.R16", "SyncEntry.is_deletion", "an echo tombstone counts as a deletion and is folded into an unrelated creation, or a real delete is not propagated"))
    from rules.common import parent_search_climbs as _psc
    rep.rule("C04.R17", "independent changes are applied parents first (C01.R9): the search for a changed ancestor climbs every level", 1)
    section(rep, lambda: _psc(ctx, rep, "C04.R17"))
    from rules.decisions import decision_table, table_sites
    rep.rule("C04.DT", "decision table (rules/decisions.json) of delete handling, the non-empty-folder path, the vanished-object paths and revival: for every function and every action shape (an impure call with the parameters it passes, a store to an "
             "attribute or item, a delete, a returned constant, a yield, a raise) the set of states - over the function's guard atoms - in which the action is taken "
             "equals the recorded one; compared as canonical decision diagrams, so any equivalent respelling of the guards is the same table", table_sites("C04"))
    section(rep, lambda: decision_table(ctx, rep, "C04.DT", "C04"))
