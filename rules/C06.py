"""C06 - restart resumes from persisted state; offline changes are synchronised.

Decided: the cursor is written after the events it covers (R1); a fresh cursor is never made durable while the owed
walk exists only in memory (R2); the cursor-error fallback is wired to a walk (R3); the walk marker is written only
after a complete walk (R4); the load loop rebuilds both indexes and the pending set from the `changed` flag under
_loading (R5); storage labels separate provider pairs, accounts and roots (R6).
Not decided: "continues as if it had never stopped".
"""
from __future__ import annotations

import ast

from sa.model import AnalysisError, FuncInfo
from sa.ctx import Ctx, short, stmt_key
from sa.cfg import NORMAL, describe_path
from sa.report import Report, section
from sa.util import cfg_root, node_has_call, node_stores_attr, has_fact
from sa import pat


class C06:
    def __init__(self, ctx: Ctx, rep: Report):
        self.ctx, self.rep = ctx, rep
        self.em = ctx.prog.cls("EventManager")
        self.state = ctx.prog.cls("SyncState")

    # helper: does function g (transitively, under-approx, depth 2) write the cursor row?
    def _writes_cursor(self, g: FuncInfo, depth=2) -> bool:
        for n in self.ctx.own_nodes(g):
            if isinstance(n, ast.Call) and pat.match("self.state.storage_update_data(self._cursor_tag, $$$)", n) is not None:
                return True
        if depth:
            for s in self.ctx.sites(g):
                if s.kind == "call" and any(t.cls is not None and t.cls in self.em.mro + self.em.all_subclasses() and self._writes_cursor(t, depth - 1) for t in s.under):
                    return True
        return False

    def _cursor_write_nodes(self, f: FuncInfo):
        """CFG nodes of f that persist the cursor, directly or through a helper of the event manager."""
        g = self.ctx.cfg(f)
        out = []
        for n in g.nodes:
            r = cfg_root(n)
            if r is None:
                continue
            for x in ast.walk(r):
                if isinstance(x, ast.Call):
                    if pat.match("self.state.storage_update_data(self._cursor_tag, $$$)", x) is not None:
                        out.append(n)
                    else:
                        s = self.ctx.site_of(f, x, "call")
                        if s is not None and any(t.cls is not None and t.cls in self.em.mro + self.em.all_subclasses() and t is not f and self._writes_cursor(t, 1) for t in s.under):
                            out.append(n)
        return out

    def _forget_marker_nodes(self, f: FuncInfo):
        """Nodes that make the walk obligation durable: storage_delete_tag(self._walk_tag), directly or via a helper."""
        g = self.ctx.cfg(f)
        out = []

        def deletes(gf: FuncInfo, depth=1) -> bool:
            for n in self.ctx.own_nodes(gf):
                if isinstance(n, ast.Call) and pat.match("self.state.storage_delete_tag(self._walk_tag)", n) is not None:
                    # unconditional up to the "there is a walk tag" test
                    return True
            return False

        for n in g.nodes:
            r = cfg_root(n)
            if r is None:
                continue
            for x in ast.walk(r):
                if isinstance(x, ast.Call):
                    if pat.match("self.state.storage_delete_tag(self._walk_tag)", x) is not None:
                        out.append(n)
                    else:
                        s = self.ctx.site_of(f, x, "call")
                        if s is not None and s.under and all(deletes(t) for t in s.under):
                            out.append(n)
        return out

    def r1(self, rule_id="C06.R1"):
        rep, ctx = self.rep, self.ctx
        f = self.em.methods["_do_unsafe"]
        g = ctx.cfg(f)
        loops = [n for n in g.nodes if n.kind == "iter" and node_has_call(n, "self.provider.events()")]
        if len(loops) != 1:
            raise AnalysisError("_do_unsafe: loop over self.provider.events() not found")
        writes = self._cursor_write_nodes(f)
        if not writes:
            rep.violation(rule_id, "_do_unsafe|cursor-write", f, "_do_unsafe no longer persists the cursor after a batch")
            return
        lid = loops[0].id
        inside = [b for (b, l) in g.succ[lid] if l == "T"]
        pth = g.reach(inside, lambda n: n in writes, follow=lambda a, b, l: not (a == lid and l == "F"), include_src=True)
        after = g.reach([b for (b, l) in g.succ[lid] if l == "F"], lambda n: n in writes, include_src=True)
        if after is None:
            rep.violation(rule_id, "_do_unsafe|cursor-write", f, "no cursor write follows the events loop: the cursor is never advanced")
        rep.check(rule_id, "_do_unsafe|cursor-after-events", ctx.line(f, writes[0].ast), pth is None,
                  "the cursor write is only reachable through the exhausted events() loop",
                  "the cursor can be persisted before every event of the batch was applied (e.g. on the `stopped` early exit): a restart resumes past an unapplied event",
                  witness=describe_path(pth) if pth else None)
        # every event of the loop is processed: _process_event(event) on each iteration unless stopped returns
        proc = [n for n in g.nodes if node_has_call(n, "self._process_event($$$)")]
        body = [b for (b, l) in g.succ[lid] if l == "T"]
        skip = g.reach(body, lambda n: n is loops[0], avoid=lambda n: n in proc, follow=NORMAL, include_src=True)
        rep.check(rule_id, "_do_unsafe|each-event-applied", ctx.line(f, loops[0].ast), skip is None, "every fetched event is applied before the next is fetched",
                  "an event fetched from the provider can be skipped without being applied while the loop continues", witness=describe_path(skip) if skip else None)

    def r2(self):
        rep, ctx = self.rep, self.ctx
        rep.rule("C06.R2", "every persistent cursor write is covered: either it follows the exhausted events loop of the same step (R1), or on "
                 "every path to it the walk obligation is durable (walk marker deleted first) or known absent (need_walk false)", expect_min=2)
        n = 0
        direct = {name: f for name, f in self.em.methods.items() if self._writes_cursor(f, 0)}
        helpers = {f.qname for name, f in direct.items() if name.startswith("_") and name not in ("_do_unsafe", "_do_first_init")}
        for name, f in self.em.methods.items():
            if f.qname in helpers:
                continue        # helpers are accounted for at their call sites
            g = ctx.cfg(f)
            writes = []
            for nd in g.nodes:
                r = cfg_root(nd)
                if r is None:
                    continue
                for x in ast.walk(r):
                    if isinstance(x, ast.Call):
                        if pat.match("self.state.storage_update_data(self._cursor_tag, $$$)", x) is not None:
                            writes.append(nd)
                        elif name != "_do_unsafe":       # in _do_unsafe the helper call behind the exhausted events loop is rule R1's
                            s_ = ctx.site_of(f, x, "call")
                            if s_ is not None and any(t.qname in helpers for t in s_.under):
                                writes.append(nd)
            if not writes:
                continue
            forget = self._forget_marker_nodes(f)
            nw_tests = {t.id for t in g.nodes if t.kind == "test" and pat.match("self.need_walk", t.ast) is not None}
            for w in writes:
                n += 1
                pth = g.reach([g.entry.id], lambda m: m is w, avoid=lambda m: m in forget,
                              follow=lambda a, b, l: not (a in nw_tests and l == "F"))
                rep.check("C06.R2", "%s|%s" % (short(f.qname), ast.unparse(cfg_root(w)).split("\n")[0][:60]), ctx.line(f, cfg_root(w)), pth is None,
                          "walk marker deleted (or no walk owed) on every path to the write",
                          "a fresh cursor is made durable while the walk it presupposes is only remembered in memory: a stop before the walk completes "
                          "restarts with a valid cursor, the old walk marker and no walk", witness=describe_path(pth) if pth else None, func=f.qname)
        if n < 2:
            raise AnalysisError("only %d cursor write sites outside _do_unsafe found, expected >= 2" % n)

    def r3(self):
        rep, ctx = self.rep, self.ctx
        rep.rule("C06.R3", "cursor-error fallback: the CloudCursorError handler of EventManager.do sets need_walk on every path; the handler in "
                 "_do_first_init re-raises; _validate_root derives need_walk from 'no stored cursor' OR 'no walk marker'", expect_min=3)
        f = self.em.methods["do"]
        g = ctx.cfg(f)
        hs = [n for n in g.nodes if n.kind == "except" and n.handler_types and "CloudCursorError" in n.handler_types]
        if not hs:
            rep.violation("C06.R3", "do|CloudCursorError", f, "EventManager.do no longer handles CloudCursorError: an invalid stored cursor is never replaced by a walk")
        for h in hs:
            pth = g.reach([h.id], lambda m: m in (g.exit, g.raise_exit), avoid=lambda m: node_stores_attr(m, "need_walk", "True"), follow=g.intended)
            rep.check("C06.R3", "do|CloudCursorError", ctx.line(f, h.ast), pth is None, "need_walk = True on every path of the handler",
                      "the cursor-error handler can finish without requesting a walk: everything between the lost cursor and the fresh one is never seen",
                      witness=describe_path(pth) if pth else None)
        fi = self.em.methods.get("_do_first_init") or self.em.methods["_do_unsafe"]      # the first-step block, wherever it lives
        gi = ctx.cfg(fi)
        hs = [n for n in gi.nodes if n.kind == "except" and n.handler_types and "CloudCursorError" in n.handler_types]
        for h in hs:
            # the handler must leave by raising: no normal path from it to the end of the try statement it belongs to
            after = {b for t in ctx.own_nodes(fi) if isinstance(t, ast.Try) and any(hh is h.ast for hh in t.handlers)
                     for b in [x.id for x in gi.nodes if x.kind == "join"]}
            pth = gi.reach([h.id], lambda m: m is gi.exit or (m.kind == "stmt" and isinstance(m.ast, ast.Assign) and pat.match("self._first_do = False", m.ast) is not None), follow=NORMAL)
            rep.check("C06.R3", "_do_first_init|CloudCursorError", ctx.line(fi, h.ast), pth is None, "handler re-raises on every path",
                      "_do_first_init swallows CloudCursorError: do()'s handler (fresh cursor + walk) never runs", witness=describe_path(pth) if pth else None)
        if not hs:
            rep.note("C06.R3", "_do_first_init|CloudCursorError", fi, "no local handler: the error propagates to do() unchanged")
        fv = self.em.methods["_validate_root"]
        asg = [n for n in ctx.own_nodes(fv) if isinstance(n, ast.Assign) and isinstance(n.targets[0], ast.Attribute) and n.targets[0].attr == "need_walk"]
        good = False
        for a in asg:
            v = a.value
            if isinstance(v, ast.BoolOp) and isinstance(v.op, ast.Or):
                parts = [ast.unparse(x) for x in v.values]
                good = any(pat.match("self.cursor is None", x) is not None for x in v.values) and \
                    any(pat.match("self.state.storage_get_data(self._walk_tag) is None", x) is not None for x in v.values)
        rep.check("C06.R3", "_validate_root|need_walk", fv, good, "need_walk = cursor is None or walk marker is None",
                  "_validate_root no longer derives need_walk from both 'no stored cursor' and 'no walk marker'")

    def r4(self):
        rep, ctx = self.rep, self.ctx
        rep.rule("C06.R4", "the walk marker is written and need_walk cleared only after the walk loop completed; the `stopped` return inside "
                 "the loop skips both", expect_min=2)
        f = self.em.methods["_do_walk_if_needed"]
        g = ctx.cfg(f)
        loops = [n for n in g.nodes if n.kind == "iter" and node_has_call(n, "self.provider.walk_oid($$$)")]
        if len(loops) != 1:
            raise AnalysisError("_do_walk_if_needed: loop over provider.walk_oid not found")
        lid = loops[0].id
        marker = [n for n in g.nodes if node_has_call(n, "self.state.storage_update_data(self._walk_tag, $$$)")]
        clear = [n for n in g.nodes if node_stores_attr(n, "need_walk", "False")]
        if not marker or not clear:
            raise AnalysisError("_do_walk_if_needed: marker write / need_walk = False not found")
        # the loop may also be left by the CloudFileNotFoundError handler (root vanished): that arm is part of today's contract
        for what, nodes in (("marker", marker), ("need_walk=False", clear)):
            pth = g.reach([g.entry.id], lambda m: m in nodes, follow=lambda a, b, l: l != "exc" and not (a == lid and l == "F"))
            rep.check("C06.R4", "_do_walk_if_needed|%s" % what, f, pth is None, "only reachable through the exhausted walk loop",
                      "the walk %s can be set although the walk was interrupted: a restart believes the tree was walked" % what,
                      witness=describe_path(pth) if pth else None)

    def r5(self):
        rep, ctx = self.rep, self.ctx
        rep.rule("C06.R5", "load rebuild: for both sides the loaded entry is indexed by id and by (path, id), it joins the pending set exactly "
                 "when its `changed` flag is set, and the whole loop runs under _loading", expect_min=4)
        f = self.state.methods["__init__"]
        g = ctx.cfg(f)
        cons = [n for n in g.nodes if node_has_call(n, "SyncEntry($$$)")]
        if not cons:
            raise AnalysisError("SyncState.__init__: SyncEntry construction not found")
        pth = g.reach([g.entry.id], lambda m: m in cons, avoid=lambda m: node_stores_attr(m, "_loading", "True"))
        rep.check("C06.R5", "load|_loading", f, pth is None, "_loading = True precedes the construction of loaded entries",
                  "loaded entries are constructed without _loading: deserialisation re-indexes and dirties through updated()", witness=describe_path(pth) if pth else None)
        stores = {"_oids": False, "_paths": False}
        # the loading code, and the private helpers it hands a loaded entry to (`self._index_loaded_entry(ent)`)
        fs_ = [f]
        for n in ctx.own_nodes(f):
            if isinstance(n, ast.Call) and isinstance(n.func, ast.Attribute) and isinstance(n.func.value, ast.Name) and n.func.value.id == f.self_name and n.func.attr.startswith("_"):
                h = self.state.methods.get(n.func.attr)
                if h is not None and h not in fs_ and {s_.func.qname for s_ in ctx.callers(h)} == {f.qname}:
                    fs_.append(h)
        side_loops = [n for ff in fs_ for n in ctx.own_nodes(ff) if isinstance(n, ast.For) and (pat.match("[LOCAL, REMOTE]", n.iter) is not None or pat.match("(LOCAL, REMOTE)", n.iter) is not None)]
        for lp in side_loops:
            sv = lp.target.id if isinstance(lp.target, ast.Name) else None
            for x in ast.walk(lp):
                if isinstance(x, ast.Assign) and isinstance(x.targets[0], ast.Subscript):
                    t = ast.unparse(x.targets[0])
                    if t.startswith("self._oids[%s][" % sv):
                        stores["_oids"] = True
                    if t.startswith("self._paths[%s][" % sv) and t.count("[") >= 3:
                        stores["_paths"] = True
        rep.check("C06.R5", "load|indexes", f, all(stores.values()), "both indexes rebuilt for both sides",
                  "the load loop no longer rebuilds %s for both sides" % [k for k, v in stores.items() if not v])
        adds = [(ff, n) for ff in fs_ for n in ctx.own_nodes(ff) if isinstance(n, ast.Call) and pat.match("self._changeset_storage.add($E)", n) is not None]
        good = bool(adds)
        for ff, a in adds:
            facts = ctx.facts_at(ff, a)
            m = pat.match("self._changeset_storage.add($E)", a)
            ent = ast.unparse(m["E"])
            from sa.util import extra_facts
            good = good and has_fact(facts, "%s[$S].changed" % ent, True) and not extra_facts(facts, [("%s[$S].changed" % ent, True), ("self._storage", True), ("$X is None", False),
                                                                                                      ("self._loading", True), ("self._tag", True)])
        rep.check("C06.R5", "load|pending", f, good, "pending set rebuilt from the persisted `changed` flag",
                  "the pending set is not rebuilt from the entries' `changed` flag (facts at the add: %s): a change that was recorded but not yet "
                  "examined by the sync step is forgotten by a restart" % [sorted(ctx.facts_at(ff, a)) for ff, a in adds])
        lo = [n for n in g.nodes if node_stores_attr(n, "_loading", "False")]
        rep.check("C06.R5", "load|_loading-reset", f, bool(lo), "_loading reset after the loop", "_loading is never reset after loading", nontrivial=False)

    def r6(self):
        rep, ctx = self.rep, self.ctx
        rep.rule("C06.R6", "storage_label mentions both providers' name and connection id and both roots; cursor and walk tags include the "
                 "event manager's label and its root", expect_min=2)
        f = ctx.prog.func("CloudSync.storage_label")
        txt = " ".join(ast.unparse(n) for n in ctx.own_nodes(f) if isinstance(n, ast.Return))
        rl = None
        for n_ in ctx.own_nodes(f):
            if isinstance(n_, ast.Assign) and isinstance(n_.targets[0], ast.Name) and any(isinstance(x, ast.Attribute) and x.attr == "roots" for x in ast.walk(n_.value)):
                rl = n_.targets[0].id
        rl = rl or "self.roots"
        need = ["self.providers[0].name", "self.providers[0].connection_id", "%s[0]" % rl, "self.providers[1].name", "self.providers[1].connection_id", "%s[1]" % rl]
        miss = [x for x in need if x not in txt]
        rep.check("C06.R6", "storage_label", f, not miss, "label covers names, connection ids and roots of both sides", "storage_label no longer includes %s" % miss, nontrivial=False)
        fv = self.em.methods["_validate_root"]
        tags = {}
        for n in ctx.own_nodes(fv):
            if isinstance(n, ast.Assign) and isinstance(n.targets[0], ast.Attribute) and n.targets[0].attr in ("_walk_tag", "_cursor_tag") and isinstance(n.value, ast.BinOp):
                tags[n.targets[0].attr] = ast.unparse(n.value)
        rootv = None
        for n_ in ctx.own_nodes(fv):
            if isinstance(n_, ast.Assign) and isinstance(n_.targets[0], ast.Name) and any(isinstance(x, ast.Attribute) and x.attr in ("_root_path", "_root_oid") for x in ast.walk(n_.value)):
                rootv = n_.targets[0].id
        good = all("self.label" in v and (rootv or "self._root_path") in v for v in tags.values()) and len(tags) == 2 and tags.get("_walk_tag") != tags.get("_cursor_tag")
        rep.check("C06.R6", "tags", fv, good, "%s" % tags, "cursor / walk tags are not distinct functions of label and root: %s" % tags, nontrivial=False)


def run(ctx: Ctx, rep: Report, tier: str):
    c = C06(ctx, rep)
    rep.rule("C06.R3b", "a stored cursor is discarded only when it is absent: EventManager tests `self.cursor` for identity with None, never for truthiness "
             "(0 / '' / empty tuples are legitimate provider cursors)", expect_min=3)
    em_ = ctx.prog.cls("EventManager")
    for f_ in em_.methods.values():
        for n_ in ctx.own_nodes(f_):
            tests_ = []
            if isinstance(n_, (ast.If, ast.While, ast.IfExp)):
                tests_.append(n_.test)
            elif isinstance(n_, ast.BoolOp):
                tests_ += n_.values
            elif isinstance(n_, ast.UnaryOp) and isinstance(n_.op, ast.Not):
                tests_.append(n_.operand)
            elif isinstance(n_, ast.Assert):
                tests_.append(n_.test)
            for t_ in tests_:
                if pat.match("self.cursor", t_) is not None:
                    rep.violation("C06.R3b", "%s|truthiness" % short(f_.qname), ctx.line(f_, n_),
                                  "`self.cursor` is tested for truthiness: a legitimate falsy cursor (0, '') read from storage is thrown away and events between it and `current_cursor` are lost")
            if isinstance(n_, ast.Compare) and len(n_.ops) == 1 and pat.match("self.cursor", n_.left) is not None:
                okc = isinstance(n_.ops[0], (ast.Is, ast.IsNot, ast.Eq, ast.NotEq))
                rep.check("C06.R3b", "%s|%s" % (short(f_.qname), ast.unparse(n_)), ctx.line(f_, n_), okc, "identity / equality test", "cursor compared by order")
    rep.rule("C06.R1", "in _do_unsafe the cursor write is reachable only through the exhausted provider.events() loop (the `stopped` early "
             "return skips it) and every fetched event is applied", expect_min=2)
    section(rep, c.r1)
    section(rep, c.r2)
    section(rep, c.r3)
    section(rep, c.r4)
    section(rep, c.r5)
    section(rep, c.r6)
    from rules.common import alias
    from rules.C08 import C08
    alias(rep, ["C08.R6"], "C06.R7", "entries applied by the walk / by events are durable before the walk marker or cursor that vouches for them is written: "
          "_process_event commits before it returns (C08.R6), so the marker write that follows the walk loop never outruns the entries", 1,
          lambda: C08(ctx, rep).r6(), keep=lambda i: "_process_event" in i.key)
    from rules.common import data_rows_follow_storage, first_init_completes_before_flag
    rep.rule("C06.R8", "cursor / walk-marker rows are managed from what storage holds: storage_delete_tag deletes every row read_all(tag) returns (not only a "
             "cached id), storage_update_data looks the tag up in storage before choosing update or create", 2)
    section(rep, lambda: data_rows_follow_storage(ctx, rep, "C06.R8"))
    rep.rule("C06.R9", "the first step after a (re)start is repeated until it completed: _do_first_init clears _first_do after its last provider / state call", 1)
    section(rep, lambda: first_init_completes_before_flag(ctx, rep, "C06.R9"))
    rep.rule("C06.R10", "what was persisted is read back: _validate_root loads `self.cursor` from storage (under the cursor tag it just computed) on every path that "
             "declares the root validated; the walk obligation is recomputed from the stored cursor and walk marker", 2)
    vr = ctx.prog.func("EventManager._validate_root")
    gv = ctx.cfg(vr)
    val = [n for n in gv.nodes if node_stores_attr(n, "_root_validated", "True")]
    load = [n for n in gv.nodes if cfg_root(n) is not None and isinstance(cfg_root(n), ast.Assign) and pat.match("self.cursor = self.state.storage_get_data(self._cursor_tag)", cfg_root(n)) is not None]
    tagst = [n for n in gv.nodes if node_stores_attr(n, "_cursor_tag")]
    if not val:
        raise AnalysisError("_validate_root never declares the root validated")
    pth = gv.reach([gv.entry.id], lambda n: n in val, avoid=lambda n: n in load, follow=NORMAL)
    # the load must come after the tag was computed
    pth2 = gv.reach([gv.entry.id], lambda n: n in load, avoid=lambda n: n in tagst, follow=NORMAL) if load else []
    rep.check("C06.R10", "_validate_root|cursor-loaded", vr, bool(load) and pth is None and pth2 is None, "cursor := storage_get_data(cursor tag) before the root is declared validated",
              "the event manager can start without reading the stored cursor back (or reads it under a stale tag): a restart behaves like a first start / skips the outage",
              witness=describe_path(pth or pth2) if (pth or pth2) else None)
    nw = [n for n in ctx.own_nodes(vr) if isinstance(n, ast.Assign) and pat.match("self.need_walk", n.targets[0]) is not None]
    okw = bool(nw) and all(pat.match("self.cursor is None or self.state.storage_get_data(self._walk_tag) is None", n.value) is not None for n in nw)
    rep.check("C06.R10", "_validate_root|walk-owed", vr, okw, "need_walk := no stored cursor or no walk marker",
              "the walk obligation after a restart is no longer `no stored cursor or no walk marker`: an interrupted walk is not repeated / a complete one is")
    rep.rule("C06.R11", "every intake step first restores the cursor (first step) and pays the walk it owes, then drains queued and provider events: in _do_unsafe "
             "_do_first_init() and _do_walk_if_needed() precede every _process_event / events() on every path", 2)
    du = ctx.prog.func("EventManager._do_unsafe")
    gd = ctx.cfg(du)
    work = [n for n in gd.nodes if node_has_call(n, "self._process_event($$$)") or node_has_call(n, "self.provider.events()")]
    for nm in ("_do_first_init", "_do_walk_if_needed"):
        pre = [n for n in gd.nodes if node_has_call(n, "self.%s()" % nm)]
        if not pre and nm == "_do_first_init":      # inlined: the test of the first-step flag is the block's entry
            pre = [n for n in gd.nodes if n.kind == "test" and any(pat.match("self._first_do", x) is not None for x in ast.walk(n.ast))]
        if not pre and nm == "_do_walk_if_needed":
            pre = [n for n in gd.nodes if n.kind == "test" and any(pat.match("self.need_walk", x) is not None for x in ast.walk(n.ast))]
        p_ = gd.reach([gd.entry.id], lambda n: n in work, avoid=lambda n: n in pre, follow=NORMAL)
        rep.check("C06.R11", "_do_unsafe|%s" % nm, du, bool(pre) and p_ is None, "%s() first" % nm,
                  "_do_unsafe can process events without %s(): %s" % (nm, "the stored cursor is never pushed into the provider - events of the outage are skipped" if nm == "_do_first_init"
                                                                     else "an owed walk (first start, lost cursor) never happens - pre-existing files are never discovered"),
                  witness=describe_path(p_) if p_ else None)
    rep.rule("C06.R12", "a rejected cursor is replaced by the provider's latest one before it is persisted: the CloudCursorError handler of do() re-positions the provider "
             "(current_cursor := latest_cursor) before _save_current_cursor()", 1)
    dof = ctx.prog.func("EventManager.do")
    gdo = ctx.cfg(dof)
    hs_ = [h for t in ctx.own_nodes(dof) if isinstance(t, ast.Try) for h in t.handlers if h.type is not None and "CloudCursorError" in ast.unparse(h.type)]
    if not hs_:
        raise AnalysisError("EventManager.do: CloudCursorError handler not found")
    for h in hs_:
        st0 = [x.id for x in gdo.nodes if x.kind == "stmt" and h.body and x.ast is h.body[0]]
        repos = lambda n: cfg_root(n) is not None and isinstance(cfg_root(n), ast.Assign) and pat.match("self.provider.current_cursor = self.provider.latest_cursor", cfg_root(n)) is not None   # noqa: E731
        save = [n for n in gdo.nodes if node_has_call(n, "self._save_current_cursor()")]
        p_ = gdo.reach(st0, lambda n: n in save, avoid=repos, follow=gdo.intended, include_src=True)
        rep.check("C06.R12", "do|cursor-error|reposition", ctx.line(dof, h), bool(save) and p_ is None, "current_cursor := latest_cursor, then save",
                  "after a rejected cursor the provider is not re-positioned before the cursor is saved: the same rejected cursor is persisted again and every restart fails the same way",
                  witness=describe_path(p_) if p_ else None)
    from rules.common import codec_keeps_tuples
    rep.rule("C06.R13", "what is reloaded equals what was stored, types included (C08.R8): a restart does not turn every tuple hash into a difference", 1)
    section(rep, lambda: codec_keeps_tuples(ctx, rep, "C06.R13"))
    from rules.common import walk_propagates_faults
    rep.rule("C06.R14", "a walk that could not list a folder is not a complete walk (C10.T12): the walk marker is only written after a walk that saw every folder or failed", 1)
    section(rep, lambda: walk_propagates_faults(ctx, rep, "C06.R14"))
    from rules.common import alias as _alias6
    from rules.C10 import C10 as _C10
    _alias6(rep, ["C10.T7"], "C06.R15", "a download recorded before the stop is reused after the restart only for the content it came from: the persisted temp-file name is a "
            "function of the side's current hash and path (C10.T7)", 2, lambda: _C10(ctx, rep).t7())
    from rules.common import walk_iterates_inside_try
    rep.rule("C06.R16", "a folder that vanishes during the restart walk does not end the walk: Provider._walk iterates listdir() inside the try that forgives it", 1)
    section(rep, lambda: walk_iterates_inside_try(ctx, rep, "C06.R16"))
    from rules.C08 import C08 as _C08c
    from rules.common import alias as _alias_c
    _alias_c(rep, ["C08.R5"], "C06.R17", "an entry whose row could not be written stays dirty: storage_commit empties the dirty set only after every entry was written (C08.R5), so a cursor saved later never vouches for an entry that is not in storage", 1, lambda: _C08c(ctx, rep).r5(), keep=lambda i: i.key.startswith("storage_commit|"))
    from rules.common import saved_cursor_is_the_consumed_position
    rep.rule("C06.R18", "the persisted event cursor is the position up to which events were consumed (provider.current_cursor), never the end of the provider's feed", 1)
    section(rep, lambda: saved_cursor_is_the_consumed_position(ctx, rep, "C06.R18"))
    from rules.decisions import decision_table, table_sites
    rep.rule("C06.DT", "decision table (rules/decisions.json) of loading persisted state, forgetting it, and CloudSync construction / walking: for every function and every action shape (an impure call with the parameters it passes, a store to an "
             "attribute or item, a delete, a returned constant, a yield, a raise) the set of states - over the function's guard atoms - in which the action is taken "
             "equals the recorded one; compared as canonical decision diagrams, so any equivalent respelling of the guards is the same table", table_sites("C06"))
    section(rep, lambda: decision_table(ctx, rep, "C06.DT", "C06"))
