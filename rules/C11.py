"""C11 - index integrity: id and path look-ups always agree with the entries.

Decided: ownership of the index containers (X1), exhaustive dispatch of index-relevant keys in SyncState.updated (X2),
update-before-store in the attribute funnel (X3), side-state moves are routed through the funnel (X4), look-ups are
read-only (X5), the pending-set arms of _change_oid / finished (X6).
Not decided: that _change_path / _change_oid are correct for every overlapping sequence of events.
"""
from __future__ import annotations

import ast

from sa.model import AnalysisError, FuncInfo
from sa.ctx import Ctx, short, stmt_key
from sa.cfg import NORMAL, describe_path
from sa.report import Report, section
from sa.statemodel import StateModel, _has_inst
from sa import pat
from sa.util import disjunctions, fact_in
from rules.C08 import C08, cfg_root

INDEX_ATTRS = {"_oids", "_paths", "_changeset_storage", "_changeset"}
OWNERS = ("__init__", "forget", "forget_oid", "updated", "_change_path", "_change_oid", "rename_dir", "finished")


def _has_fact(facts, patt: str, pol: bool, binds=None) -> bool:
    for (txt, p) in facts:
        if p != pol:
            continue
        try:
            e = ast.parse(txt, mode="eval").body
        except SyntaxError:
            continue
        if pat.match(patt, e, binds) is not None:
            return True
    return False


def _unaliased(ctx, fn, node):
    """a copy of the statement / expression with every plain local that is a single-assignment alias of an attribute / subscript chain replaced by that chain"""
    import copy
    from sa.util import unalias

    class T(ast.NodeTransformer):
        def visit_Name(self, n):
            if isinstance(n.ctx, ast.Load):
                e = unalias(ctx, fn, n)
                if e is not n:
                    return copy.deepcopy(e)
            return n
    return T().visit(copy.deepcopy(node))


class C11:
    def __init__(self, ctx: Ctx, rep: Report):
        self.ctx, self.rep = ctx, rep
        self.sm = StateModel(ctx)
        self.state = ctx.prog.cls("SyncState")
        self.entry = ctx.prog.cls("SyncEntry")
        self.side = ctx.prog.cls("SideState")

    # ------------------------------------------------------------------ X1
    def x1(self):
        rep, ctx = self.rep, self.ctx
        rep.rule("C11.X1", "the id index, the path index and the pending set are stored / mutated only in SyncState.__init__, forget, "
                 "forget_oid, updated, _change_path, _change_oid, rename_dir, finished, the _changeset setters, and private helpers "
                 "called only from those", expect_min=25)
        owners = set()
        for c in [self.state] + self.state.all_subclasses():
            for n in OWNERS:
                if n in c.methods:
                    owners.add(c.methods[n].qname)
            if "_changeset" in c.setters:
                owners.add(c.setters["_changeset"].qname)
        # ownership closure
        changed = True
        while changed:
            changed = False
            for c in [self.state] + self.state.all_subclasses():
                for m in c.methods.values():
                    if m.qname in owners or not m.name.startswith("_") or m.name.startswith("__"):
                        continue
                    callers = ctx.callers(m)
                    if callers and all(s.func.qname in owners for s in callers):
                        owners.add(m.qname)
                        changed = True
        n = 0
        for f in ctx.prog.functions.values():
            for node, desc in self.sm.mutation_sites(f, attrs=INDEX_ATTRS, entries=False):
                n += 1
                rep.check("C11.X1", stmt_key(f, node), ctx.line(f, node), f.qname in owners, "owner function",
                          "%s in %s, which is not an owner of the indexes: an index write with no matching field write" % (desc, short(f.qname)),
                          func=f.qname, nontrivial=False)
        if n < 25:
            raise AnalysisError("only %d index mutation sites recognised, expected >= 25" % n)

    # ------------------------------------------------------------------ X2
    def x2(self):
        rep, ctx = self.rep, self.ctx
        rep.rule("C11.X2", "SyncState.updated dispatches every index-relevant key: 'path' -> _change_path, 'oid' -> _change_oid, "
                 "'changed' -> pending-set add and discard, 'ignored' -> discard on DISCARDED", expect_min=5)
        f = self.state.methods["updated"]
        ps = f.params()
        ent, side, key, val = ps[1], ps[2], ps[3], ps[4]
        arms = {"path": "_change_path", "oid": "_change_oid"}
        for k, callee in arms.items():
            calls = ctx.calls(f, callee)
            good = False
            detail = "no call of %s" % callee
            for c in calls:
                facts = ctx.facts_at(f, c)
                if fact_in(facts, "%s == '%s'" % (key, k), True):
                    a = [ast.unparse(x) for x in c.args]
                    good = a[:3] == [side, ent, val]
                    detail = "%s(%s) under key == '%s'" % (callee, ", ".join(a), k)
            rep.check("C11.X2", "updated|%s" % k, f, good, detail, "key '%s' is not routed to %s(side, ent, val): %s" % (k, callee, detail))
        adds = [c for c in ctx.own_nodes(f) if isinstance(c, ast.Call) and pat.match("self._changeset_storage.add(%s)" % ent, c) is not None]
        discs = [c for c in ctx.own_nodes(f) if isinstance(c, ast.Call) and pat.match("self._changeset_storage.discard(%s)" % ent, c) is not None]
        add_ok = any(("%s == 'changed'" % key, True) in ctx.facts_at(f, c) for c in adds)
        disc_ok = any(("%s == 'changed'" % key, True) in ctx.facts_at(f, c) for c in discs)
        rep.check("C11.X2", "updated|changed", f, add_ok and disc_ok, "pending-set add and discard under key == 'changed'",
                  "the 'changed' arm lost its pending-set %s" % ("add" if not add_ok else "discard"))
        # the add arm is taken when this side is changed with an id, or the other side is
        add_guard = False
        for c in adds:
            facts = ctx.facts_at(f, c)
            for dj in disjunctions(facts):
                if len(dj) == 2 and any(d.split(" and ")[0] == val and ".oid" in d for d in dj) and any(".changed" in d and ".oid" in d for d in dj):
                    add_guard = True
        rep.check("C11.X2", "updated|changed|add-guard", f, add_guard, "add under (val and this side has an id) or (other side changed with an id)",
                  "pending-set add in the 'changed' arm is no longer guarded by 'changed value and id present, or other side pending'")
        ign_ok = any(("%s == 'ignored'" % key, True) in ctx.facts_at(f, c) and _has_fact(ctx.facts_at(f, c), "%s == IgnoreReason.DISCARDED" % val, True) for c in discs)
        rep.check("C11.X2", "updated|ignored", f, ign_ok, "discard under key == 'ignored' and val == DISCARDED",
                  "a discarded entry is no longer removed from the pending set")

    # ------------------------------------------------------------------ X4
    def x4(self):
        rep, ctx = self.rep, self.ctx
        rep.rule("C11.X4", "SyncEntry.__setitem__ de-indexes the source through the public setters, then routes oid, path and changed "
                 "of the moved side through updated() on every path, before the side is installed", expect_min=4)
        f = self.entry.methods.get("__setitem__")
        if f is None:
            raise AnalysisError("SyncEntry.__setitem__ vanished")
        side, val = f.params()[1], f.params()[2]
        g = ctx.cfg(f)

        def upd(k):
            def p(n):
                r = cfg_root(n)
                return r is not None and any(isinstance(x, ast.Call) and pat.match("self.updated(%s, '%s', $V)" % (side, k), x) is not None for x in ast.walk(r))
            return p

        install = [n for n in g.nodes if cfg_root(n) is not None and any(
            isinstance(x, ast.Subscript) and isinstance(x.ctx, ast.Store) and pat.match("self.__states[%s]" % side, x) is not None for x in ast.walk(cfg_root(n)))]
        if not install:
            raise AnalysisError("SyncEntry.__setitem__: install of self.__states[side] not found")
        for k in ("oid", "path", "changed"):
            pth = g.reach([g.entry.id], lambda n: n in install, avoid=upd(k), follow=NORMAL)
            rep.check("C11.X4", "__setitem__|updated:%s" % k, f, pth is None, "updated(side, '%s', ...) precedes the install on every path" % k,
                      "the moved side can be installed without updated(side, '%s', ...): the index does not learn the new %s" % (k, k),
                      witness=describe_path(pth) if pth else None)
        # the source is cleared through the public setters (so it is de-indexed and dirtied) before the copy
        clears = {"path": False, "oid": False}
        for n in ctx.own_nodes(f):
            if isinstance(n, ast.Assign) and isinstance(n.targets[0], ast.Attribute) and isinstance(n.targets[0].value, ast.Name) and n.targets[0].value.id == val \
                    and n.targets[0].attr in clears and isinstance(n.value, ast.Constant) and n.value.value is None:
                clears[n.targets[0].attr] = True
        rep.check("C11.X4", "__setitem__|source-cleared", f, all(clears.values()), "val.path = None and val.oid = None through the public setters",
                  "the source side is not de-indexed through its public setters (%s)" % clears)

    # ------------------------------------------------------------------ X5
    def x5(self):
        rep, ctx = self.rep, self.ctx
        rep.rule("C11.X5", "look-ups are read-only: lookup_oid, lookup_path, get_all, get_kids, changes, changeset_len and "
                 "SyncStateLookup.get_path reach no mutation of tracked state (the SmartSyncState._changeset getter is side-effecting "
                 "by design and is excluded by name; C15 checks it is only reached under the lock)", expect_min=7)
        st = self.state
        targets = [st.methods["lookup_oid"], st.methods["lookup_path"], st.methods["get_all"], st.methods["get_kids"],
                   st.getters["changes"], st.getters["changeset_len"], ctx.prog.func("SyncStateLookup.get_path")]
        smart_getter = None
        for c in st.all_subclasses():
            if "_changeset" in c.getters:
                smart_getter = c.getters["_changeset"]
        for t in targets:
            parent = ctx.reach_funcs([t], over=True, stop=lambda f: smart_getter is not None and f is smart_getter)
            bad = []
            for q in parent:
                f = ctx.prog.functions[q]
                if smart_getter is not None and f is smart_getter:
                    continue
                if q in self.sm.state_inits or q in self.sm.entry_inits:
                    continue
                sites = self.sm.mutation_sites(f)
                if sites:
                    bad.append((f, sites[0], ctx.chain(parent, q)))
            rep.check("C11.X5", short(t.qname), t, not bad, "%d functions reachable, none mutates tracked state" % len(parent),
                      "look-up reaches a mutation: %s" % ("; ".join("%s (%s) via %s" % (ctx.line(f, s[0]), s[1], ch) for f, s, ch in bad[:3])))

    # ------------------------------------------------------------------ X6
    def x6(self):
        rep, ctx = self.rep, self.ctx
        rep.rule("C11.X6", "pending-set arms: _change_oid adds on a non-None id when either side is changed and discards on None only "
                 "when just that side is changed; finished discards only when neither side is changed", expect_min=3)
        f = self.state.methods["_change_oid"]
        side, ent, oid = f.params()[1:4]
        adds = [c for c in ctx.own_nodes(f) if isinstance(c, ast.Call) and pat.match("self._changeset_storage.add(%s)" % ent, c) is not None]
        discs = [c for c in ctx.own_nodes(f) if isinstance(c, ast.Call) and pat.match("self._changeset_storage.discard(%s)" % ent, c) is not None]
        good = bool(adds) and all(("%s is None" % oid, False) in ctx.facts_at(f, c) and any(
            pol and "changed" in txt and " or " in txt for (txt, pol) in ctx.facts_at(f, c)) for c in adds)
        rep.check("C11.X6", "_change_oid|add", f, good, "add under `oid is not None` and (this side changed or other side changed)",
                  "the pending-set add of _change_oid lost its guard (facts: %s)" % [sorted(ctx.facts_at(f, c)) for c in adds])
        good = bool(discs) and all(("%s is None" % oid, True) in ctx.facts_at(f, c) and
                                   _has_fact(ctx.facts_at(f, c), "%s[%s].changed" % (ent, side), True) and
                                   _has_fact(ctx.facts_at(f, c), "%s[OTHER_SIDE[%s]].changed" % (ent, side), False) for c in discs)
        rep.check("C11.X6", "_change_oid|discard", f, good, "discard under `oid is None`, this side changed, other side not",
                  "the pending-set discard of _change_oid lost its guard (facts: %s)" % [sorted(ctx.facts_at(f, c)) for c in discs])
        f = self.state.methods["finished"]
        ent = f.params()[1]
        discs = [c for c in ctx.own_nodes(f) if isinstance(c, ast.Call) and pat.match("self._changeset_storage.discard(%s)" % ent, c) is not None]
        good = bool(discs)
        for c in discs:
            facts = ctx.facts_at(f, c)
            n0 = _has_fact(facts, "%s[0].changed" % ent, False) or _has_fact(facts, "%s[LOCAL].changed" % ent, False)
            n1 = _has_fact(facts, "%s[1].changed" % ent, False) or _has_fact(facts, "%s[REMOTE].changed" % ent, False)
            good = good and n0 and n1
        rep.check("C11.X6", "finished|discard", f, good, "discard only when neither side is changed",
                  "finished() discards from the pending set while a side may still be changed")


    # ------------------------------------------------------------------ X7
    def x7(self):
        """The oust / slot-removal statements of the index code run under exactly the guards they have today.
        Each row: (function, construct pattern, allowed guard literals).  A literal outside the allowed set means the
        clean-up became conditional on something else - a previous owner keeps an id / slot it no longer carries."""
        rep, ctx = self.rep, self.ctx
        rep.rule("C11.X7", "index clean-up is unconditional: the statements that take an id / (path,id) slot away from its previous owner "
                 "(in _change_oid and _change_path) are guarded by nothing beyond 'there is a previous owner and it is another entry' / "
                 "'the slot exists'; _change_oid removes the slots of both the entry's old id and the new id", expect_min=6)
        f = self.state.methods["_change_oid"]
        side, ent, oid = f.params()[1:4]
        g = self.state.methods["_change_path"]
        gside, gent, gpath = g.params()[1:4]
        rows = [
            (f, "$P[%s].oid = None" % side, [("$P", True), ("$P is %s" % ent, False)]),
            (f, "self._oids[%s].pop($K, None)" % side, []),
            (f, "self._paths[%s][$Q].pop($K, None)" % side, [("$P", True), ("$P[%s].path" % side, True), ("$Q in self._paths[%s]" % side, True)]),
            (f, "%s[%s]._oid = %s" % (ent, side, oid), [("%s is None" % oid, False)]),
            (f, "self._oids[%s][%s] = %s" % (side, oid, ent), [("%s is None" % oid, False)]),
            (g, "$P[%s]._path = None" % gside, [("%s[%s].oid in $D" % (gent, gside), True), (gpath, True), ("$O == %s" % gpath, False)]),
            (g, "self._paths[%s][$O].pop(%s[%s].oid, None)" % (gside, gent, gside), [("$O", True), ("$O == %s" % gpath, False), ("$O in self._paths[%s]" % gside, True)]),
            (g, "self._paths[%s][%s][%s[%s].oid] = %s" % (gside, gpath, gent, gside, gent), [(gpath, True), ("$O == %s" % gpath, False)]),
            (g, "%s[%s]._path = %s" % (gent, gside, gpath), [(gpath, True), ("$O == %s" % gpath, False)]),
        ]
        for fn, construct, allowed in rows:
            hits = []
            for n in ctx.own_nodes(fn):
                if isinstance(n, (ast.Assign, ast.Expr, ast.Call)):
                    m = pat.match(construct, n.value if isinstance(n, ast.Expr) else n)
                    if m is None:
                        # a hoisted alias of the slot (`path_ents = self._paths[side][path]`, `side_paths = self._paths[side]`) stands for the slot
                        m = pat.match(construct, _unaliased(ctx, fn, n.value if isinstance(n, ast.Expr) else n))
                    if m is not None and not (isinstance(n, ast.Call) and any(isinstance(pn, ast.Expr) and pn.value is n for pn in ctx.own_nodes(fn))):
                        hits.append((n, m))
            key = "%s|%s" % (fn.name, construct)
            if not hits:
                # extract-method: the statement may live in a private helper that only this function calls
                import re as _re
                wild = _re.sub(r"\b(%s)\b" % "|".join(_re.escape(x) for x in fn.params()[1:]), lambda m_: "$W_" + m_.group(1), construct)
                moved = None
                for s_ in ctx.sites(fn):
                    for h in s_.under:
                        if h.cls is fn.cls and h.name.startswith("_") and h is not fn and all(c_.func is fn for c_ in ctx.callers(h)):
                            for n in ctx.own_nodes(h):
                                if isinstance(n, (ast.Assign, ast.Expr, ast.Call)) and pat.match(wild, n.value if isinstance(n, ast.Expr) else n) is not None:
                                    moved = (h, n, s_)
                if moved is None:
                    rep.violation("C11.X7", key, fn, "the index clean-up statement `%s` is gone from %s" % (construct, fn.name))
                    continue
                h, n, s_ = moved
                wild_allowed = [(_re.sub(r"\b(%s)\b" % "|".join(_re.escape(x) for x in fn.params()[1:]), lambda m_: "$W_" + m_.group(1), ap), apol) for ap, apol in allowed]
                # in the helper every name is free: compare shapes only
                extra = [x for x in ctx.facts_at(h, n) if not any(x[1] == apol and pat.match(_re.sub(r"\$\w+", "$_", ap), ast.parse(x[0], mode="eval").body) is not None for ap, apol in wild_allowed)]
                extra += extra_guards(ctx.facts_at(fn, s_.node), allowed)
                rep.check("C11.X7", key, ctx.line(h, n), not extra, "moved into helper %s, same guards" % h.name,
                          "`%s` (now in helper %s) is also conditional on %s" % (ast.unparse(n)[:60], h.name, extra), func=h.qname)
                continue
            for n, m in hits:
                facts = ctx.facts_at(fn, n)
                extra = []
                for (txt, pol) in sorted(facts):
                    e = ast.parse(txt, mode="eval").body
                    if not any(pol == apol and pat.match(ap, e) is not None for ap, apol in allowed):
                        extra.append("%s%s" % ("" if pol else "not ", txt))
                rep.check("C11.X7", key, ctx.line(fn, n), not extra, "guards: %s" % sorted(facts),
                          "`%s` in %s is now also conditional on [%s]: when that does not hold the previous owner keeps an id / slot it no longer "
                          "carries (two owners of one id, or a slot leading to an entry without it)" % (ast.unparse(n)[:60], fn.name, "; ".join(extra)), func=fn.qname)
        # both the old and the new id are vacated
        loops = [n for n in ctx.own_nodes(f) if isinstance(n, ast.For) and any(isinstance(x, ast.Call) and pat.match("self._oids[%s].pop($$$)" % side, x) is not None for x in ast.walk(n))]
        good = False
        for lp in loops:
            names = {ast.unparse(x) for x in ast.walk(lp.iter)}
            good = good or ("%s[%s].oid" % (ent, side) in names and oid in names)
        rep.check("C11.X7", "_change_oid|both-ids", f, good, "slots of the entry's old id and of the new id are vacated",
                  "_change_oid no longer vacates both the entry's previous id and the incoming id")


def extra_guards(facts, allowed):
    out = []
    for (txt, pol) in sorted(facts):
        e = ast.parse(txt, mode="eval").body
        if not any(pol == apol and pat.match(ap, e) is not None for ap, apol in allowed):
            out.append("%s%s" % ("" if pol else "not ", txt))
    return out


def run(ctx: Ctx, rep: Report, tier: str):
    c = C11(ctx, rep)
    section(rep, c.x1)
    section(rep, c.x2)
    rep.rule("C11.X3", "in both __setattr__ the call to updated() precedes the store of the private field (the index code compares "
             "with the OLD path / id / priority)", expect_min=4)
    C08(ctx, rep).funnel("C11.X3")
    section(rep, c.x4)
    section(rep, c.x5)
    section(rep, c.x6)
    section(rep, c.x7)
    from rules.common import alias
    from rules.C06 import C06
    alias(rep, ["C06.R5"], "C11.X8", "after a restart the indexes are rebuilt for every stored entry: each loaded entry is entered in the id index and in the (path, id) "
          "index of both sides (C06.R5), so two entries sharing a path are both found", 1, lambda: C06(ctx, rep).r5(), keep=lambda i: i.key == "load|indexes")
    rep.rule("C11.X9", "discarding an entry takes it out of the pending set together with BOTH sides' changed flags (pending-set membership and the flags "
             "never disagree: a flag left set on a discarded entry re-queues it after a restart / makes `changed` and the set diverge)", 2)
    up = ctx.prog.func("SyncState.updated")
    entp = up.params()[1]
    sides = set()
    disc = False
    for n in ctx.own_nodes(up):
        facts = None
        if isinstance(n, ast.Assign) and isinstance(n.targets[0], ast.Attribute) and n.targets[0].attr in ("_changed", "changed") and isinstance(n.value, ast.Constant) and not n.value.value:
            facts = ctx.facts_at(up, n)
            if _has_fact(facts, "$V == IgnoreReason.DISCARDED", True):
                m = pat.match("%s[$S]" % entp, n.targets[0].value)
                if m is not None:
                    sides.add(ast.unparse(m["S"]))
        if isinstance(n, ast.Call) and pat.match("self._changeset_storage.discard(%s)" % entp, n) is not None and _has_fact(ctx.facts_at(up, n), "$V == IgnoreReason.DISCARDED", True):
            disc = True
    loop_both = any(isinstance(n, ast.For) and ast.unparse(n.iter) in ("(LOCAL, REMOTE)", "[LOCAL, REMOTE]") for n in ctx.own_nodes(up))
    rep.check("C11.X9", "updated|discard|flags", up, {"LOCAL", "REMOTE"} <= sides or (loop_both and sides), "both sides' flags cleared (%s)" % sorted(sides),
              "the DISCARDED arm of updated() clears the changed flag of %s only: the entry leaves the pending set with a side still flagged changed" % (sorted(sides) or "no side"))
    rep.check("C11.X9", "updated|discard|set", up, disc, "removed from the pending set", "the DISCARDED arm no longer removes the entry from the pending set")
    rep.rule("C11.X10", "forgetting the state empties every tracked container together: both index maps, the pending set and the dirty set are reset in "
             "SyncState.forget (an entry must never stay pending after its index entries are gone)", 4)
    fg = ctx.prog.func("SyncState.forget")
    fs_ = [fg]
    for n in ctx.own_nodes(fg):
        if isinstance(n, ast.Call) and isinstance(n.func, ast.Attribute) and isinstance(n.func.value, ast.Name) and n.func.value.id == fg.self_name:
            h = fg.cls.methods.get(n.func.attr)
            if h is not None and h not in fs_:
                fs_.append(h)
    reset = set()
    for f_ in fs_:
        for n in ctx.own_nodes(f_):
            if isinstance(n, ast.Attribute) and isinstance(n.ctx, ast.Store) and isinstance(n.value, ast.Name) and n.value.id == f_.self_name:
                reset.add(n.attr)
            if isinstance(n, ast.Call) and isinstance(n.func, ast.Attribute) and n.func.attr == "clear":
                r_ = n.func.value
                while isinstance(r_, ast.Subscript):
                    r_ = r_.value
                if isinstance(r_, ast.Attribute) and isinstance(r_.value, ast.Name) and r_.value.id == f_.self_name:
                    reset.add(r_.attr)
    if "_changeset" in reset:
        reset.add("_changeset_storage")         # the property setter stores the backing set
    for attr in ("_oids", "_paths", "_changeset_storage", "_dirtyset"):
        rep.check("C11.X10", "forget|%s" % attr, fg, attr in reset, "reset by forget()",
                  "SyncState.forget no longer resets `%s`: after forget() the containers disagree (e.g. entries still pending whose index entries and rows are gone)" % attr)
    from rules.common import rename_copy_guard
    rep.rule("C11.X11", "re-keying an entry on rename never overwrites an indexed peer half (C04.R11)", 1)
    section(rep, lambda: rename_copy_guard(ctx, rep, "C11.X11"))
    from rules.common import change_oid_cleans_the_popped_entrys_slot
    rep.rule("C11.X12", "_change_oid cleans the (path, id) slot of the entry it popped from the id index, with that entry's path", 1)
    section(rep, lambda: change_oid_cleans_the_popped_entrys_slot(ctx, rep, "C11.X12"))
    from rules.decisions import decision_table, table_sites
    rep.rule("C11.DT", "decision table (rules/decisions.json) of the index maintenance of SyncState (_change_oid, _change_path, update_entry, look-ups, get_kids): for every function and every action shape (an impure call with the parameters it passes, a store to an "
             "attribute or item, a delete, a returned constant, a yield, a raise) the set of states - over the function's guard atoms - in which the action is taken "
             "equals the recorded one; compared as canonical decision diagrams, so any equivalent respelling of the guards is the same table", table_sites("C11"))
    section(rep, lambda: decision_table(ctx, rep, "C11.DT", "C11"))
