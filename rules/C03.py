"""C03 - one-sided changes mirror exactly; origin side untouched; no echo.

Decided (book-keeping that prevents the echo, and side discipline): after each of the engine's own writes (upload, create,
mkdir, rename) both sides' last-synced markers are recorded and the written side's entry is updated without being marked
changed, on every normal path to the success return (R1, R2); every mutating provider call of the embrace subtree is issued
on the side opposite to the changed one (R3); a side that is flagged changed but needs no sync is cleared and not embraced
(R4).   Not decided: equality of the two trees when the engine goes quiet.
"""
from __future__ import annotations

import ast

from sa.model import AnalysisError, FuncInfo
from sa.ctx import Ctx, short, stmt_key, ENGINE_MODULES
from sa.cfg import NORMAL, describe_path
from sa.report import Report, section
from sa.effects import Effects
from sa.sides import SideAnalysis, show, canon, neg, provably_different
from sa.util import cfg_root, node_has_call, node_stores_attr, has_fact, fact_in, side_names
from sa import pat


def _assign(n, patt):
    r = cfg_root(n)
    return r is not None and isinstance(r, ast.Assign) and pat.match(patt, r) is not None


class C03:
    def __init__(self, ctx: Ctx, rep: Report):
        self.ctx, self.rep = ctx, rep
        self.eff = Effects(ctx)
        self.sa = SideAnalysis(ctx)

    def r1_r2(self):
        rep, ctx, p = self.rep, self.ctx, self.ctx.prog
        rep.rule("C03.R1", "after the engine's own provider write, on every normal path to the success return, the last-synced markers of both "
                 "sides are stored (content writes: both sync_hash and both sync_path; mkdir / rename: both sync_path) and update_entry is "
                 "called for the written side with the id the provider returned", expect_min=16)
        rep.rule("C03.R2", "those update_entry calls do not mark the entry changed; SyncState.update_entry marks changed only under `if changed`", expect_min=5)
        specs = [
            ("SyncManager.upload_synced", "upload", ["$S[synced].sync_hash = $V", "$S[changed].sync_hash = $S[changed].hash", "$S[changed].sync_path = $S[changed].path", "sync_path(synced)", "update_entry"]),
            ("SyncManager._create_synced", "create", ["$S[synced].sync_hash = $V", "$S[changed].sync_hash = $S[changed].hash", "$S[changed].sync_path = $S[changed].path", "sync_path(synced)", "update_entry"]),
            ("SyncManager.unsafe_mkdir_synced", "mkdirs", ["$S[changed].sync_path = $S[changed].path", "sync_path(synced)", "update_entry"]),
            ("SyncManager.handle_rename", "rename", ["$S[changed].sync_path = $S[changed].path", "sync_path(synced)", "update_entry"]),
        ]
        for spec, api, needs in specs:
            f = p.func(spec)
            g = ctx.cfg(f)
            chn, syn = side_names(ctx, f, self.sa)
            if chn is None or syn is None:
                raise AnalysisError("%s: cannot identify the changed / synced side names" % spec)
            needs = [n_.replace("[synced]", "[%s]" % syn).replace("[changed]", "[%s]" % chn) for n_ in needs]
            writes = [n for n in g.nodes if cfg_root(n) is not None and any(x in self.eff.provider_mutations(f) and x.func.attr == api for x in ast.walk(cfg_root(n)))]
            if not writes:
                raise AnalysisError("%s: provider.%s call not found" % (spec, api))
            # success exits: `return True` / `return FINISHED` / falling off the end; handler arms (return False / PUNT / helper results) are not success
            def success(n):
                if n is g.exit:
                    return False
                if n.kind == "stmt" and isinstance(n.ast, ast.Return):
                    v = n.ast.value
                    return v is not None and ((isinstance(v, ast.Constant) and v.value is True) or (isinstance(v, ast.Name) and v.id == "FINISHED"))
                return False
            succ = [n for n in g.nodes if success(n)]
            falls_off = any(g.nodes[a].kind != "stmt" or not isinstance(g.nodes[a].ast, ast.Return) for (a, l) in g.pred[g.exit.id])
            targets = succ + ([g.exit] if falls_off and not succ else [])
            if not targets:
                raise AnalysisError("%s: no success exit recognised" % spec)
            for need in needs:
                if need == "sync_path(synced)":
                    pred = lambda n, syn=syn: _assign(n, "$S[%s].sync_path = $V" % syn)   # noqa: E731
                elif need == "update_entry":
                    pred = lambda n: node_has_call(n, "self.update_entry($$$)")   # noqa: E731
                else:
                    pred = lambda n, need=need: _assign(n, need)   # noqa: E731
                # stay on the straight success path: do not wander through exception handlers
                pth = g.reach([w.id for w in writes], lambda n: n in targets, avoid=pred, follow=NORMAL)
                # `if not X.sync_path: X.sync_path = ...` (set-if-unset) counts: the false edge means it is already set
                if pth is not None and need == "sync_path(synced)":
                    tests = {t.id for t in g.nodes if t.kind == "test" and pat.match("not $S[%s].sync_path" % syn, t.ast) is not None}
                    pth = g.reach([w.id for w in writes], lambda n: n in targets, avoid=pred, follow=lambda a, b, l: l != "exc" and not (a in tests and l == "F"))
                rep.check("C03.R1", "%s|%s" % (f.name, need), f, pth is None, "recorded on every success path after provider.%s" % api,
                          "after the engine's own %s the book-keeping `%s` can be skipped on a success path: the echo event looks like a new change and is sent back" % (api, need),
                          witness=describe_path(pth) if pth else None)
            # the id handed back by the provider write is what gets recorded for the written side
            wcalls = [x for x in self.eff.provider_mutations(f) if x.func.attr == api]
            results = set()
            for n in ctx.own_nodes(f):
                if isinstance(n, ast.Assign) and any(n.value is w for w in wcalls) and isinstance(n.targets[0], ast.Name):
                    results.add(n.targets[0].id)
            succ_ids = {id(x) for t_ in targets if cfg_root(t_) is not None for x in [cfg_root(t_)]}
            for c in ctx.calls(f, "update_entry"):
                # only the update that lies on the success path after the write
                cn = g.stmt_nodes_containing(c)
                if not cn or g.reach([w.id for w in writes], lambda n: n in cn, follow=NORMAL) is None:
                    continue
                kws = {k.arg: k.value for k in c.keywords}
                oid = kws.get("oid") or (c.args[2] if len(c.args) > 2 else None)
                names = {x.id for x in ast.walk(oid) if isinstance(x, ast.Name)} if oid is not None else set()
                rep.check("C03.R1", "%s|recorded-id" % f.name, ctx.line(f, c), bool(names & results), "update_entry(oid=<value returned by provider.%s>)" % api,
                          "the id recorded after the engine's own %s is `%s`, not the one the provider returned (%s): for path-style ids the entry keeps a stale id and the "
                          "next change of the object is treated as a new object" % (api, ast.unparse(oid) if oid is not None else None, sorted(results)), func=f.qname)
            for c in ctx.calls(f, "update_entry"):
                kws = {k.arg: k.value for k in c.keywords}
                ch = kws.get("changed")
                rep.check("C03.R2", "%s|%s" % (f.name, ast.unparse(c)[:50]), ctx.line(f, c), ch is None or (isinstance(ch, ast.Constant) and not ch.value), "not marked changed",
                          "the engine marks its own write as a change (changed=%s)" % (ast.unparse(ch) if ch is not None else None), func=f.qname, nontrivial=False)
        ue = p.func("SyncState.update_entry")
        calls = ctx.calls(ue, "mark_changed")
        good = bool(calls) and all(fact_in(ctx.facts_at(ue, c), "changed", True) for c in calls)
        rep.check("C03.R2", "SyncState.update_entry|mark_changed", ue, good, "mark_changed only under `if changed`", "update_entry marks entries changed unconditionally")
        mu = p.func("SyncManager.update_entry")
        d = None
        a = mu.node.args
        for kw, dv in zip(a.kwonlyargs, a.kw_defaults):
            if kw.arg == "changed":
                d = dv
        rep.check("C03.R2", "SyncManager.update_entry|default", mu, isinstance(d, ast.Constant) and d.value is False, "changed defaults to False", "the manager's update_entry marks changed by default", nontrivial=False)

    def r3(self):
        rep, ctx = self.rep, self.ctx
        rep.rule("C03.R3", "in every function that takes (changed, synced), mutating provider calls are issued on the synced side, never on the "
                 "side where the change originated", expect_min=6)
        sa_ = self.sa
        n = 0
        subtree = set(ctx.reach_funcs([ctx.prog.func("SyncManager.embrace_change")], over=False))
        for f in ctx.prog.functions.values():
            if f.module.name not in ENGINE_MODULES or f.qname not in subtree:
                continue
            chn, syn = side_names(ctx, f, self.sa)
            if chn is None or syn is None:
                continue
            for c in self.eff.provider_mutations(f):
                ps = sa_.provider_side(f, c.func.value)
                if ps is None or canon(ps)[0] != chn:
                    continue
                n += 1
                rep.check("C03.R3", stmt_key(f, c), ctx.line(f, c), canon(ps) == (chn, True), "on other(%s)" % chn,
                          "`%s` mutates the provider of the side where the change originated" % ast.unparse(c)[:60], func=f.qname)
        if n < 6:
            raise AnalysisError("only %d side-decided mutating calls in (changed, synced) functions, expected >= 6" % n)

    def r4(self):
        rep, ctx = self.rep, self.ctx
        rep.rule("C03.R4", "sync(): a side that is flagged changed but needs no sync has its flag cleared and is not embraced in that iteration", expect_min=2)
        f = ctx.prog.func("SyncManager.sync")
        g = ctx.cfg(f)
        sync = f.params()[1]
        clears = [n for n in g.nodes if _assign(n, "%s[$S].changed = 0" % sync) and has_fact(ctx.facts(f).facts(n), "%s[$S].needs_sync()" % sync, False)]
        rep.check("C03.R4", "sync|clear", f, bool(clears), "changed = 0 under `not needs_sync()`", "the 'changed but needs no sync' arm no longer clears the change flag (the engine never goes quiet)")
        emb = [n for n in g.nodes if node_has_call(n, "self.embrace_change($$$)")]
        loops = [n for n in g.nodes if n.kind == "iter"]
        pth = g.reach([c.id for c in clears], lambda n: n in emb, avoid=lambda n: n in loops, follow=NORMAL) if clears else None
        rep.check("C03.R4", "sync|no-embrace", f, bool(emb) and pth is None, "continues with the next side", "a side that needs no sync is embraced anyway (its own echo is written back)",
                  witness=describe_path(pth) if pth else None)


def run(ctx: Ctx, rep: Report, tier: str):
    c = C03(ctx, rep)
    section(rep, c.r1_r2)
    section(rep, c.r3)
    section(rep, c.r4)
    from rules.common import kids_sync_path_rebased
    rep.rule("C03.R7", "a renamed folder re-bases each child's last-synced path from the child's own old last-synced path: a child rename that was not mirrored yet is not booked as mirrored (C04.R4b)", 1)
    section(rep, lambda: kids_sync_path_rebased(ctx, rep, "C03.R7"))
    # the temporary-rename flag lands on the entry whose file was moved away
    rep.rule("C03.R6", "rename_to_fix_conflict flags TEMP_RENAME on exactly the entry whose peer file it renamed (each update_entry(E, oid=new id) is followed, under "
             "temp_rename, by E.ignore(TEMP_RENAME) for the same E): otherwise a one-sided rename cycle is treated as a two-sided conflict", 2)
    from rules.common import temp_rename_on_moved_entry
    section(rep, lambda: temp_rename_on_moved_entry(ctx, rep, "C03.R6"))
    from rules.common import dir_delete_rechecks_kids
    rep.rule("C03.R8", "a folder delete that meets children on the peer is mirrored after them: children and folder are FORCE-synced on the deleting side (C04.R7)", 2)
    section(rep, lambda: dir_delete_rechecks_kids(ctx, rep, "C03.R8"))
    from rules.C12 import C12
    rep.rule("C03.R5", "path translation between the roots decides membership with the SOURCE side's path rules and joins with the destination's, falling "
             "through to None (C12.Y2): otherwise one-sided changes under a differently spelled root are dropped as irrelevant", 3)
    rep.rules["C12.Y2"] = "alias"
    C12(ctx, rep).y2()
    for i in rep.instances:
        if i.rule == "C12.Y2":
            i.rule = "C03.R5"
    rep.rules.pop("C12.Y2", None)
    rep.expect.pop("C12.Y2", None)
    from rules.common import alias as _alias
    from rules.C17 import C17 as _C17
    _alias(rep, ["C17.A6", "C17.A5", "C17.A7"], "C03.R9", "change stamps strictly increase (C17.A6): every user change outdates the last refresh of its entry and is therefore re-read and mirrored", 1, lambda: _C17(ctx, rep).a5_a7())
    from rules.common import definition_holds
    rep.rule("C03.R10", "what counts as a change to mirror: the definitions of needs_sync (side), is_path_change and is_creation", 3)
    section(rep, lambda: definition_holds(ctx, rep, "C03.R10", "SideState.needs_sync", "a one-sided change is not mirrored, or an unchanged side is mirrored again"))
    section(rep, lambda: definition_holds(ctx, rep, "C03.R10", "SyncEntry.is_path_change", "a rename is not recognised as one (it is mirrored as delete + create, or not at all)"))
    section(rep, lambda: definition_holds(ctx, rep, "C03.R10", "SyncEntry.is_creation", "a new object is not created on the peer, or an existing one is created again"))
    from rules.common import embrace_dispatch
    rep.rule("C03.R11", "every kind of one-sided change has its arm in embrace_change and is routed to it under exactly its own condition (C01.R16)", 3)
    section(rep, lambda: embrace_dispatch(ctx, rep, "C03.R11"))
    from rules.common import uploads_read_the_changed_sides_download
    rep.rule("C03.R12", "what is mirrored is the changed side's content: upload_synced / _create_synced open sync[changed].temp_file only; download_changed re-keys the "
             "temp file to the current content before it looks at it and reuses it only when it exists", 5)
    section(rep, lambda: uploads_read_the_changed_sides_download(ctx, rep, "C03.R12"))
    section(rep, lambda: definition_holds(ctx, rep, "C03.R10", "SyncManager.path_conflict", "the engine's own parking rename / a one-sided rename is read as a two-sided rename conflict: the origin side is written to"))
    from rules.common import walk_dedupe_is_exact
    rep.rule("C03.R13", "a change that is only seen by a walk (restart with a rejected cursor) is still mirrored: the walk filter drops an event only when hash AND path are "
             "exactly what the state holds (C14.W6b)", 1)
    section(rep, lambda: walk_dedupe_is_exact(ctx, rep, "C03.R13"))
    from rules.common import provider_write_conditions
    rep.rule("C03.R14", "the engine's own writes happen under fixed conditions (C02.R16): a mirrored change is written once, on the peer, and not when it is already there", 10)
    section(rep, lambda: provider_write_conditions(ctx, rep, "C03.R14"))
    from rules.decisions import decision_table as _dt, table_sites as _ts
    rep.rule("C03.R15", "a one-sided change is discarded (entry ignored / half cleared) only in the states the decision table records (C01.R19)", _ts(None, r"\.(ignore|unignore|clear)\("))
    section(rep, lambda: _dt(ctx, rep, "C03.R15", None, r"\.(ignore|unignore|clear)\("))
    from rules.common import entry_paths_match_for_display
    rep.rule("C03.R16", "a case-only rename is a change: SyncEntry.paths_match compares sync_path with path through paths_match(..., for_display=True)", 1)
    section(rep, lambda: entry_paths_match_for_display(ctx, rep, "C03.R16"))
    from rules.common import sort_key_takes_latest_stamp as _sk
    rep.rule("C03.R17", "changes are mirrored oldest first (C17.A17): the selection key is (priority, the later of the two sides' stamps) - a folder rename reaches the peer before "
             "what was created inside the renamed folder", 1)
    section(rep, lambda: _sk(ctx, rep, "C03.R17"))
    from rules.decisions import decision_table, table_sites
    rep.rule("C03.DT", "decision table (rules/decisions.json) of rename handling, the transfer functions (upload, create, download, temp files) and child re-basing: for every function and every action shape (an impure call with the parameters it passes, a store to an "
             "attribute or item, a delete, a returned constant, a yield, a raise) the set of states - over the function's guard atoms - in which the action is taken "
             "equals the recorded one; compared as canonical decision diagrams, so any equivalent respelling of the guards is the same table", table_sites("C03"))
    section(rep, lambda: decision_table(ctx, rep, "C03.DT", "C03"))
