"""C10 - transient provider faults: survive, report, retry.

Decided: the classification table of notify_from_exception agrees with the exception hierarchy and no arm is shadowed
(T1); the sync step catches everything, notifies, punts and backs off (T2); the intake step catches every transient
class, notifies unconditionally and backs off, re-authenticates on token errors (T3); the service loop swallows the rest
(T4 = C18.L1); invalid names make the entry irrelevant, never fatal (T5); the give-up error is turned into FINISHED (T6);
a retry never reuses a download made for older content (T7).   Not decided: convergence after the faults stop.
"""
from __future__ import annotations

import ast
import re

from sa.model import AnalysisError, FuncInfo
from sa.ctx import Ctx, short, stmt_key
from sa.cfg import NORMAL, describe_path
from sa.report import Report, section
from sa.util import cfg_root, node_has_call, node_stores_attr, has_fact
from sa import pat

REPORTED = ("CloudDisconnectedError", "CloudOutOfSpaceError", "CloudFileNameError", "CloudNamespaceError", "CloudRootMissingError", "CloudTemporaryError")
TRANSIENT_INTAKE = ("CloudTemporaryError", "CloudDisconnectedError", "CloudNamespaceError", "CloudCursorError", "CloudTokenError")


def _snake(cls_name: str) -> str:
    core = cls_name[len("Cloud"):] if cls_name.startswith("Cloud") else cls_name
    return re.sub(r"(?<!^)(?=[A-Z])", "_", core).upper()


def _handler_names(h: ast.ExceptHandler):
    if h.type is None:
        return ["BaseException"]
    return [ast.unparse(t).split(".")[-1] for t in (h.type.elts if isinstance(h.type, ast.Tuple) else [h.type])]


class C10:
    def __init__(self, ctx: Ctx, rep: Report):
        self.ctx, self.rep = ctx, rep

    def sub(self, a: str, b: str) -> bool:
        r = self.ctx.is_subclass_name(a, b)
        return bool(r)

    def t1(self):
        rep, ctx = self.rep, self.ctx
        rep.rule("C10.T1", "notify_from_exception maps each reported class (Disconnected, OutOfSpace, FileName, Namespace, RootMissing, "
                 "Temporary) to the notification type of the same kind, and no arm is shadowed by an earlier super-class arm", expect_min=7)
        f = ctx.prog.func("NotificationManager.notify_from_exception")
        e = f.params()[2]
        arms = []
        for n in ctx.own_nodes(f):
            if isinstance(n, ast.If):
                m = pat.match("isinstance(%s, $C)" % e, n.test)
                if m is None:
                    continue
                cname = ast.unparse(m["C"]).split(".")[-1]
                nt = None
                for x in n.body:
                    for y in ast.walk(x):
                        if isinstance(y, ast.Attribute) and isinstance(y.value, ast.Name) and y.value.id == "NotificationType":
                            nt = y.attr
                arms.append((n, cname, nt))
        arms.sort(key=lambda a: (a[0].lineno, a[0].col_offset))
        got = {c: nt for _, c, nt in arms}
        for c in REPORTED:
            want = _snake(c)
            rep.check("C10.T1", "arm|%s" % c, f, got.get(c) == want, "%s -> %s" % (c, want),
                      "%s is reported as %s (expected %s): the application is told about the wrong condition, or not at all" % (c, got.get(c), want))
        # shadowing: arm j unreachable for class_j instances if an earlier arm tests a superclass
        # the chain is if/elif: position = nesting order
        order = []
        top = [n for n in f.node.body if isinstance(n, ast.If)]
        cur = top[0] if top else None
        while cur is not None:
            m = pat.match("isinstance(%s, $C)" % e, cur.test)
            if m is not None:
                order.append(ast.unparse(m["C"]).split(".")[-1])
            cur = cur.orelse[0] if len(cur.orelse) == 1 and isinstance(cur.orelse[0], ast.If) else None
        bad = [(a, b) for i, a in enumerate(order) for b in order[i + 1:] if self.sub(b, a)]
        rep.check("C10.T1", "arms|shadowing", f, not bad and len(order) >= 6, "arm order %s" % order,
                  "arm(s) shadowed by an earlier super-class test: %s (e.g. an out-of-space error is reported as a plain temporary error)" % bad)

    def _step_handlers(self, f: FuncInfo, call_names):
        tries = [t for t in self.ctx.own_nodes(f) if isinstance(t, ast.Try) and any(
            isinstance(x, ast.Call) and isinstance(x.func, ast.Attribute) and x.func.attr in call_names for b in t.body for x in ast.walk(b))]
        return tries

    def t2(self):
        rep, ctx = self.rep, self.ctx
        rep.rule("C10.T2", "SyncManager._sync_one_entry: one try covers pre_sync and sync; its handlers together cover Exception; every "
                 "handler reports CloudExceptions through notify_from_exception, punts the entry and backs off, on every path", expect_min=5)
        f = ctx.prog.func("SyncManager._sync_one_entry")
        sync = f.params()[1]
        tries = self._step_handlers(f, ("pre_sync", "sync"))
        t = None
        for cand in tries:
            names = {x.func.attr for b in cand.body for x in ast.walk(b) if isinstance(x, ast.Call) and isinstance(x.func, ast.Attribute)}
            if {"pre_sync", "sync"} <= names:
                t = cand
        if t is None:
            rep.violation("C10.T2", "_sync_one_entry|try", f, "pre_sync() and sync() are no longer covered by one try block")
            return
        names = [n for h in t.handlers for n in _handler_names(h)]
        rep.check("C10.T2", "_sync_one_entry|cover", ctx.line(f, t), "Exception" in names or "BaseException" in names, "handlers %s" % names,
                  "the handlers %s do not cover Exception: an unexpected provider error leaves the entry un-punted (it is re-picked first for ever)" % names)
        g = ctx.cfg(f)
        for h in t.handlers:
            hn = [n for n in g.nodes if n.kind == "except" and n.ast is h]
            hname = "/".join(_handler_names(h))
            body_ids = {id(x) for b in h.body for x in ast.walk(b)}
            leave = lambda m, body_ids=body_ids: m in (g.exit, g.raise_exit) or (cfg_root(m) is not None and id(cfg_root(m)) not in body_ids and m.kind not in ("join",))   # noqa: E731
            for what, patt in (("punt", "%s.punt()" % sync), ("backoff", "self.backoff()")):
                pth = g.reach([n.id for n in hn], leave, avoid=lambda m, patt=patt: node_has_call(m, patt), follow=g.intended)
                rep.check("C10.T2", "_sync_one_entry|%s|%s" % (hname[:40], what), ctx.line(f, h), pth is None, "%s on every path" % what,
                          "a failure handled by `except %s` can leave without %s: %s" % (hname, what, "a persistently failing entry keeps its priority and starves the rest"
                                                                                            if what == "punt" else "the loop retries at full speed"),
                          witness=describe_path(pth) if pth else None)
            # notification: unconditional, or only under isinstance(e, CloudException) in the catch-all arm
            notes = [x for b in h.body for x in ast.walk(b) if isinstance(x, ast.Call) and isinstance(x.func, ast.Attribute) and x.func.attr == "notify_from_exception"]
            good = bool(notes)
            why = "no notify_from_exception call"
            for c in notes:
                facts = {(t_, p_) for (t_, p_) in ctx.facts_at(f, c) if not t_.startswith("something_got_done") and t_ != "not something_got_done"}
                extra = [x for x in facts if not (x[1] and x[0].startswith("isinstance(") and "CloudException" in x[0])]
                if extra:
                    good = False
                    why = "notification is conditional on %s" % extra
            rep.check("C10.T2", "_sync_one_entry|%s|notify" % hname[:40], ctx.line(f, h), good, "reports the fault",
                      "the fault handled by `except %s` is not (always) reported to the application: %s" % (hname, why))

    def t3(self):
        rep, ctx = self.rep, self.ctx
        rep.rule("C10.T3", "EventManager.do: reconnect and the intake step are inside one try; Temporary / Disconnected / Namespace are caught, "
                 "reported unconditionally (whenever a notification manager exists) and followed by backoff; token errors set need_auth and "
                 "back off; every transient class has a handler", expect_min=5)
        f = ctx.prog.func("EventManager.do")
        tries = self._step_handlers(f, ("_do_unsafe",))
        if not tries:
            raise AnalysisError("EventManager.do: try around _do_unsafe not found")
        t = tries[0]
        body_calls = {x.func.attr for b in t.body for x in ast.walk(b) if isinstance(x, ast.Call) and isinstance(x.func, ast.Attribute)}
        rep.check("C10.T3", "do|reconnect-inside", ctx.line(f, t), "_reconnect_if_needed" in body_calls, "reconnect attempt is inside the try",
                  "_reconnect_if_needed() is outside the try: a failing reconnect is not classified (no notification, no need_auth)")
        caught = [n for h in t.handlers for n in _handler_names(h)]
        for c in TRANSIENT_INTAKE:
            ok = any(self.sub(c, k) for k in caught)
            rep.check("C10.T3", "do|catches|%s" % c, ctx.line(f, t), ok, "caught", "%s raised by a provider during intake is not handled by EventManager.do "
                      "(it falls to the generic loop handler: no notification / no re-auth / no cursor reset)" % c, nontrivial=False)
        g = ctx.cfg(f)
        for h in t.handlers:
            names = _handler_names(h)
            hn = [n for n in g.nodes if n.kind == "except" and n.ast is h]
            pth = g.reach([n.id for n in hn], lambda m: m in (g.exit, g.raise_exit), avoid=lambda m: node_has_call(m, "self.backoff()"), follow=g.intended)
            rep.check("C10.T3", "do|%s|backoff" % "/".join(names)[:40], ctx.line(f, h), pth is None, "backs off on every path",
                      "the handler for %s can finish without backoff()" % names, witness=describe_path(pth) if pth else None)
            if any(n in ("CloudTemporaryError", "CloudDisconnectedError", "CloudNamespaceError") for n in names):
                notes = [x for b in h.body for x in ast.walk(b) if isinstance(x, ast.Call) and isinstance(x.func, ast.Attribute) and x.func.attr == "notify_from_exception"]
                good = bool(notes)
                why = "no notify_from_exception call"
                for c in notes:
                    extra = [x for x in ctx.facts_at(f, c) if not (x[1] and x[0] in ("self.__nmgr", "self._nmgr"))]
                    if extra:
                        good = False
                        why = "notification is conditional on %s" % extra
                rep.check("C10.T3", "do|%s|notify" % "/".join(names)[:40], ctx.line(f, h), good, "reports every fault",
                          "a transient intake fault is not always reported: %s (e.g. only the first fault of a streak reaches the application)" % why)
            if "CloudTokenError" in names:
                pth = g.reach([n.id for n in hn], lambda m: m in (g.exit, g.raise_exit), avoid=lambda m: node_stores_attr(m, "need_auth", "True"), follow=g.intended)
                rep.check("C10.T3", "do|CloudTokenError|need_auth", ctx.line(f, h), pth is None, "need_auth = True",
                          "a token error does not request re-authentication", witness=describe_path(pth) if pth else None)

    def t5(self):
        rep, ctx = self.rep, self.ctx
        rep.rule("C10.T5", "every `except CloudFileNameError` in the sync manager calls handle_file_name_error or re-raises to a caller that "
                 "does; handle_file_name_error ignores the entry as IRRELEVANT and emits FILE_NAME_ERROR", expect_min=5)
        mod = ctx.prog.modules["cloudsync.sync.manager"]
        n = 0
        for f in ctx.prog.functions.values():
            if f.module is not mod:
                continue
            for t in ctx.own_nodes(f):
                if not isinstance(t, ast.Try):
                    continue
                for h in t.handlers:
                    if "CloudFileNameError" not in _handler_names(h):
                        continue
                    n += 1
                    calls = any(isinstance(x, ast.Call) and isinstance(x.func, ast.Attribute) and x.func.attr == "handle_file_name_error" for b in h.body for x in ast.walk(b))
                    reraise = any(isinstance(x, ast.Raise) for b in h.body for x in ast.walk(b))
                    rep.check("C10.T5", stmt_key(f, h, 60) + "|L%d" % n, ctx.line(f, h), calls or reraise, "handled as a name error" if calls else "re-raised",
                              "an invalid-name error is swallowed here without handle_file_name_error(): the entry is retried for ever / never reported", func=f.qname,
                              nontrivial=False)
        if n < 5:
            raise AnalysisError("only %d `except CloudFileNameError` handlers in manager.py, expected >= 5" % n)
        f = ctx.prog.func("SyncManager.handle_file_name_error")
        sync = f.params()[1]
        ign = any(pat.match("%s.ignore(IgnoreReason.IRRELEVANT)" % sync, n) is not None for n in ctx.own_nodes(f) if isinstance(n, ast.Call))
        notif = any(isinstance(n, ast.Attribute) and n.attr == "FILE_NAME_ERROR" for n in ctx.own_nodes(f))
        g = ctx.cfg(f)
        pth = g.reach([g.entry.id], lambda m: m is g.exit, avoid=lambda m: node_has_call(m, "%s.ignore(IgnoreReason.IRRELEVANT)" % sync), follow=NORMAL)
        rep.check("C10.T5", "handle_file_name_error", f, ign and notif and pth is None, "ignore(IRRELEVANT) on every path + FILE_NAME_ERROR",
                  "handle_file_name_error no longer (always) ignores the entry as IRRELEVANT and emits FILE_NAME_ERROR")

    def t6(self):
        rep, ctx = self.rep, self.ctx
        rep.rule("C10.T6", "repeated not-found gives up: CloudTooManyRetriesError is raised under a priority threshold in "
                 "handle_cloud_file_not_found_error and turned into FINISHED by sync()", expect_min=2)
        f = ctx.prog.func("SyncManager.handle_cloud_file_not_found_error")
        rs = [n for n in ctx.own_nodes(f) if isinstance(n, ast.Raise) and n.exc is not None and "CloudTooManyRetriesError" in ast.unparse(n.exc)]
        good = bool(rs) and all(any(pol and ".priority >" in txt for (txt, pol) in ctx.facts_at(f, r)) for r in rs)
        rep.check("C10.T6", "give-up|raise", f, good, "raised above a priority threshold", "the give-up error is not raised under a punt-count threshold any more")
        s = ctx.prog.func("SyncManager.sync")
        hs = [h for t in ctx.own_nodes(s) if isinstance(t, ast.Try) for h in t.handlers if "CloudTooManyRetriesError" in _handler_names(h)]
        good = bool(hs) and all(any(isinstance(x, ast.Assign) and pat.match("FINISHED", x.value) is not None for b in h.body for x in ast.walk(b)) for h in hs)
        rep.check("C10.T6", "give-up|finished", s, good, "response = FINISHED", "sync() no longer turns the give-up error into FINISHED: the entry is retried for ever")

    def t7(self):
        rep, ctx = self.rep, self.ctx
        rep.rule("C10.T7", "a retry never reuses a download made for older content: the reusable temp-file name is a function of the "
                 "side's CURRENT hash and path, and reuse requires that name to match", expect_min=2)
        f = ctx.prog.func("SyncManager.make_temp_file")
        ss = f.params()[1]
        asg = [n for n in ctx.own_nodes(f) if isinstance(n, ast.Assign) and isinstance(n.targets[0], ast.Name) and
               any(isinstance(x, ast.Call) and "md5" in ast.unparse(x.func) for x in ast.walk(n.value))]
        if not asg:
            raise AnalysisError("make_temp_file: deterministic temp name (md5 of path + hash) not found")
        for a in asg:
            attrs = {x.attr for x in ast.walk(a.value) if isinstance(x, ast.Attribute) and isinstance(x.value, ast.Name) and x.value.id == ss}
            rep.check("C10.T7", "make_temp_file|name", ctx.line(f, a), "hash" in attrs and "path" in attrs and "sync_hash" not in attrs,
                      "name = f(%s.path, %s.hash)" % (ss, ss),
                      "the temp-file name depends on %s instead of the current hash and path: after a punt and a newer edit the stale download is reused and uploaded" % sorted(attrs))
            tfn = a.targets[0].id
            rets = [n for n in ctx.own_nodes(f) if isinstance(n, ast.Return) and n.value is None]
            reuse = [r for r in rets if any(tfn in txt and "temp_file" in txt and pol for (txt, pol) in ctx.facts_at(f, r))]
            other = [r for r in rets if r not in reuse and not any((("%s.otype == DIRECTORY" % ss) == txt and pol) for (txt, pol) in ctx.facts_at(f, r))]
            rep.check("C10.T7", "make_temp_file|reuse", f, bool(reuse) and not other, "kept only when the existing temp file carries the current name",
                      "an existing temp file is kept without checking that its name matches the current content")


def run(ctx: Ctx, rep: Report, tier: str):
    c = C10(ctx, rep)
    section(rep, c.t1)
    section(rep, c.t2)
    section(rep, c.t3)
    rep.rule("C10.T4", "anything else is swallowed by the service loop (same query as C18.L1)", expect_min=1)
    from rules.C18 import C18
    x = C18(ctx, rep)
    saved = rep.rules.get("C18.L1")
    rep.rules["C18.L1"] = "alias"
    x.l1()
    # re-label the instances produced by l1 as C10.T4
    for i in rep.instances:
        if i.rule == "C18.L1":
            i.rule = "C10.T4"
    del rep.rules["C18.L1"]
    rep.expect.pop("C18.L1", None)
    section(rep, c.t5)
    section(rep, c.t6)
    section(rep, c.t7)
    from rules.common import alias, refresh_stamp_after_fetch
    from rules.C07 import C07
    rep.rule("C10.T8", "a refresh that fails is retried: SyncEntry.get_latest stores the refresh stamp only after the provider refresh returned", 1)
    section(rep, lambda: refresh_stamp_after_fetch(ctx, rep, "C10.T8"))
    alias(rep, ["C07.R6"], "C10.T9", "a download interrupted by a transient failure leaves nothing under the final temp name (bytes go to a '.tmp' sibling, published by "
          "rename after provider.download returned - C07.R6): the retry downloads again instead of uploading a truncated file", 2, lambda: C07(ctx, rep).r6())
    from rules.common import first_init_completes_before_flag
    rep.rule("C10.T10", "a transient fault in the first intake step after a restart is retried in full: _do_first_init clears its flag only after the cursor "
             "restore succeeded (C06.R9)", 1)
    section(rep, lambda: first_init_completes_before_flag(ctx, rep, "C10.T10"))
    from rules.common import walk_propagates_faults
    rep.rule("C10.T12", "a transient fault during a walk is not swallowed: Provider._walk / walk / walk_oid catch nothing but CloudFileNotFoundError without re-raising", 1)
    section(rep, lambda: walk_propagates_faults(ctx, rep, "C10.T12"))
    from rules.common import no_new_swallowing_handlers
    rep.rule("C10.T13", "a provider fault is never silently swallowed inside the sync step: the only handler of SyncManager that catches a fault family without re-raising or "
             "reporting is the resolver fallback", 1)
    section(rep, lambda: no_new_swallowing_handlers(ctx, rep, "C10.T13"))
    from rules.C05 import C05 as _C05
    from rules.common import alias as _alias10
    _alias10(rep, ["C05.V2", "C05.V1", "C05.V3", "C05.V4", "C05.V5", "C05.V6", "C05.V7", "C05.V8", "C05.V9"], "C10.T14", "a transient fault while the application's resolver reads a handle aborts the step "
             "(CloudTemporaryError is re-raised before the catch-all of __safe_call_resolver, C05.V2): it is reported and retried, not taken for a broken resolver", 1,
             lambda: _C05(ctx, rep).run(), keep=lambda i: i.rule == "C05.V2" and i.key == "resolver|temporary-propagates")
    from rules.common import no_late_bound_loop_variable
    from rules.decisions import DECISION_FUNCTIONS as _DF
    rep.rule("C10.T15", "each side recovers through its own hooks: no closure created in a loop / comprehension and kept (reauth=..., a callback) reads the loop variable when it is "
             "called (late binding gives every copy the last side)", 100)
    section(rep, lambda: no_late_bound_loop_variable(ctx, rep, "C10.T15", _DF))
    from rules.decisions import decision_table, table_sites
    rep.rule("C10.DT", "decision table (rules/decisions.json) of the step frames of the sync and event managers: punt, backoff, reconnect, notification and commit per failure kind: for every function and every action shape (an impure call with the parameters it passes, a store to an "
             "attribute or item, a delete, a returned constant, a yield, a raise) the set of states - over the function's guard atoms - in which the action is taken "
             "equals the recorded one; compared as canonical decision diagrams, so any equivalent respelling of the guards is the same table", table_sites("C10"))
    section(rep, lambda: decision_table(ctx, rep, "C10.DT", "C10"))
