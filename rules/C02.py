"""C02 - no silent data loss: only users destroy content; conflicts keep both versions.

Decided: the inventory of the engine's destructive provider calls and the guard of each (R1); no upload over a trashed or
missing peer (R2); a delete is dropped when the other side has a pending create / rename (R3); the conflict loser is kept
by renaming it to a '.conflicted' sibling, with rename only (R4); a corrupt download freezes that side and never
propagates (R5).   Not decided: which versions survive a given history.
"""
from __future__ import annotations

import ast

from sa.model import AnalysisError, FuncInfo
from sa.ctx import Ctx, short, stmt_key, ENGINE_MODULES
from sa.cfg import NORMAL, describe_path
from sa.report import Report, section
from sa.effects import Effects
from sa.util import disjunctions, cfg_root, node_has_call, node_stores_attr, has_fact, exists_in, fact_in, local_assigned_from
from sa import pat
from sa.util import unalias as _unalias

DESTRUCTIVE = {"delete", "upload", "rmtree"}


EXPECTED = {"delete_synced": "delete", "handle_rename": "delete", "_smart_unsync_ent": "delete", "upload_synced": "upload", "resolve_conflict": "upload"}


class C02:
    def __init__(self, ctx: Ctx, rep: Report):
        self.ctx, self.rep = ctx, rep
        self.eff = Effects(ctx)

    def r1(self):
        rep, ctx = self.rep, self.ctx
        rep.rule("C02.R1", "the engine's destructive provider calls are exactly: the peer delete (delete_synced), the delete-out-of-the-way "
                 "(handle_rename), the un-request local delete (smartsync), the upload of a newer version (upload_synced) and the resolver's "
                 "upload over the loser - each under its guard; no rmtree", expect_min=5)
        inventory = {}
        for f in ctx.prog.functions.values():
            if f.module.name not in ENGINE_MODULES:
                continue
            for c in self.eff.provider_mutations(f):
                if c.func.attr in DESTRUCTIVE:
                    # an extracted single-caller helper is read as part of the method it was extracted from
                    inventory.setdefault(f.name if f.name in EXPECTED else ctx.owner(f).name, []).append((f, c))
        expected = EXPECTED
        for fname, sites in inventory.items():
            for f, c in sites:
                key = "%s|%s" % (short(f.qname), ast.unparse(c)[:60])
                if expected.get(fname) != c.func.attr:
                    rep.violation("C02.R1", key, ctx.line(f, c), "new destructive provider call `%s` in %s outside the guarded inventory" % (ast.unparse(c)[:70], short(f.qname)), func=f.qname)
                    continue
                facts = ctx.facts_inlined(f, c)
                if fname == "delete_synced":
                    sync, changed, synced = f.params()[1:4]
                    ok = has_fact(facts, "%s[%s].oid" % (sync, synced), True) and pat.match("self.providers[%s].delete(%s[%s].oid)" % (synced, sync, synced), c) is not None
                    why = "peer delete needs a peer id"
                elif fname == "handle_rename":
                    m = pat.match("self.providers[$S].delete($C[$S2].oid)", c)
                    cf = ast.unparse(m["C"]) if m else "conflict"
                    ok = m is not None and ((has_fact(facts, "%s[LOCAL].needs_sync()" % cf, False) and has_fact(facts, "%s[REMOTE].needs_sync()" % cf, False)) or has_fact(facts, "%s.needs_sync()" % cf, False))
                    why = "delete-out-of-the-way only for a copy that needs no sync on either side"
                elif fname == "_smart_unsync_ent":
                    ok = pat.match("self.providers[LOCAL].delete($X)", c) is not None
                    why = "un-request deletes locally only"
                elif fname == "upload_synced":
                    ok = True
                    why = "guarded at its caller (R2)"
                else:
                    keep = local_assigned_from(ctx, ctx.owner(f), "self.__safe_call_resolver($$$)", 1)
                    ok = keep is not None and fact_in(facts, keep, False) and has_fact(facts, "$A is $B", False)
                    why = "resolver upload only over the losing handle and only when the loser is not kept"
                rep.check("C02.R1", key, ctx.line(f, c), ok, why, "destructive call `%s` lost its guard (%s; facts: %s)" % (ast.unparse(c)[:60], why, sorted(facts)), func=f.qname)
        for fname in expected:
            if fname not in inventory:
                rep.note("C02.R1", "missing|%s" % fname, "-", "expected destructive call in %s not found (mechanism changed)" % fname)
        if sum(len(v) for v in inventory.values()) < 5:
            raise AnalysisError("fewer than 5 destructive provider calls found in the engine")

    def r2(self):
        rep, ctx = self.rep, self.ctx
        rep.rule("C02.R2", "handle_hash_diff never reaches upload_synced when the target side is TRASHED / MISSING or has no id (the upload is turned into a create)", expect_min=1)
        f = ctx.prog.func("SyncManager.handle_hash_diff")
        sync, changed, synced = f.params()[1:4]
        calls = ctx.calls(f, "upload_synced")
        if not calls:
            raise AnalysisError("handle_hash_diff no longer calls upload_synced")
        for c in calls:
            facts = ctx.facts_at(f, c)
            ok = exists_in(facts, "%s[%s].exists" % (sync, synced), {"TRASHED", "MISSING"}, pol=False) and has_fact(facts, "%s[%s].oid is None" % (sync, synced), False)
            rep.check("C02.R2", "handle_hash_diff|upload", ctx.line(f, c), ok, "upload only to an existing peer with an id",
                      "new content can be uploaded over a peer that is trashed / missing / has no id (facts %s)" % sorted(facts))
        # every caller of upload_synced is handle_hash_diff
        up = ctx.prog.func("SyncManager.upload_synced")
        callers = {s.func.qname for s in ctx.callers(up)}
        rep.check("C02.R2", "upload_synced|callers", up, callers == {f.qname}, "called only from handle_hash_diff", "upload_synced is also called from %s" % sorted(short(x) for x in callers - {f.qname}), nontrivial=False)

    def r3(self):
        rep, ctx = self.rep, self.ctx
        rep.rule("C02.R3", "a delete is not propagated over newer content: embrace_change finishes a TRASHED side whose peer is a pending file "
                 "creation; delete_synced returns (ignoring the entry) when another entry has a pending create, or a pending rename onto the "
                 "translated path, before the provider delete", expect_min=3)
        f = ctx.prog.func("SyncManager.embrace_change")
        sync, changed, synced = f.params()[1:4]
        calls = [c for c in ctx.calls(f, "delete_synced") if len(c.args) == 3]
        if not calls:
            raise AnalysisError("embrace_change: plain delete_synced(sync, changed, synced) call not found")
        for c in calls:
            facts = ctx.facts_at(f, c)
            trashed = exists_in(facts, "%s[%s].exists" % (sync, changed), {"TRASHED"}, pol=True)
            # not (peer is a pending creation of a file): one of `not is_creation(synced)`, `otype != FILE`, `not changed` holds
            pend = any("not %s.is_creation(%s)" % (sync, synced) in dj and "not %s[%s].changed" % (sync, synced) in dj for dj in disjunctions(facts))
            rep.check("C02.R3", "embrace_change|delete", ctx.line(f, c), trashed and pend, "peer delete only for a TRASHED side without a pending peer creation",
                      "the peer is deleted although %s (facts %s)" % ("the changed side is not known to be trashed" if not trashed else "the other side may hold a pending creation", sorted(facts)))
        d = ctx.prog.func("SyncManager.delete_synced")
        g = ctx.cfg(d)
        sync, changed, synced = d.params()[1:4]
        dele = [n for n in g.nodes if node_has_call(n, "self.providers[%s].delete($X)" % synced)]
        for what, fact in (("pending create", "$E.is_creation(%s)" % synced), ("pending rename", "$E.is_rename(%s)" % synced)):
            rets = [n for n in g.nodes if n.kind == "stmt" and isinstance(n.ast, ast.Return) and has_fact(ctx.facts(d).facts(n), fact, True)]
            ign = [n for n in g.nodes if node_has_call(n, "%s.ignore($$$)" % sync) and has_fact(ctx.facts(d).facts(n), fact, True)]
            ok = bool(rets) and bool(ign) and bool(dele)
            if ok:
                # the test is evaluated before the provider delete on every path (for rename: on the paths where the path translates)
                tests = [n for n in g.nodes if n.kind == "test" and pat.match(fact, n.ast) is not None]
                loops = [n for n in g.nodes if n.kind == "iter" and any(any(x is t.ast for x in ast.walk(n.ast)) for t in tests)]
                tpn = local_assigned_from(ctx, d, "self.translate($$$)") or "translated_path"
                tp = {n.id for n in g.nodes if n.kind == "test" and pat.match(tpn, n.ast) is not None}
                pth = g.reach([g.entry.id], lambda n: n in dele, avoid=lambda n: n in loops,
                              follow=lambda a, b, l: l != "exc" and not (what == "pending rename" and a in tp and l == "F") and not (what == "pending rename" and g.nodes[a].kind == "test" and pat.match("%s[%s].path" % (sync, changed), _unalias(ctx, d, g.nodes[a].ast)) is not None and l == "F"))
                ok = pth is None
            rep.check("C02.R3", "delete_synced|%s" % what, d, ok, "%s -> ignore + return before the provider delete" % what,
                      "delete_synced no longer drops a delete when another entry has a %s: the newer object is deleted" % what)

    def r4(self):
        rep, ctx = self.rep, self.ctx
        rep.rule("C02.R4", "the conflict loser is kept: the keep arm renames it through conflict_rename, whose new name contains '.conflicted', "
                 "which uses rename only and retries with a counter on CloudFileExistsError", expect_min=3)
        f = ctx.prog.func("SyncManager.resolve_conflict")
        calls = ctx.calls(f, "_resolve_rename")
        keep = local_assigned_from(ctx, f, "self.__safe_call_resolver($$$)", 1)
        ok = bool(calls) and keep is not None and all(fact_in(ctx.facts_at(f, c), keep, True) for c in calls)
        rep.check("C02.R4", "resolve_conflict|keep-arm", f, ok, "_resolve_rename(loser) under keep", "the keep arm no longer renames the loser away")
        rr = ctx.prog.func("SyncManager._resolve_rename")
        ok = any(isinstance(n, ast.Call) and pat.match("self.conflict_rename($$$)", n) is not None for n in ctx.own_nodes(rr))
        cr = ctx.prog.func("SyncManager.conflict_rename")
        muts = self.eff.provider_mutations(cr)
        only_rename = bool(muts) and all(m.func.attr == "rename" for m in muts)
        # every name tried for the renamed loser carries the marker: all assignments to the variable joined into the new path
        jn = [n for n in ctx.own_nodes(cr) if isinstance(n, ast.Call) and pat.match("self.providers[$S].join($F, $N)", n) is not None]
        nvar = ast.unparse(pat.match("self.providers[$S].join($F, $N)", jn[0])["N"]) if jn else None
        nasg = [n for n in ctx.own_nodes(cr) if isinstance(n, ast.Assign) and isinstance(n.targets[0], ast.Name) and n.targets[0].id == nvar]
        name_ok = bool(nasg) and all(any(isinstance(x, ast.Constant) and isinstance(x.value, str) and ".conflicted" in x.value for x in ast.walk(a.value)) for a in nasg)
        loop = [n for n in ctx.own_nodes(cr) if isinstance(n, ast.While)]
        retry = any(isinstance(h, ast.ExceptHandler) and h.type is not None and "CloudFileExistsError" in ast.unparse(h.type) for lp in loop for h in ast.walk(lp))
        rep.check("C02.R4", "conflict_rename", cr, ok and only_rename and name_ok and retry, "rename only, '.conflicted' name, retry on exists",
                  "conflict_rename changed: via _resolve_rename %s, rename only %s, '.conflicted' in name %s, retries on exists %s" % (ok, only_rename, name_ok, retry))
        info = [c for c in ctx.calls(cr, "info_path")]
        oi = local_assigned_from(ctx, cr, "self.providers[$S].info_path($P)") or "oinfo"
        rep.check("C02.R4", "conflict_rename|by-id", cr, bool(info) and any(pat.match("self.providers[$S].rename(%s.oid, $P)" % oi, m) is not None for m in muts),
                  "renames the object currently at the path, by id", "conflict_rename no longer renames by the id found at the path", nontrivial=False)

    def r5(self):
        rep, ctx = self.rep, self.ctx
        rep.rule("C02.R5", "corrupt content is never propagated: every `except CloudCorruptError` returns handle_corrupt(...), which freezes that "
                 "side (sync_hash / sync_path := own, exists := CORRUPT) and marks the other side changed; sync() finishes a corrupt_gone side "
                 "without embracing it", expect_min=5)
        n = 0
        for f in ctx.prog.functions.values():
            if f.module.name != "cloudsync.sync.manager":
                continue
            for t in ctx.own_nodes(f):
                if isinstance(t, ast.Try):
                    for h in t.handlers:
                        if h.type is not None and "CloudCorruptError" in ast.unparse(h.type):
                            n += 1
                            ok = any(isinstance(x, ast.Return) and isinstance(x.value, ast.Call) and pat.match("self.handle_corrupt($$$)", x.value) is not None for x in h.body)
                            rep.check("C02.R5", "%s|handler%d" % (short(f.qname), n), ctx.line(f, h), ok, "returns handle_corrupt(...)",
                                      "a corrupt download is not handed to handle_corrupt: the unreadable version may be synced", func=f.qname, nontrivial=False)
        if n < 3:
            raise AnalysisError("only %d `except CloudCorruptError` handlers found, expected >= 3" % n)
        hc = ctx.prog.func("SyncManager.handle_corrupt")
        side, sync = hc.params()[1:3]
        g = ctx.cfg(hc)
        need = {"sync_hash": "%s[%s].sync_hash = %s[%s].hash" % (sync, side, sync, side), "sync_path": "%s[%s].sync_path = %s[%s].path" % (sync, side, sync, side),
                "exists": "%s[%s].exists = CORRUPT" % (sync, side)}
        for k, patt in need.items():
            pth = g.reach([g.entry.id], lambda n: n is g.exit, avoid=lambda n, patt=patt: cfg_root(n) is not None and isinstance(cfg_root(n), ast.Assign) and pat.match(patt, cfg_root(n)) is not None, follow=NORMAL)
            rep.check("C02.R5", "handle_corrupt|%s" % k, hc, pth is None, patt, "handle_corrupt no longer performs `%s` on every path" % patt)
        other = any(isinstance(n, ast.Call) and pat.match("%s[OTHER_SIDE[%s]].mark_changed()" % (sync, side), n) is not None for n in ctx.own_nodes(hc))
        rep.check("C02.R5", "handle_corrupt|resync-good-side", hc, other, "other side marked changed", "the good side is no longer re-synced over the corrupt copy")
        s = ctx.prog.func("SyncManager.sync")
        calls = ctx.calls(s, "embrace_change")
        ok = bool(calls) and all(any((not pol) and txt.endswith(".corrupt_gone") for (txt, pol) in ctx.facts_at(s, c)) for c in calls)
        rep.check("C02.R5", "sync|corrupt_gone", s, ok, "embrace_change only when the side is not corrupt_gone", "a corrupt side whose file is gone is embraced (its delete / rename is propagated)")


def r6(ctx: Ctx, rep: Report):
    from rules.common import hash_conflict_definition, refresh_marks_changed
    rep.rule("C02.R6", "both versions are only kept if the conflict is seen: hash_conflict() = both sides have hash and path and both hashes differ from the "
             "last-synced ones (never-synced objects included); a refresh that discovers new content or a new path stamps the side changed, which is what the "
             "delete-versus-newer-edit guards key on", expect_min=3)
    hash_conflict_definition(ctx, rep, "C02.R6")
    refresh_marks_changed(ctx, rep, "C02.R6")


def run(ctx: Ctx, rep: Report, tier: str):
    c = C02(ctx, rep)
    section(rep, c.r1)
    section(rep, c.r2)
    section(rep, c.r3)
    section(rep, c.r4)
    section(rep, c.r5)
    r6(ctx, rep)
    rep.rule("C02.R7", "adopting a file that was already in the way (CloudFileExistsError arm of create_synced) records it as UNSYNCED foreign content: its id and current "
             "hash are stored, its last-synced markers are not touched, so the next step sees a conflict instead of uploading over it", 2)
    cs_ = ctx.prog.func("SyncManager.create_synced")
    from sa.util import side_names
    from sa.sides import SideAnalysis
    chn, syn = side_names(ctx, cs_, SideAnalysis(ctx))
    if syn is None:
        chn, syn = side_names(ctx, cs_)
    sy = cs_.params()[2]
    hs = [h for t in ctx.own_nodes(cs_) if isinstance(t, ast.Try) for h in t.handlers if h.type is not None and "CloudFileExistsError" in ast.unparse(h.type)]
    if not hs:
        raise AnalysisError("create_synced: CloudFileExistsError handler not found")
    for h in hs:
        stores = [x for b in h.body for x in ast.walk(b) if isinstance(x, ast.Assign) and isinstance(x.targets[0], ast.Attribute) and pat.match("%s[%s]" % (sy, syn), x.targets[0].value) is not None]
        attrs = {x.targets[0].attr for x in stores}
        rep.check("C02.R7", "create_synced|adopt|records", ctx.line(cs_, h), {"oid", "hash"} <= attrs, "stores %s of the file in the way" % sorted(attrs),
                  "the adopted file's id / current hash are not recorded (stores: %s)" % sorted(attrs))
        rep.check("C02.R7", "create_synced|adopt|stays-unsynced", ctx.line(cs_, h), not ({"sync_hash", "sync_path"} & attrs), "last-synced markers untouched",
                  "the adopted foreign file is booked as already synced (%s stored): its content is overwritten by the next upload without a conflict" % sorted({"sync_hash", "sync_path"} & attrs))
    from rules.common import alias as _alias
    from rules.C07 import C07 as _C07
    _alias(rep, ["C07.R4"], "C02.R8", "an existing peer file is adopted as 'already synced' only if its hash equals the hash of the bytes being created (C07.R4): "
           "otherwise one of two different contents would be booked as synced and never reconciled", 3, lambda: _C07(ctx, rep).r4())
    from rules.common import split_contract, transfer_success_chain
    rep.rule("C02.R9", "a conflict is kept as two entries, never merged away: SyncState.split moves the LOCAL half to a new entry, clears it from the original, marks both "
             "changed and unsynced (C05.V15)", 7)
    section(rep, lambda: split_contract(ctx, rep, "C02.R9"))
    rep.rule("C02.R10", "content is reported propagated only after it was: handle_hash_diff returns FINISHED only after download_changed and upload_synced both reported "
             "success; a falsy result of either is a PUNT", 2)
    section(rep, lambda: transfer_success_chain(ctx, rep, "C02.R10"))
    from rules.common import definition_holds
    rep.rule("C02.R11", "the definitions the destructive arms are guarded with: is_creation (a pending creation is never deleted under) and is_deletion", 2)
    section(rep, lambda: definition_holds(ctx, rep, "C02.R11", "SyncEntry.is_creation", "the guard 'the other side holds a pending creation' no longer means that: a delete can win over a new file"))
    section(rep, lambda: definition_holds(ctx, rep, "C02.R11", "SyncEntry.is_deletion", "a side that is not deleted is treated as deleted (its peer is removed), or a real delete is not propagated"))
    from rules.common import creation_dispatch
    rep.rule("C02.R12", "a new object reaches the peer without overwriting anything: create_synced / mkdir_synced only for a creation and only after check_disjoint_create "
             "found no clash; a file only after its content was downloaded; handle_rename only for a non-creation", 4)
    section(rep, lambda: creation_dispatch(ctx, rep, "C02.R12"))
    from rules.common import uploads_read_the_changed_sides_download
    rep.rule("C02.R13", "the peer is overwritten / created with the changed side's current bytes (C03.R12), never with the synced side's own temp file or a stale download", 5)
    section(rep, lambda: uploads_read_the_changed_sides_download(ctx, rep, "C02.R13"))
    from rules.common import resolution_bookkeeping
    rep.rule("C02.R14", "the version that lost a conflict and was kept as .conflicted is safe from stale events: its entry is flagged CONFLICT and its other half cleared (C05.V17)", 10)
    section(rep, lambda: resolution_bookkeeping(ctx, rep, "C02.R14"))
    from rules.common import content_first_deferral
    rep.rule("C02.R15", "an edit wins over a concurrent path change: in sync() a side with unchanged content yields to the other side's pending content change unconditionally, "
             "so the newer bytes are transferred before a rename / move-out of this side is acted on", 1)
    section(rep, lambda: content_first_deferral(ctx, rep, "C02.R15"))
    from rules.common import provider_write_conditions
    rep.rule("C02.R16", "WHEN the engine writes to a provider is fixed: each of the engine's provider-mutating calls (delete, upload, create, mkdirs, rename) is issued under "
             "exactly the path condition inventoried for it", 10)
    section(rep, lambda: provider_write_conditions(ctx, rep, "C02.R16"))
    from rules.common import refresh_covers_both_sides
    rep.rule("C02.R17", "a delete never wins over a peer edit that is still in flight: the pre-sync refresh re-reads the quiet side too (C14.W1)", 1)
    section(rep, lambda: refresh_covers_both_sides(ctx, rep, "C02.R17"))
    from rules.decisions import decision_table, table_sites
    rep.rule("C02.DT", "decision table (rules/decisions.json) of content-change and conflict handling, split conflicts, the conflict look-ups, ignore / unignore / clear: for every function and every action shape (an impure call with the parameters it passes, a store to an "
             "attribute or item, a delete, a returned constant, a yield, a raise) the set of states - over the function's guard atoms - in which the action is taken "
             "equals the recorded one; compared as canonical decision diagrams, so any equivalent respelling of the guards is the same table", table_sites("C02"))
    section(rep, lambda: decision_table(ctx, rep, "C02.DT", "C02"))
