"""C09 - storage back-ends behave as a durable, tag-isolated map.

Decided (SqliteStorage, and MockStorage where it applies): every SQL statement agrees with the Python around it -
key isolation by id AND tag (R1), placeholder <-> parameter agreement (R2), result shape (R3), error / idempotence
arms (R4), autocommit (R5), mutex discipline (R6), interface completeness and sibling agreement (R7), cursor data
goes through the same interface with its own tag (R8), ids handed out by create are fresh (R9).
Not decided: equivalence with a map over all call sequences; SQLite's own durability (trusted).
"""
from __future__ import annotations

import ast

from sa.model import AnalysisError, FuncInfo
from sa.ctx import Ctx, short, stmt_key, reaching_defs
from sa.cfg import NORMAL, describe_path
from sa.report import Report, section
from sa import sql, pat
from sa.util import fact_in

# column of table `cloud`  ->  name of the Storage-interface argument that carries it
COL_TO_ARG = {"id": "eid", "tag": "tag", "serialization": "serialization"}


def _const_str(e):
    if isinstance(e, ast.Constant) and isinstance(e.value, str):
        return e.value
    return None


class C09:
    def __init__(self, ctx: Ctx, rep: Report):
        self.ctx, self.rep = ctx, rep
        p = ctx.prog
        self.storage = p.cls("Storage")
        self.sqlite = p.cls("SqliteStorage")
        self.impls = [c for c in self.storage.all_subclasses()]
        self.execf = p.func("SqliteStorage.__db_execute")
        self.stmts = []   # (func, call node, Stmt, params expr or None)
        self.other_sql = []

    # ---------------------------------------------------------------- statement extraction
    def extract(self):
        ctx = self.ctx
        for f in self.sqlite.methods.values():
            for s in ctx.sites(f):
                if s.kind != "call" or self.execf not in s.under:
                    continue
                call = s.node
                if not call.args:
                    raise AnalysisError("__db_execute call without SQL argument at %s" % s.loc())
                arg = call.args[0]
                texts = []
                t = _const_str(arg)
                if t is not None:
                    texts = [t]
                elif isinstance(arg, ast.Name):
                    defs, from_entry = reaching_defs(ctx, f, call, arg.id)
                    for d in defs:
                        v = getattr(d, "value", None)
                        tv = _const_str(v) if v is not None else None
                        if tv is None:
                            raise sql.SqlUndecided("SQL text at %s is not a string literal" % s.loc())
                        texts.append(tv)
                    if from_entry or not texts:
                        raise sql.SqlUndecided("SQL variable `%s` at %s may be unassigned / a parameter" % (arg.id, s.loc()))
                else:
                    raise sql.SqlUndecided("SQL text at %s is computed (%s); only literals are decided" % (s.loc(), type(arg).__name__))
                params = call.args[1] if len(call.args) > 1 else None
                for kw in call.keywords:
                    if kw.arg == "parameters":
                        params = kw.value
                for tx in texts:
                    try:
                        self.stmts.append((f, call, sql.parse(tx), params))
                    except sql.SqlUndecided:
                        if "cloud" in tx.lower().replace(",", " ").replace("(", " ").split():
                            raise
                        self.other_sql.append((f, call, tx))
        if len(self.stmts) < 9:
            raise AnalysisError("only %d SQL statements reach SqliteStorage.__db_execute, expected >= 9" % len(self.stmts))
        schema = [st for (_, _, st, _) in self.stmts if st.kind == "create_table"]
        if not schema or set(schema[0].columns) != set(COL_TO_ARG):
            raise AnalysisError("table schema %s does not match the column table %s" % (schema and schema[0].columns, sorted(COL_TO_ARG)))
        self.table = schema[0].table

    # ---------------------------------------------------------------- R1 / R2
    def r1_r2(self):
        rep, ctx = self.rep, self.ctx
        rep.rule("C09.R1", "every UPDATE / DELETE / single-row SELECT on the table has a conjunctive WHERE containing both "
                 "`id = ?` and `tag = ?`; read_all(tag) filters on `tag = ?`", expect_min=4)
        rep.rule("C09.R2", "number of `?` equals the length of the parameter list and the i-th parameter is the method "
                 "argument carrying the i-th placeholder's column (serialization, id<->eid, tag); INSERT column list matches VALUES arity",
                 expect_min=5)
        for f, call, st, params in self.stmts:
            key = "%s|%s" % (short(f.qname), st.text[:70])
            loc = ctx.line(f, call)
            if st.kind in ("update", "delete") or (st.kind == "select" and f.name == "read"):
                cols = {(c, op, rhs) for (c, op, rhs) in st.where}
                ok = st.where_is_conjunction and ("id", "=", "?") in cols and ("tag", "=", "?") in cols
                rep.check("C09.R1", key, loc, ok, "WHERE %s" % st.where,
                          "statement is not keyed by id AND tag (WHERE %s, conjunction=%s): rows of other tags with the same id are hit"
                          % (st.where, st.where_is_conjunction), func=f.qname)
            elif st.kind == "select" and f.name == "read_all":
                if st.where:
                    ok = st.where_is_conjunction and ("tag", "=", "?") in set(st.where)
                    rep.check("C09.R1", key, loc, ok, "WHERE %s" % st.where,
                              "read_all(tag) does not filter on `tag = ?` (WHERE %s)" % st.where, func=f.qname)
                else:
                    # the un-filtered form is only legal on the branch where no tag was given
                    facts = ctx.facts_at(f, call)
                    tagp = f.params()[1] if len(f.params()) > 1 else "tag"
                    guarded = fact_in(facts, "%s is None" % tagp, True) or fact_in(facts, "%s" % tagp, False)
                    rep.check("C09.R1", key, loc, guarded, "un-filtered SELECT only under `%s is None`" % tagp,
                              "un-filtered SELECT reachable when a tag was given (facts: %s)" % sorted(facts), func=f.qname)
            if st.kind in ("insert", "update", "delete", "select"):
                nph = len(st.placeholders)
                if st.kind == "insert" and len(st.columns) != st.values_arity:
                    rep.violation("C09.R2", key + "|arity", loc, "INSERT names %d columns but VALUES has %d items" % (len(st.columns), st.values_arity), func=f.qname)
                    continue
                if params is None:
                    rep.check("C09.R2", key, loc, nph == 0, "no placeholders, no parameters",
                              "%d placeholder(s) but no parameter list" % nph, func=f.qname)
                    continue
                if not isinstance(params, (ast.List, ast.Tuple)):
                    raise sql.SqlUndecided("parameter list at %s is not a literal list/tuple" % loc)
                elts = params.elts
                if len(elts) != nph:
                    rep.violation("C09.R2", key, loc, "%d placeholder(s) but %d parameter(s)" % (nph, len(elts)), func=f.qname)
                    continue
                fparams = set(f.all_param_names())
                bad = []
                for (clause, col), e in zip(st.placeholders, elts):
                    names = {n.id for n in ast.walk(e) if isinstance(n, ast.Name) and n.id in fparams}
                    want = COL_TO_ARG.get(col)
                    if names != {want}:
                        bad.append("placeholder %s:%s receives `%s` (expected argument `%s`)" % (clause, col, ast.unparse(e), want))
                rep.check("C09.R2", key, loc, not bad, "placeholders %s <- %s" % (st.placeholders, [ast.unparse(e) for e in elts]),
                          "; ".join(bad), func=f.qname)

    # ---------------------------------------------------------------- R3
    def r3(self):
        rep, ctx = self.rep, self.ctx
        rep.rule("C09.R3", "result shape: the unpack arity equals the number of selected columns, unpacked names are used in "
                 "their column's role, and read() returns the serialization column of the row (not the row)", expect_min=2)
        for f, call, st, params in self.stmts:
            if st.kind != "select":
                continue
            key = "%s|%s" % (short(f.qname), st.text[:70])
            # the cursor variable this execute is assigned to, and the loops over its rows
            cur = None
            for n in ctx.own_nodes(f):
                if isinstance(n, ast.Assign) and n.value is call and isinstance(n.targets[0], ast.Name):
                    cur = n.targets[0].id
            if cur is None:
                raise AnalysisError("result of SELECT at %s is not bound to a cursor variable" % ctx.line(f, call))
            loops = [n for n in ctx.own_nodes(f) if isinstance(n, ast.For) and pat.match("%s.fetchall()" % cur, n.iter) is not None
                     or isinstance(n, ast.For) and pat.match(cur, n.iter) is not None]
            if not loops and f.name == "read":
                # first-row access without a loop: `if rows: return rows[0][k]` - fine as long as nothing but 'there is a row' is tested
                want = st.columns.index("serialization") if "serialization" in st.columns else None
                rets = [n for n in ctx.own_nodes(f) if isinstance(n, ast.Return) and n.value is not None and any(isinstance(x, ast.Name) and x.id == cur for x in ast.walk(n.value))]
                if not rets:
                    rep.violation("C09.R3", key, ctx.line(f, call), "read() never returns a value taken from the selected rows", func=f.qname)
                for r in rets:
                    shape = pat.match("%s[0][$K]" % cur, r.value)
                    okk = shape is not None and isinstance(shape["K"], ast.Constant) and shape["K"].value in (want, want - len(st.columns))
                    facts = ctx.facts_at(f, r)
                    tested_value = [t for (t, p_) in facts if ("%s[0]" % cur) in t]
                    rep.check("C09.R3", key + "|return", ctx.line(f, r), okk and not tested_value, "returns column %s of the first row whenever there is a row" % want,
                              "read() returns `%s` under %s: the stored value itself is tested (a falsy stored value - b'', the cursor 0 - reads back as 'no such row') or "
                              "it is not the serialization column" % (ast.unparse(r.value), sorted(facts)), func=f.qname)
                continue
            if not loops:
                raise AnalysisError("rows of SELECT at %s are not iterated with a for loop" % ctx.line(f, call))
            for lp in loops:
                rowvars, unpack = self._row_vars(lp)
                if f.name == "read":
                    want = st.columns.index("serialization") if "serialization" in st.columns else None
                    rets = [n for n in ast.walk(lp) if isinstance(n, ast.Return)]
                    if not rets or want is None:
                        rep.violation("C09.R3", key, ctx.line(f, lp), "read() has no return of the serialization column inside the row loop", func=f.qname)
                        continue
                    for r in rets:
                        good = False
                        v = r.value
                        if isinstance(v, ast.Subscript) and isinstance(v.value, ast.Name) and v.value.id in rowvars \
                                and isinstance(v.slice, ast.Constant) and v.slice.value in (want, want - len(st.columns)):
                            good = True
                        elif isinstance(v, ast.Name) and unpack and v.id in unpack and unpack.index(v.id) == want and len(unpack) == len(st.columns):
                            good = True
                        rep.check("C09.R3", key + "|return", ctx.line(f, r), good, "returns column %d (`serialization`) of the row" % want,
                                  "read() returns `%s`; the stored bytes are column %d of %s (a row tuple is not the bytes that were written)"
                                  % (ast.unparse(v) if v is not None else None, want, st.columns), func=f.qname)
                else:
                    if unpack is None:
                        rep.violation("C09.R3", key, ctx.line(f, lp), "rows are not unpacked into one name per selected column", func=f.qname)
                        continue
                    if len(unpack) != len(st.columns):
                        rep.violation("C09.R3", key, ctx.line(f, lp), "row unpacked into %d names but %d columns are selected (%s)"
                                      % (len(unpack), len(st.columns), st.columns), func=f.qname)
                        continue
                    role = dict(zip(st.columns, unpack))
                    bad = []
                    # every store into the result dict must put the serialization var as the value and id var as the key
                    for n in ast.walk(lp):
                        if isinstance(n, ast.Assign) and isinstance(n.targets[0], ast.Subscript):
                            tgt, val = n.targets[0], n.value
                            if isinstance(val, ast.Dict) and not val.keys:
                                continue
                            if not (isinstance(val, ast.Name) and val.id == role.get("serialization")):
                                bad.append("`%s` stores `%s`, not the serialization column `%s`" % (ast.unparse(n), ast.unparse(val), role.get("serialization")))
                            k = tgt.slice
                            if not (isinstance(k, ast.Name) and k.id == role.get("id")):
                                bad.append("`%s` is keyed by `%s`, not the id column `%s`" % (ast.unparse(n), ast.unparse(k), role.get("id")))
                            outer = tgt.value
                            if isinstance(outer, ast.Subscript):
                                ko = outer.slice
                                if not (isinstance(ko, ast.Name) and ko.id == role.get("tag")):
                                    bad.append("`%s` outer key `%s` is not the tag column `%s`" % (ast.unparse(n), ast.unparse(ko), role.get("tag")))
                    rep.check("C09.R3", key, ctx.line(f, lp), not bad, "columns %s unpacked as %s and stored by role" % (st.columns, unpack), "; ".join(bad), func=f.qname)

    @staticmethod
    def _row_vars(lp: ast.For):
        rowvars, unpack = set(), None
        if isinstance(lp.target, ast.Name):
            rowvars.add(lp.target.id)
            for n in ast.walk(lp):
                if isinstance(n, ast.Assign) and isinstance(n.value, ast.Name) and n.value.id in rowvars and isinstance(n.targets[0], (ast.Tuple, ast.List)):
                    unpack = [e.id if isinstance(e, ast.Name) else "?" for e in n.targets[0].elts]
        elif isinstance(lp.target, (ast.Tuple, ast.List)):
            unpack = [e.id if isinstance(e, ast.Name) else "?" for e in lp.target.elts]
        return rowvars, unpack

    # ---------------------------------------------------------------- R4 error arms (both back-ends)
    def r4(self):
        rep, ctx = self.rep, self.ctx
        rep.rule("C09.R4", "update of a missing row is an error (a raise guarded by 'no row matched'); delete never raises "
                 "(idempotent); read of a missing row falls through to None and never raises", expect_min=6)
        for c in self.impls:
            for name in ("update", "delete", "read"):
                f = c.methods.get(name)
                if f is None:
                    continue    # R7 reports missing overrides
                g = ctx.cfg(f)
                raises = [n for n in g.nodes if n.kind == "stmt" and isinstance(n.ast, ast.Raise) and ctx.facts(f).reachable(n)]
                key = "%s.%s" % (c.name, name)
                if name == "update":
                    good = False
                    why = "no raise statement"
                    for r in raises:
                        facts = ctx.facts_at(f, r.ast)
                        if self._missing_row_fact(f, facts):
                            good = True
                        else:
                            why = "raise at line %d is not guarded by a 'no row' test (facts %s)" % (r.lineno, sorted(facts))
                    rep.check("C09.R4", key, f, good, "raises when no row matched", "update() of a missing row is not an error: %s" % why)
                elif name == "delete":
                    rep.check("C09.R4", key, f, not raises, "no reachable raise", "delete() can raise (%s); deleting a missing row must be a no-op"
                              % ", ".join("line %d" % r.lineno for r in raises))
                else:
                    none_ret = g.reach([g.entry.id], lambda n: n is g.exit, follow=NORMAL) is not None
                    rep.check("C09.R4", key, f, not raises and none_ret, "no raise; falls through to None",
                              "read() of a missing row raises (%s) instead of returning None" % ", ".join("line %d: %s" % (r.lineno, ast.unparse(r.ast)) for r in raises))

    def _missing_row_fact(self, f: FuncInfo, facts) -> bool:
        # names bound to `<cursor>.rowcount`
        rc_names = {"rowcount"}
        for n in self.ctx.own_nodes(f):
            if isinstance(n, (ast.Assign, ast.AnnAssign)) and isinstance(n.value, ast.Attribute) and n.value.attr == "rowcount":
                tg = n.targets[0] if isinstance(n, ast.Assign) else n.target
                if isinstance(tg, ast.Name):
                    rc_names.add(tg.id)
        for (txt, pol) in facts:
            try:
                e = ast.parse(txt, mode="eval").body
            except SyntaxError:
                continue
            # sqlite shape: rowcount == 0 / not rowcount / rowcount < 1
            def is_rc(x):
                return (isinstance(x, ast.Name) and x.id in rc_names) or (isinstance(x, ast.Attribute) and x.attr == "rowcount")
            if isinstance(e, ast.Compare) and len(e.ops) == 1 and is_rc(e.left) and isinstance(e.comparators[0], ast.Constant):
                v = e.comparators[0].value
                if (isinstance(e.ops[0], ast.Eq) and v == 0 and pol) or (isinstance(e.ops[0], ast.Lt) and v == 1 and pol) or \
                        (isinstance(e.ops[0], (ast.Gt,)) and v == 0 and not pol) or (isinstance(e.ops[0], ast.GtE) and v == 1 and not pol):
                    return True
            if is_rc(e) and not pol:
                return True
            # dict shape: eid in storage  (negative)
            if isinstance(e, ast.Compare) and len(e.ops) == 1 and isinstance(e.ops[0], ast.In) and not pol:
                if isinstance(e.left, ast.Name) and e.left.id in f.all_param_names():
                    return True
        return False

    # ---------------------------------------------------------------- R5 / R6
    def r5_r6(self):
        rep, ctx = self.rep, self.ctx
        rep.rule("C09.R5", "acknowledged writes are durable: sqlite3.connect(..., isolation_level=None) (autocommit) or an explicit "
                 "commit after every execute", expect_min=1)
        rep.rule("C09.R6", "self.db.execute is called only inside __db_execute, lexically inside `with self._mutex`; the "
                 "connection is usable from several threads (check_same_thread is not True for file databases)", expect_min=2)
        connects = []
        for f in self.sqlite.methods.values():
            for n in ctx.own_nodes(f):
                if isinstance(n, ast.Call) and pat.match("sqlite3.connect($$$)", n) is not None:
                    connects.append((f, n))
        if not connects:
            raise AnalysisError("no sqlite3.connect call in SqliteStorage")
        for f, n in connects:
            kws = {k.arg: k.value for k in n.keywords}
            iso = kws.get("isolation_level")
            auto = isinstance(iso, ast.Constant) and iso.value is None
            commits = False
            if not auto:
                g = ctx.cfg(self.execf)
                ex_nodes = [x for x in g.nodes if x.ast is not None and x.kind == "stmt" and any(
                    isinstance(y, ast.Call) and pat.match("self.db.execute($$$)", y) is not None for y in ast.walk(x.ast))]
                def is_commit(x):
                    return x.ast is not None and x.kind == "stmt" and any(isinstance(y, ast.Call) and pat.match("self.db.commit()", y) is not None for y in ast.walk(x.ast))
                commits = bool(ex_nodes) and all(g.reach([e.id], lambda x: x is g.exit, avoid=is_commit, follow=NORMAL) is None for e in ex_nodes)
            rep.check("C09.R5", stmt_key(f, n)[:60], ctx.line(f, n), auto or commits,
                      "isolation_level=None (autocommit)" if auto else "explicit commit after every execute",
                      "connection uses Python's implicit transactions (isolation_level=%s) and nothing commits: an acknowledged create/update is "
                      "lost on close/reopen" % (ast.unparse(iso) if iso is not None else "<default>"), func=f.qname)
            cst = kws.get("check_same_thread")
            bad = cst is None or (isinstance(cst, ast.Constant) and cst.value is True)
            rep.check("C09.R6", "connect|check_same_thread", ctx.line(f, n), not bad,
                      "check_same_thread=%s" % (ast.unparse(cst) if cst is not None else None),
                      "check_same_thread is %s: the event, sync and application threads share this connection" % (ast.unparse(cst) if cst is not None else "defaulted to True"),
                      func=f.qname)
        # execute only under the mutex
        nsites = 0
        for c in [self.sqlite] + self.sqlite.all_subclasses():
            for f in c.methods.values():
                for n in ctx.own_nodes(f):
                    if isinstance(n, ast.Call) and isinstance(n.func, ast.Attribute) and n.func.attr in ("execute", "executemany", "executescript") \
                            and pat.match("self.db", n.func.value) is not None:
                        nsites += 1
                        inside = self._inside_mutex(f, n)
                        rep.check("C09.R6", stmt_key(f, n), ctx.line(f, n), f is self.execf and inside,
                                  "inside __db_execute under `with self._mutex`",
                                  "raw self.db.%s outside the mutex-protected __db_execute" % n.func.attr, func=f.qname)
        if nsites == 0:
            raise AnalysisError("no self.db.execute call found in SqliteStorage")
        # result rows are drained while the mutex is still held (the connection and its statement cache are shared)
        nfetch = 0
        for c in [self.sqlite] + self.sqlite.all_subclasses():
            for f in c.methods.values():
                live_cursors = set()
                for n in ctx.own_nodes(f):
                    if isinstance(n, ast.Assign) and isinstance(n.value, ast.Call) and isinstance(n.targets[0], ast.Name):
                        s_ = ctx.site_of(f, n.value, "call")
                        if s_ is not None and self.execf in s_.under:
                            fk = [k for k in n.value.keywords if k.arg == "fetch"]
                            if not (fk and isinstance(fk[0].value, ast.Constant) and fk[0].value.value is True):
                                live_cursors.add(n.targets[0].id)
                for n in ctx.own_nodes(f):
                    bad = None
                    if isinstance(n, ast.Call) and isinstance(n.func, ast.Attribute) and n.func.attr in ("fetchall", "fetchone", "fetchmany"):
                        nfetch += 1
                        if not self._inside_mutex(f, n):
                            bad = "`%s` drains a cursor after the mutex was released" % ast.unparse(n)
                        else:
                            rep.ok("C09.R6", stmt_key(f, n), ctx.line(f, n), "rows fetched under `with self._mutex`", func=f.qname)
                    elif isinstance(n, (ast.For, ast.comprehension)) and isinstance(n.iter, ast.Name) and n.iter.id in live_cursors and not self._inside_mutex(f, n):
                        bad = "iteration over live cursor `%s` after the mutex was released" % n.iter.id
                    if bad:
                        rep.violation("C09.R6", stmt_key(f, n if not isinstance(n, ast.comprehension) else n.iter), ctx.line(f, n if hasattr(n, "lineno") else n.iter),
                                      bad + ": a concurrent execute of the same SQL resets the shared statement (rows vanish / short rows)", func=f.qname)
        if nfetch == 0:
            raise AnalysisError("no fetch call found in SqliteStorage (row-draining rule has nothing to check)")

    def _inside_mutex(self, f, node) -> bool:
        for w in self.ctx.own_nodes(f):
            if isinstance(w, ast.With) and any(pat.match("self._mutex", it.context_expr) is not None for it in w.items):
                if any(x is node for b in w.body for x in ast.walk(b)):
                    return True
        return False

    # ---------------------------------------------------------------- R7
    def r7(self):
        rep = self.rep
        rep.rule("C09.R7", "every concrete Storage subclass overrides the five abstract methods with compatible positional "
                 "signatures", expect_min=10)
        abstract = {n: f for n, f in self.storage.methods.items() if f.is_abstract}
        if set(abstract) != {"create", "update", "delete", "read_all", "read"}:
            raise AnalysisError("Storage abstract methods changed: %s" % sorted(abstract))
        for c in self.impls:
            for name, af in abstract.items():
                f = c.lookup(name)
                key = "%s.%s" % (c.name, name)
                if f is None or f is af:
                    rep.violation("C09.R7", key, c.module.relpath + ":%d" % c.node.lineno, "%s does not implement Storage.%s" % (c.name, name))
                    continue
                want = af.params()[1:]
                got = f.params()[1:]
                a = f.node.args
                ndef = len(a.defaults)
                required = got[: len(got) - ndef] if ndef else got
                okk = got[: len(want)] == want or (name == "read_all" and got[:1] == ["tag"])
                okk = okk and len(required) <= len(want)
                rep.check("C09.R7", key, f, okk, "(%s)" % ", ".join(got), "signature (%s) is not compatible with Storage.%s(%s)" % (", ".join(got), name, ", ".join(want)),
                          nontrivial=False)

    # ---------------------------------------------------------------- R8
    def r8(self):
        rep, ctx = self.rep, self.ctx
        rep.rule("C09.R8", "cursor / walk data reach storage only through the Storage interface, with the data tag as `tag`", expect_min=5)
        st = ctx.prog.cls("SyncState")
        for name in ("storage_get_data", "storage_update_data", "storage_delete_tag"):
            f = st.methods.get(name)
            if f is None:
                raise AnalysisError("SyncState.%s vanished" % name)
            tagp = f.params()[1]
            for n in ctx.own_nodes(f):
                if isinstance(n, ast.Call) and isinstance(n.func, ast.Attribute) and pat.match("self._storage", n.func.value) is not None:
                    okk = n.func.attr in ("create", "update", "read", "read_all", "delete") and n.args and isinstance(n.args[0], ast.Name) and n.args[0].id == tagp
                    rep.check("C09.R8", stmt_key(f, n), ctx.line(f, n), okk, "interface call keyed by `%s`" % tagp,
                              "`%s` does not pass the data tag `%s` as the storage tag" % (ast.unparse(n), tagp), func=f.qname, nontrivial=False)

    # ---------------------------------------------------------------- R9
    def r9(self):
        rep, ctx = self.rep, self.ctx
        rep.rule("C09.R9", "create returns an id no live row of that tag uses: SqliteStorage returns the lastrowid of its own INSERT; "
                 "a dict-backed Storage whose backing map is a constructor parameter must derive its first id from that map", expect_min=2)
        # sqlite
        f = self.sqlite.methods["create"]
        ins = [(call, st) for (ff, call, st, _) in self.stmts if ff is f and st.kind == "insert"]
        good = False
        detail = "no INSERT in create()"
        if ins:
            call = ins[0][0]
            cur = None
            for n in ctx.own_nodes(f):
                if isinstance(n, ast.Assign) and n.value is call and isinstance(n.targets[0], ast.Name):
                    cur = n.targets[0].id
            rets = [n for n in ctx.own_nodes(f) if isinstance(n, ast.Return)]
            idvars = set()
            for n in ctx.own_nodes(f):
                if isinstance(n, ast.Assign) and cur and pat.match("%s.lastrowid" % cur, n.value) is not None and isinstance(n.targets[0], ast.Name):
                    idvars.add(n.targets[0].id)
            good = bool(rets) and all(r.value is not None and ((isinstance(r.value, ast.Name) and r.value.id in idvars) or
                                                               (cur and pat.match("%s.lastrowid" % cur, r.value) is not None)) for r in rets)
            detail = "returns lastrowid of its own INSERT" if good else "create() does not return the lastrowid of its INSERT cursor `%s`" % cur
        rep.check("C09.R9", "SqliteStorage.create", f, good, detail, detail)
        # dict-backed implementations
        for c in self.impls:
            if c is self.sqlite:
                continue
            init = c.methods.get("__init__")
            cr = c.methods.get("create")
            if not init or not cr:
                continue
            ctor_params = init.params()[1:]
            if not ctor_params:
                continue
            # attributes of self used to compute the key that create() stores under
            stored_keys = []
            for n in ctx.own_nodes(cr):
                if isinstance(n, ast.Assign) and isinstance(n.targets[0], ast.Subscript):
                    stored_keys.append(n.targets[0].slice)
            counters = set()
            for k in stored_keys:
                names = {x.id for x in ast.walk(k) if isinstance(x, ast.Name)}
                for n in ctx.own_nodes(cr):
                    if isinstance(n, ast.Assign) and isinstance(n.targets[0], ast.Name) and n.targets[0].id in names:
                        for x in ast.walk(n.value):
                            if isinstance(x, ast.Attribute) and isinstance(x.value, ast.Name) and x.value.id == cr.self_name:
                                counters.add(x.attr)
                for x in ast.walk(k):
                    if isinstance(x, ast.Attribute) and isinstance(x.value, ast.Name) and x.value.id == cr.self_name:
                        counters.add(x.attr)
            if not counters:
                continue
            for cn in sorted(counters):
                inits = [n for n in ctx.own_nodes(init) if isinstance(n, (ast.Assign, ast.AnnAssign)) and
                         any(isinstance(t, ast.Attribute) and t.attr == cn for t in (n.targets if isinstance(n, ast.Assign) else [n.target]))]
                dep = any(any(isinstance(x, ast.Name) and x.id in ctor_params for x in ast.walk(n.value)) for n in inits if n.value is not None)
                rep.check("C09.R9", "%s.%s" % (c.name, cn), init, dep, "first id depends on the injected map",
                          "%s.create() keys new rows by self.%s, which starts at a constant whatever rows the injected map `%s` already holds: "
                          "a second instance over the same map hands out a live id again" % (c.name, cn, ctor_params[0]))


def run(ctx: Ctx, rep: Report, tier: str):
    c = C09(ctx, rep)
    try:
        c.extract()
        c.r1_r2()
        c.r3()
    except sql.SqlUndecided as e:
        rep.error("rule=C09.R1-R3 reason=undecided: %s" % e)
        rep.rule("C09.R1", "see DESIGN", 0) if "C09.R1" not in rep.rules else None
    section(rep, c.r4)
    section(rep, c.r5_r6)
    section(rep, c.r7)
    section(rep, c.r8)
    section(rep, c.r9)
    rep.rule("C09.R11", "each Storage method issues its own kind of statement (create: plain INSERT, update: UPDATE, delete: DELETE, read/read_all: SELECT) "
             "with no conflict clause (no INSERT OR REPLACE / upsert): an update can never create a row and a create can never overwrite one", expect_min=5)
    KIND = {"create": "insert", "update": "update", "delete": "delete", "read": "select", "read_all": "select"}
    for f_, call_, st_, _ in c.stmts:
        if f_.name not in KIND:
            continue
        okk = st_.kind == KIND[f_.name] and not st_.conflict and " or " not in (" " + st_.text.lower().split("cloud")[0]) and "on conflict" not in st_.text.lower()
        rep.check("C09.R11", "%s|kind" % short(f_.qname), ctx.line(f_, call_), okk, "%s issues %s" % (f_.name, st_.kind.upper()),
                  "%s issues `%s`: %s" % (f_.name, st_.text[:60], "an update of a missing id silently creates the row instead of failing (a deleted entry is resurrected)" if f_.name == "update"
                                          else "the method's statement kind changed / has a conflict clause that lets it replace another row"))
    rep.rule("C09.R10", "a statement that fails with sqlite3.OperationalError is retried once on a fresh connection, still inside the mutex", expect_min=1)
    ex = c.execf
    hs = [h for t in ctx.own_nodes(ex) if isinstance(t, ast.Try) for h in t.handlers if h.type is not None and "OperationalError" in ast.unparse(h.type)]
    good = bool(hs)
    for h in hs:
        calls = [x for b in h.body for x in ast.walk(b) if isinstance(x, ast.Call)]
        rec = [x for x in calls if pat.match("self.__db_connect()", x) is not None]
        rex = [x for x in calls if pat.match("self.db.execute($$$)", x) is not None]
        good = good and bool(rec) and bool(rex) and c._inside_mutex(ex, rex[0]) and rec[0].lineno <= rex[0].lineno
    rep.check("C09.R10", "__db_execute|reconnect", ex, good, "reconnect, then re-execute, under the mutex", "the reconnect-and-retry arm of __db_execute is gone or no longer re-executes the statement")
    rep.extra["sql_statements"] = [st.text for (_, _, st, _) in c.stmts]
    rep.assume("SQLite itself is durable and assigns INTEGER PRIMARY KEY row ids that are not in use")
    from rules.common import data_rows_follow_storage
    rep.rule("C09.R12", "per-tag data (cursor, walk marker) behaves as one map entry: deleting the tag removes every stored row of it, writing it updates the "
             "stored row when there is one (the id cache is filled from storage first) - never a second row", 2)
    section(rep, lambda: data_rows_follow_storage(ctx, rep, "C09.R12"))
    rep.rule("C09.R13", "tags are compared exactly: the table definition gives no column a COLLATE clause and `tag` is a plain TEXT NOT NULL column (two tags that differ only in "
             "case - two syncs rooted at /Docs and /docs sharing one file - never see each other's rows)", 1)
    for f_, call_, st_, _ in c.stmts:
        if st_.kind == "create_table":
            txt = st_.text
            cols = txt[txt.index("(") + 1: txt.rindex(")")]
            tagdef = [x.strip() for x in cols.split(",") if x.strip().lower().startswith("tag ")]
            okc = "collate" not in txt.lower() and len(tagdef) == 1 and tagdef[0].lower().split() == ["tag", "text", "not", "null"]
            rep.check("C09.R13", "schema|tag-column", ctx.line(f_, call_), okc, "tag TEXT NOT NULL, no collation",
                      "the table is created as `%s`: the tag column (%s) is not compared byte for byte - rows of one tag are read, updated and deleted through another tag" % (txt[:120], tagdef))
    from rules.decisions import decision_table, table_sites
    rep.rule("C09.DT", "decision table (rules/decisions.json) of the sqlite storage backend: for every function and every action shape (an impure call with the parameters it passes, a store to an "
             "attribute or item, a delete, a returned constant, a yield, a raise) the set of states - over the function's guard atoms - in which the action is taken "
             "equals the recorded one; compared as canonical decision diagrams, so any equivalent respelling of the guards is the same table", table_sites("C09"))
    section(rep, lambda: decision_table(ctx, rep, "C09.DT", "C09"))
