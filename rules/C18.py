"""C18 - service loops: bounded geometric backoff, final stop, ordered notifications.

Decided on structure: catch-all around do() (L1), backoff accounting and re-arming (L2), the backoff law as a lattice
normal form (L3), stop observed between calls (L4), cleanup exactly once and wait() really waits (L5), no restart
after a final stop (L6), shutdown published before the loop is signalled (L7), stop_all signals everyone before
joining anyone (L8), FIFO single-delivery notification loop (L9).
Not decided: timing of stop / wake races beyond L4/L7; LongPollManager timing.
"""
from __future__ import annotations

import ast

from sa.model import AnalysisError, FuncInfo
from sa.ctx import Ctx, short, stmt_key
from sa.cfg import NORMAL, describe_path
from sa.report import Report, section
from sa import pat, lattice
from sa.util import fact_in, node_stores_attr
from rules.C08 import cfg_root


def _has_call(n, patt) -> bool:
    r = cfg_root(n)
    return r is not None and any(isinstance(x, ast.Call) and pat.match(patt, x) is not None for x in ast.walk(r))


def _stores(n, attr, value_pat=None) -> bool:
    r = cfg_root(n)
    if r is None or not isinstance(r, (ast.Assign, ast.AugAssign, ast.AnnAssign)):
        return False
    tg = r.targets if isinstance(r, ast.Assign) else [r.target]
    for t in tg:
        if isinstance(t, ast.Attribute) and t.attr == attr and isinstance(t.value, ast.Name) and t.value.id == "self":
            if value_pat is None or (r.value is not None and pat.match(value_pat, r.value) is not None):
                return True
    return False


class C18:
    def __init__(self, ctx: Ctx, rep: Report):
        self.ctx, self.rep = ctx, rep
        self.R = ctx.prog.cls("Runnable")
        self.run = self.R.methods["run"]
        self.g = ctx.cfg(self.run)
        self.do_nodes = [n for n in self.g.nodes if n.kind == "stmt" and _has_call(n, "self.do()")]
        if not self.do_nodes:
            raise AnalysisError("Runnable.run no longer calls self.do()")

    def l1(self):
        rep, ctx = self.rep, self.ctx
        rep.rule("C18.L1", "in Runnable.run the call self.do() sits in a try whose handlers cover BaseException and none re-raises", 1)
        f = self.run
        tries = [t for t in ctx.own_nodes(f) if isinstance(t, ast.Try) and any(
            isinstance(x, ast.Call) and pat.match("self.do()", x) is not None for b in t.body for x in ast.walk(b))]
        tries = [t for t in tries if t.handlers]
        if not tries:
            rep.violation("C18.L1", "run|do()", f, "self.do() is not inside any try/except: one exception kills the service thread")
            return
        inner = tries[-1]
        names = []
        for h in inner.handlers:
            if h.type is None:
                names.append("BaseException")
            else:
                for t in (h.type.elts if isinstance(h.type, ast.Tuple) else [h.type]):
                    names.append(ast.unparse(t).split(".")[-1])
        covers = "BaseException" in names
        reraise = [h for h in inner.handlers if any(isinstance(x, ast.Raise) for b in h.body for x in ast.walk(b))]
        rep.check("C18.L1", "run|do()", ctx.line(f, inner), covers and not reraise, "handlers %s, none re-raises" % names,
                  "handlers around do() are %s%s: an exception can escape the loop and kill the thread" % (names, ", and %d re-raise" % len(reraise) if reraise else ""))
        self.handlers = inner.handlers

    def l2(self):
        rep, ctx, g = self.rep, self.ctx, self.g
        rep.rule("C18.L2", "every failure handler increments the backoff on every path; the success path resets in_backoff only "
                 "under __clear_on_success; the flag is re-armed (set True) on every path into do() and cleared only by "
                 "nothing_happened()", 5)
        f = self.run
        for h in getattr(self, "handlers", []):
            hn = [n for n in g.nodes if n.kind == "except" and n.ast is h]
            for n in hn:
                # from handler entry to wherever the handler body ends: must cross __increment_backoff
                body_ids = {id(x) for b in h.body for x in ast.walk(b)}
                def outside(m, body_ids=body_ids):
                    r = cfg_root(m)
                    return m.kind in ("exit", "raise") or (r is not None and id(r) not in body_ids and m.kind != "join")
                p = g.reach([n.id], outside, avoid=lambda m: _has_call(m, "self.__increment_backoff()"), follow=NORMAL)
                rep.check("C18.L2", "run|handler %s" % (ast.unparse(h.type) if h.type else "bare"), ctx.line(f, h), p is None,
                          "increments the backoff on every path", "a failure handled by this arm does not increase the backoff",
                          witness=describe_path(p) if p else None)
        resets = [n for n in g.nodes if _stores(n, "in_backoff") and pat.match("0", cfg_root(n).value) is not None or
                  (_stores(n, "in_backoff") and isinstance(cfg_root(n).value, ast.Constant) and cfg_root(n).value.value == 0)]
        if not resets:
            raise AnalysisError("Runnable.run: reset of in_backoff to 0 not found")
        for n in resets:
            facts = ctx.facts(f).facts(n)
            rep.check("C18.L2", "run|reset", ctx.line(f, n.ast), fact_in(facts, "self.__clear_on_success", True), "reset guarded by __clear_on_success",
                      "in_backoff is reset without consulting __clear_on_success (a call that did nothing clears the backoff)")
        # re-arm on every path into do()
        rearm = lambda m: _stores(m, "__clear_on_success", "True")   # noqa: E731
        for d in self.do_nodes:
            p = g.reach([g.entry.id, d.id], lambda m: m is d, avoid=rearm)
            rep.check("C18.L2", "run|re-arm", ctx.line(f, d.ast), p is None, "__clear_on_success = True precedes every do()",
                      "do() can be entered with a stale __clear_on_success (set by an earlier call's nothing_happened()): a later successful "
                      "call that did work does not clear the backoff", witness=describe_path(p) if p else None)
        nh = self.R.methods.get("nothing_happened")
        if nh is None:
            raise AnalysisError("Runnable.nothing_happened vanished")
        clears = [n for n in ctx.own_nodes(nh) if isinstance(n, ast.Assign) and isinstance(n.targets[0], ast.Attribute)
                  and n.targets[0].attr == "__clear_on_success" and isinstance(n.value, ast.Constant) and n.value.value is False]
        rep.check("C18.L2", "nothing_happened", nh, len(clears) == 1, "clears the flag", "nothing_happened() no longer clears __clear_on_success")

    def l3(self):
        rep, ctx = self.rep, self.ctx
        rep.rule("C18.L3", "the value assigned in __increment_backoff reduces, in the min/max lattice with MIN <= MAX, to "
                 "max(min(MAX, CUR*MULT), MIN), i.e. min(MAX, MIN*MULT^(k-1)) after k failures from CUR=0; the initial and reset value of in_backoff is 0", 2)
        f = self.R.methods.get("__increment_backoff")
        if f is None:
            raise AnalysisError("Runnable.__increment_backoff vanished")
        assigns = [n for n in ctx.own_nodes(f) if isinstance(n, ast.Assign) and isinstance(n.targets[0], ast.Attribute) and n.targets[0].attr == "in_backoff"]
        if len(assigns) != 1:
            raise AnalysisError("__increment_backoff: expected exactly one assignment to in_backoff, found %d" % len(assigns))

        def term(e):
            if isinstance(e, ast.Call) and isinstance(e.func, ast.Name) and e.func.id in ("min", "max") and len(e.args) >= 2 and not e.keywords:
                parts = [term(a) for a in e.args]
                acc = parts[0]
                for p in parts[1:]:
                    acc = lattice.meet(acc, p) if e.func.id == "min" else lattice.join(acc, p)
                return acc
            if pat.match("self.max_backoff", e) is not None:
                return lattice.atom("MAX")
            if pat.match("self.min_backoff", e) is not None:
                return lattice.atom("MIN")
            if pat.match("self.in_backoff * self.mult_backoff", e) is not None or pat.match("self.mult_backoff * self.in_backoff", e) is not None:
                return lattice.atom("CUR*MULT")
            raise lattice.Undecided("expression `%s` is outside the min/max/x vocabulary" % ast.unparse(e))

        try:
            got = lattice.reduce_nf(term(assigns[0].value), {("MIN", "MAX")})
        except lattice.Undecided as e:
            rep.error("rule=C18.L3 reason=undecided: %s" % e)
            return
        want = lattice.reduce_nf(lattice.join(lattice.meet(lattice.atom("MAX"), lattice.atom("CUR*MULT")), lattice.atom("MIN")), {("MIN", "MAX")})
        show = lambda nf: " max ".join("min(%s)" % ",".join(sorted(m)) for m in sorted(nf, key=sorted))   # noqa: E731
        rep.check("C18.L3", "__increment_backoff", ctx.line(f, assigns[0]), got == want, "normal form %s" % show(got),
                  "backoff update `%s` has normal form [%s], the law requires [%s]" % (ast.unparse(assigns[0].value), show(got), show(want)))
        init = self.R.class_attrs.get("in_backoff")
        rep.check("C18.L3", "in_backoff|initial", self.R.module.relpath + ":%d" % self.R.node.lineno,
                  isinstance(init, ast.Constant) and init.value == 0, "starts at 0", "in_backoff does not start at 0", nontrivial=False)

    def l4(self):
        rep, ctx, g = self.rep, self.ctx, self.g
        rep.rule("C18.L4", "between two calls of do() every path crosses a test of __stopping and __shutdown whose true edge leaves the loop", 2)
        f = self.run

        def is_stop_test(n):
            if n.kind != "test":
                return False
            from sa.guards import nnf
            e = nnf(n.ast)          # same truth value, one spelling (De Morgan forms)
            top = e.values if isinstance(e, ast.BoolOp) and isinstance(e.op, ast.Or) else [e]
            names = {ast.unparse(v) for v in top}
            return "self.__stopping" in names and "self.__shutdown" in names

        tests = [n for n in g.nodes if is_stop_test(n)]
        if not tests:
            rep.violation("C18.L4", "run|stop-test", f, "no test of `self.__stopping or self.__shutdown` left in the loop")
            return
        for d in self.do_nodes:
            p = g.reach([d.id], lambda m: m is d, avoid=lambda m: m in tests)
            rep.check("C18.L4", "run|do->do", ctx.line(f, d.ast), p is None, "%d stop test(s) cut every do()->do() path" % len(tests),
                      "do() can be called again after stop() without the loop looking at __stopping/__shutdown", witness=describe_path(p) if p else None)
            p0 = g.reach([g.entry.id], lambda m: m is d, avoid=lambda m: m in tests)
            rep.check("C18.L4", "run|entry->do", ctx.line(f, d.ast), p0 is None, "the first do() is preceded by a stop test",
                      "the first do() is not preceded by a stop test", witness=describe_path(p0) if p0 else None)
        for t in tests:
            ts = [b for (b, lab) in g.succ[t.id] if lab == "T"]
            p = g.reach(ts, lambda m: m in self.do_nodes, include_src=True)
            rep.check("C18.L4", "run|stop-test-leaves|%d" % tests.index(t), ctx.line(f, t.ast), p is None, "true edge leaves the loop",
                      "the true edge of the stop test still reaches do()", witness=describe_path(p) if p else None)

    def l5(self):
        rep, ctx, g = self.rep, self.ctx, self.g
        rep.rule("C18.L5", "done() has exactly one call site in Runnable, in the finally of run, guarded by __shutdown; __stopped = True "
                 "and __interrupt = None are set on every exit of run; wait() returns without joining only when there is no thread or "
                 "it is the current thread", 4)
        f = self.run
        sites = []
        for m in list(self.R.methods.values()):
            for n in ctx.own_nodes(m):
                if isinstance(n, ast.Call) and pat.match("self.done()", n) is not None:
                    sites.append((m, n))
        fin = [t for t in ctx.own_nodes(f) if isinstance(t, ast.Try) and t.finalbody]
        in_finally = bool(sites) and all(m is f and any(any(x is n for x in ast.walk(b)) for t in fin for b in t.finalbody) for m, n in sites)
        guarded = bool(sites) and all(("self.__shutdown", True) in ctx.facts_at(m, n) for m, n in sites)
        rep.check("C18.L5", "done()|site", f, len(sites) == 1 and in_finally and guarded,
                  "one call, in run's finally, under __shutdown",
                  "done() has %d call site(s) in Runnable (in finally: %s, guarded by __shutdown: %s)" % (len(sites), in_finally, guarded))
        # from the moment the protected region is entered (first statement of the try that carries the finally)
        starts = []
        for t in fin:
            for m in g.nodes:
                if cfg_root(m) is not None and (cfg_root(m) is t.body[0] or (m.kind in ("iter", "test", "with_enter") and m.ast is t.body[0])
                                                 or (m.kind == "test" and m.ast is getattr(t.body[0], "test", None))):
                    starts.append(m.id)
        if not starts:
            raise AnalysisError("Runnable.run: try/finally around the loop not found")
        for attr, vp in (("__stopped", "True"), ("__interrupt", "None")):
            p = g.reach(starts, lambda m: m in (g.exit, g.raise_exit), avoid=lambda m: _stores(m, attr, vp) and self._in_final(m, fin), include_src=False)
            # the stores before the loop (`__stopped = False`) do not count: only those in the finally body
            rep.check("C18.L5", "run|%s" % attr, f, p is None, "self.%s = %s on every exit" % (attr, vp),
                      "run() can exit without self.%s = %s" % (attr, vp), witness=describe_path(p) if p else None)
        w = self.R.methods.get("wait")
        if w is None:
            raise AnalysisError("Runnable.wait vanished")
        gw = ctx.cfg(w)
        joins = [n for n in gw.nodes if _has_call(n, "$T.join($$$)")]
        if not joins:
            rep.violation("C18.L5", "wait|join", w, "wait() no longer joins the service thread")
        else:
            rets = [n for n in gw.nodes if n.kind == "stmt" and isinstance(n.ast, ast.Return)]
            bad = []
            for r in rets:
                if gw.reach([gw.entry.id], lambda m: m is r, avoid=lambda m: m in joins) is None:
                    continue    # every path to this return joined
                facts = ctx.facts(w).facts(r)
                # allowed only under the negation of `thread and current_thread() != thread`
                ok = any((not pol) and ("current_thread" in txt or txt in ("thread", "self.__thread")) for (txt, pol) in facts) or \
                    any(pol and "current_thread" in txt and "==" in txt for (txt, pol) in facts)
                if not ok:
                    bad.append(r)
            rep.check("C18.L5", "wait|returns", w, not bad, "every return without join is on the no-thread / own-thread arm",
                      "wait() can return without joining a live service thread (%s): stop()/wait() returns while do()/done() may still run"
                      % ", ".join("line %d under %s" % (r.lineno, sorted(ctx.facts(w).facts(r))) for r in bad))

    @staticmethod
    def _in_final(m, fins):
        r = cfg_root(m)
        return r is not None and any(any(x is r for x in ast.walk(b)) for t in fins for b in t.finalbody)

    def l6(self):
        rep, ctx = self.rep, self.ctx
        rep.rule("C18.L6", "start() refuses to create a thread once __shutdown is set (the RuntimeError dominates thread creation)", 1)
        f = self.R.methods["start"]
        th = [n for n in ctx.own_nodes(f) if isinstance(n, ast.Call) and pat.match("threading.Thread($$$)", n) is not None]
        if not th:
            raise AnalysisError("Runnable.start no longer creates a threading.Thread")
        for n in th:
            rep.check("C18.L6", "start|Thread", ctx.line(f, n), ("self.__shutdown", False) in ctx.facts_at(f, n), "only reached with __shutdown false",
                      "a service that was stopped for good can be started again (no __shutdown check before Thread creation)")

    def l7(self):
        rep, ctx = self.rep, self.ctx
        rep.rule("C18.L7", "in stop() the store to __shutdown precedes the stores / signals that let the loop exit (__stopping = True, wake())", 1)
        f = self.R.methods["stop"]
        g = ctx.cfg(f)
        sig = [n for n in g.nodes if _stores(n, "__stopping", "True") or _has_call(n, "self.wake()")]
        if not sig:
            raise AnalysisError("Runnable.stop: no __stopping store / wake() found")
        p = g.reach([g.entry.id], lambda m: m in sig, avoid=lambda m: _stores(m, "__shutdown"))
        rep.check("C18.L7", "Runnable.stop", f, p is None, "__shutdown is published first",
                  "stop() signals the loop before publishing __shutdown: run() can read the old value in its finally block and skip done()",
                  witness=describe_path(p) if p else None)
        # forever flows into the flag
        st = [n for n in ctx.own_nodes(f) if isinstance(n, ast.Assign) and isinstance(n.targets[0], ast.Attribute) and n.targets[0].attr == "__shutdown"]
        rep.check("C18.L7", "Runnable.stop|forever", f, bool(st) and all(pat.match("forever", s.value) is not None for s in st), "__shutdown = forever",
                  "__shutdown is not assigned from the `forever` argument", nontrivial=False)

    def l8(self):
        rep, ctx = self.rep, self.ctx
        rep.rule("C18.L8", "stop_all signals every runnable (stop(wait=False)) before it joins the first one", 1)
        f = self.R.methods["stop_all"]
        g = ctx.cfg(f)
        stops = [n for n in g.nodes if _has_call(n, "$R.stop($$$)")]
        waits = [n for n in g.nodes if _has_call(n, "$R.wait($$$)")]
        if not stops or not waits:
            raise AnalysisError("Runnable.stop_all: stop()/wait() calls not found")
        nowait = all(any(k.arg == "wait" and isinstance(k.value, ast.Constant) and k.value.value is False
                         for x in ast.walk(cfg_root(n)) if isinstance(x, ast.Call) and pat.match("$R.stop($$$)", x) is not None for k in x.keywords) for n in stops)
        loops = [n for n in g.nodes if n.kind == "iter" and any(any(x is cfg_root(s) for x in ast.walk(n.ast)) for s in stops)]
        lid = {n.id for n in loops}
        p = g.reach([s.id for s in stops], lambda m: m in waits, follow=lambda a, b, l: not (a in lid and l == "F"))
        rep.check("C18.L8", "Runnable.stop_all", f, nowait and bool(loops) and p is None, "all stop(wait=False) calls precede the first wait()",
                  "stop_all can join one runnable before it has signalled the others (stop(wait=False): %s)" % nowait, witness=describe_path(p) if p else None)
        cs = ctx.prog.func("CloudSync.stop")
        uses = [n for n in ctx.own_nodes(cs) if isinstance(n, ast.Call) and pat.match("self.stop_all(self._runnables, $$$)", n) is not None]
        rep.check("C18.L8", "CloudSync.stop", cs, len(uses) == 1, "delegates to stop_all(self._runnables, ...)",
                  "CloudSync.stop no longer stops all its runnables through stop_all", nontrivial=False)

    def l9(self):
        rep, ctx = self.rep, self.ctx
        rep.rule("C18.L9", "notifications: the queue is a FIFO queue.Queue; notify only puts; do() performs at most one get and one handler "
                 "call per invocation; the handler call is inside try/except Exception without re-raise; None is the only stop marker and stop() enqueues it before signalling", 6)
        N = ctx.prog.cls("NotificationManager")
        init = N.methods["__init__"]
        qa = [n for n in ctx.own_nodes(init) if isinstance(n, (ast.Assign, ast.AnnAssign)) and isinstance((n.targets[0] if isinstance(n, ast.Assign) else n.target), ast.Attribute)
              and (n.targets[0] if isinstance(n, ast.Assign) else n.target).attr == "__queue"]
        good = len(qa) == 1 and qa[0].value is not None and pat.match("queue.Queue()", qa[0].value) is not None
        rep.check("C18.L9", "queue|FIFO", init, good, "queue.Queue()", "the notification queue is `%s`, not an unbounded FIFO queue.Queue()" % (ast.unparse(qa[0].value) if qa and qa[0].value else None))
        nt = N.methods["notify"]
        calls = [n for n in ctx.own_nodes(nt) if isinstance(n, ast.Call) and isinstance(n.func, ast.Attribute) and pat.match("self.__queue", n.func.value) is not None]
        good = len(calls) == 1 and pat.match("self.__queue.put(%s)" % nt.params()[1], calls[0]) is not None
        rep.check("C18.L9", "notify|put", nt, good, "one put of the notification", "notify() does more / other than one put of its argument")
        do = N.methods["do"]
        g = ctx.cfg(do)
        gets = [n for n in g.nodes if _has_call(n, "self.__queue.get($$$)")]
        hcalls = [n for n in g.nodes if _has_call(n, "self.__handler($$$)")]
        if not gets or not hcalls:
            raise AnalysisError("NotificationManager.do: queue get / handler call not found")
        multi = g.reach([n.id for n in gets], lambda m: m in gets)
        multih = g.reach([n.id for n in hcalls], lambda m: m in hcalls)
        rep.check("C18.L9", "do|one-get", do, multi is None and multih is None, "at most one get and one delivery per do()",
                  "do() can take or deliver more than one notification per call", witness=describe_path(multi or multih) if (multi or multih) else None)
        # handler call in try / except Exception without re-raise
        tries = [t for t in ctx.own_nodes(do) if isinstance(t, ast.Try) and any(isinstance(x, ast.Call) and pat.match("self.__handler($$$)", x) is not None
                                                                                 for b in t.body for x in ast.walk(b))]
        good = bool(tries) and any(any(h.type is not None and ast.unparse(h.type).split(".")[-1] in ("Exception", "BaseException") or h.type is None for h in t.handlers)
                                   and not any(isinstance(x, ast.Raise) for h in t.handlers for b in h.body for x in ast.walk(b)) for t in tries)
        rep.check("C18.L9", "do|handler-guard", do, good, "handler exceptions are swallowed", "an exception from the application's handler escapes do()")
        # None is the stop marker; handler only called with non-None
        good = all(any(pol is False and txt.endswith("is None") for (txt, pol) in ctx.facts(do).facts(n)) for n in hcalls)
        rep.check("C18.L9", "do|None-marker", do, good, "handler only sees non-None items", "the stop marker None can reach the application's handler")
        st = N.methods["stop"]
        gs = ctx.cfg(st)
        sup = [n for n in gs.nodes if _has_call(n, "super().stop($$$)")]
        p = gs.reach([gs.entry.id], lambda m: m in sup, avoid=lambda m: _has_call(m, "self.__queue.put(None)"))
        rep.check("C18.L9", "stop|marker-first", st, bool(sup) and p is None, "None enqueued before the loop is signalled",
                  "NotificationManager.stop signals the loop without enqueuing the stop marker first (the blocking get never returns)")


    def l10_l11(self):
        rep, ctx = self.rep, self.ctx
        rep.rule("C18.L10", "a service that stops itself from inside its loop (stop(forever=False) reached from do()) does so only when no stop is pending "
                 "(guard `self.stopped` false): a final stop() can never be downgraded to a restartable one", 1)
        n = 0
        for c_ in [self.R] + self.R.all_subclasses():
            do = c_.methods.get("do")
            if do is None:
                continue
            for call in ctx.own_nodes(do):
                if isinstance(call, ast.Call) and isinstance(call.func, ast.Attribute) and call.func.attr == "stop" and \
                        (pat.match("super().stop($$$)", call) is not None or pat.match("self.stop($$$)", call) is not None):
                    fv = [k.value for k in call.keywords if k.arg == "forever"] + call.args[:1]
                    final = bool(fv) and isinstance(fv[0], ast.Constant) and fv[0].value is True
                    if final:
                        continue
                    n += 1
                    rep.check("C18.L10", "%s|self-stop" % short(do.qname), ctx.line(do, call), fact_in(ctx.facts_at(do, call), "self.stopped", False),
                              "self-stop only when not already stopping", "the loop's own stop(forever=False) is not guarded by `not self.stopped`: it overwrites the "
                              "__shutdown flag of a final stop() that is in progress (the service can be restarted, done() is skipped)")
        if n == 0:
            raise AnalysisError("no self-stop found in any Runnable.do (NotificationManager.do changed)")
        rep.rule("C18.L11", "start() clears the stop request (__stopping = False) only after all its refusals: no path leads from that store to a raise, "
                 "so a refused start never revives a loop that was asked to stop", 1)
        f = self.R.methods["start"]
        g = ctx.cfg(f)
        st = [x for x in g.nodes if node_stores_attr(x, "__stopping")]
        if not st:
            raise AnalysisError("Runnable.start no longer clears __stopping")
        raises = [x for x in g.nodes if x.kind == "stmt" and isinstance(x.ast, ast.Raise)]
        joins = [x for x in g.nodes if _has_call(x, "$T.join($$$)")]
        pth = g.reach([x.id for x in st], lambda m: m in raises or m in joins, follow=NORMAL)
        rep.check("C18.L11", "start|clear-after-refusals", f, pth is None, "__stopping = False after the alive checks",
                  "start() clears __stopping before it knows the old thread is gone: the old loop keeps running / a refused start cancels a stop request",
                  witness=describe_path(pth) if pth else None)


def run(ctx: Ctx, rep: Report, tier: str):
    c = C18(ctx, rep)
    section(rep, c.l1)
    section(rep, c.l2)
    section(rep, c.l3)
    section(rep, c.l4)
    section(rep, c.l5)
    section(rep, c.l6)
    section(rep, c.l7)
    section(rep, c.l8)
    section(rep, c.l9)
    section(rep, c.l10_l11)
    rep.assume("threading.Thread / Event / queue.Queue behave as documented")
    from rules.common import start_rechecks_after_join
    rep.rule("C18.L12", "one loop per service: start() re-checks is_alive() after the grace join before it creates a thread (C15.R4)", 1)
    section(rep, lambda: start_rechecks_after_join(ctx, rep, "C18.L12"))
    rep.rule("C18.L13", "the time actually waited after a failing step is the backoff value itself: in run(), under `in_backoff > 0` the loop sleeps self.in_backoff, "
             "otherwise the regular cadence", 2)
    rf = ctx.prog.cls("Runnable").methods["run"]
    sleepp = rf.params()[1] if len(rf.params()) > 1 else "sleep"
    sl = [n for n in ctx.own_nodes(rf) if isinstance(n, ast.Call) and pat.match("self.interruptable_sleep($X)", n) is not None]
    if not sl:
        raise AnalysisError("Runnable.run no longer sleeps between steps")
    seen = set()
    for c_ in sl:
        facts = ctx.facts_at(rf, c_)
        arg = ast.unparse(c_.args[0])
        if fact_in(facts, "self.in_backoff > 0", True):
            seen.add("backoff")
            rep.check("C18.L13", "run|backoff-wait", ctx.line(rf, c_), arg == "self.in_backoff", "waits in_backoff", "in backoff the loop waits `%s`, not the backoff value" % arg)
        elif fact_in(facts, "self.in_backoff > 0", False):
            seen.add("cadence")
            rep.check("C18.L13", "run|regular-wait", ctx.line(rf, c_), arg == sleepp, "waits the regular cadence", "outside backoff the loop waits `%s`, not the cadence `%s`" % (arg, sleepp))
        else:
            rep.violation("C18.L13", "run|wait", ctx.line(rf, c_), "the wait `%s` is not selected by `in_backoff > 0`: after a failure the service waits something other than "
                          "min(max, min*mult^(k-1)) (e.g. the regular cadence when that is larger)" % arg)
    if seen != {"backoff", "cadence"} and all(i.verdict != "violation" for i in rep.instances if i.rule == "C18.L13"):
        rep.violation("C18.L13", "run|wait", rf, "run() does not have both waits (backoff value / regular cadence); found %s" % sorted(seen))
    rep.rule("C18.L14", "an override of stop() in a service forwards the caller's `forever` AND `wait` to Runnable.stop (stop_all's signal-all-then-join-all relies on "
             "stop(wait=False) not joining)", 2)
    R_ = ctx.prog.cls("Runnable")
    base = R_.methods["stop"]
    bparams = [p_ for p_ in base.params()[1:]]
    n14 = 0
    for c_ in R_.all_subclasses():
        ov = c_.methods.get("stop")
        if ov is None:
            continue
        sup = [x for x in ctx.own_nodes(ov) if isinstance(x, ast.Call) and pat.match("super().stop($$$)", x) is not None]
        agg = [x for x in ctx.own_nodes(ov) if isinstance(x, ast.Call) and pat.match("self.stop_all($$$)", x) is not None]
        if not sup and agg:
            # an aggregate of services (CloudSync): it must hand both arguments to stop_all
            n14 += 1
            own = ov.params()[1:]
            used = {x.id for a_ in agg for x in ast.walk(a_) if isinstance(x, ast.Name)}
            lost = [p_ for p_ in bparams if p_ in own and p_ not in used]
            rep.check("C18.L14", "%s.stop|forwards" % c_.name, ctx.line(ov, agg[0]), not lost, "hands %s to stop_all" % [p_ for p_ in bparams if p_ in own],
                      "%s.stop does not hand %s to stop_all" % (c_.name, lost))
            continue
        if not sup:
            rep.violation("C18.L14", "%s.stop|super" % c_.name, ov, "%s.stop does not call Runnable.stop: the service is never asked to stop" % c_.name)
            n14 += 1
            continue
        for s_ in sup:
            n14 += 1
            fixed = {k.arg: k.value for k in s_.keywords}
            for i_, a_ in enumerate(s_.args):
                if i_ < len(bparams):
                    fixed[bparams[i_]] = a_
            own = set(ov.params()[1:])
            lost = []
            for p_ in bparams:
                if p_ in own:
                    v_ = fixed.get(p_)
                    # forwarded as is, or deliberately fixed to a constant (NotificationManager's self-stop passes forever=False)
                    if v_ is None or (isinstance(v_, ast.Name) and v_.id != p_):
                        lost.append(p_)
            rep.check("C18.L14", "%s.stop|forwards" % c_.name, ctx.line(ov, s_), not lost, "forwards %s" % [p_ for p_ in bparams if p_ in own],
                      "%s.stop accepts %s but does not forward it to Runnable.stop: a caller's stop(wait=False) joins the thread (stop_all signals the remaining services "
                      "only after that join - or never, if the caller holds what the service waits for)" % (c_.name, lost))
    if n14 == 0:
        raise AnalysisError("no stop() override found in any Runnable subclass")
    from rules.common import wait_joins_unless_own_thread
    rep.rule("C18.L15", "wait() really waits (C15.R5): exact join condition", 1)
    section(rep, lambda: wait_joins_unless_own_thread(ctx, rep, "C18.L15"))
    from rules.common import notifications_go_through_the_queue
    rep.rule("C18.L16", "ordered notifications: the engine never calls the application's notification handler itself - every notification goes through the "
             "NotificationManager's queue and is delivered by its loop", 1)
    section(rep, lambda: notifications_go_through_the_queue(ctx, rep, "C18.L16"))
    from rules.decisions import decision_table, table_sites
    rep.rule("C18.DT", "decision table (rules/decisions.json) of the runnable service loop, notification delivery and the start / stop / wait entry points: for every function and every action shape (an impure call with the parameters it passes, a store to an "
             "attribute or item, a delete, a returned constant, a yield, a raise) the set of states - over the function's guard atoms - in which the action is taken "
             "equals the recorded one; compared as canonical decision diagrams, so any equivalent respelling of the guards is the same table", table_sites("C18"))
    section(rep, lambda: decision_table(ctx, rep, "C18.DT", "C18"))
