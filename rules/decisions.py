"""The decision table of the sync state machine (DESIGN.md 7.12).

For the functions that decide what happens to an entry, every *decision site* - a `return`, a call of a handler / state method, a store to the entry's
priority / ignore status - is recorded together with the path condition under which it is reached (guard facts, compound literals in negation normal form,
boolean locals expanded into their single definition, local names generalised to metavariables).  `rules/decisions.json` (written by
`tools/gen_decisions.py`, read through before it was committed) is today's table; the rule compares, per (function, site shape), the multiset of path
conditions on the current tree with the table's.

What this is: a detector for any change of WHEN the state machine takes which action - a negated test, a swapped and/or, a dropped or added conjunct, a
wrong side in a guard - in code that no specific rule was written for.  What it is not: a statement that today's conditions are right, nor a check of
the actions' arguments (the specific rules do that).  It is insensitive to everything the canonicalisations absorb: operand order, De Morgan forms,
guard clauses vs nested ifs, swapped if/else arms, renamed locals, extracted / hoisted helpers and locals, added logging.
"""
from __future__ import annotations

import ast
import re
import json
import os
from typing import Dict, List

from sa.model import AnalysisError
from sa.ctx import Ctx
from sa.report import Report
from sa.guards import literals

DECISION_FUNCTIONS = [
    "SyncManager.sync", "SyncManager.pre_sync", "SyncManager.embrace_change", "SyncManager.handle_path_change_or_creation", "SyncManager.check_disjoint_create",
    "SyncManager.handle_hash_diff", "SyncManager.handle_rename", "SyncManager.delete_synced", "SyncManager._handle_dir_delete_not_empty",
    "SyncManager.handle_cloud_file_not_found_error", "SyncManager.handle_changed_is_missing", "SyncManager.create_synced", "SyncManager.mkdir_synced",
    "SyncManager.unsafe_mkdir_synced", "SyncManager.handle_split_conflict", "SyncManager.check_rename_is_delete_create", "SyncManager._get_untrashed_peers",
    "SyncManager.get_folder_file_conflict", "SyncManager._get_parent_conflict", "SyncManager._get_child_conflict", "SyncManager.check_revivify",
    "SmartSyncManager.pre_sync", "SyncState.unconditionally_get_no_info", "SyncState.finished", "SyncManager.finished",
]


def _generalise(txt: str) -> str:
    from rules.common import generalise
    return generalise(txt)


class _Norm:
    """Per-function normaliser of fact / site expressions: hoisted aliases are replaced by what they stand for, and every side expression by a role token
    (SIDE0 = the function's first side base - its side parameter or loop variable -, OTHER0 = its complement, LOCAL / REMOTE for constants), so that
    `sync[synced]`, `sync[OTHER_SIDE[changed]]`, `sync[other]` with `other = other_side(changed)` all read `sync[OTHER0]` - and `sync[changed]` does not."""

    def __init__(self, ctx: Ctx, f):
        from sa.sides import SideAnalysis, canon as scanon
        self.ctx, self.f = ctx, f
        sa = getattr(ctx, "_decision_sides", None)
        if sa is None:
            sa = ctx._decision_sides = SideAnalysis(ctx)
        self.sa, self.scanon = sa, scanon
        defs: Dict[str, List[ast.AST]] = {}
        for n in ctx.own_nodes(f):
            if isinstance(n, (ast.Assign, ast.AnnAssign)) and getattr(n, "value", None) is not None:
                tg = n.targets[0] if isinstance(n, ast.Assign) else n.target
                if isinstance(tg, ast.Name):
                    defs.setdefault(tg.id, []).append(n.value)
            elif isinstance(n, (ast.For, ast.comprehension)) and isinstance(n.target, ast.Name):
                defs.setdefault(n.target.id, []).append(None)
                defs[n.target.id].append(None)      # loop variables are never single-definition aliases
        self.defs = {k: [x for x in v] for k, v in defs.items()}
        self.alias = {}
        for k, v in defs.items():
            if len(v) == 1 and v[0] is not None:
                e0 = v[0]
                if all(isinstance(x, (ast.Attribute, ast.Subscript, ast.Name, ast.Load, ast.Constant)) for x in ast.walk(e0)) and not isinstance(e0, (ast.Name, ast.Constant)) \
                        and not (isinstance(e0, ast.Subscript) and isinstance(e0.value, ast.Name) and e0.value.id == "OTHER_SIDE"):
                    self.alias[k] = e0
        # names used in a side position, and the bases they resolve to
        cand = []
        for n in sorted([x for x in ctx.own_nodes(f) if isinstance(x, (ast.Subscript, ast.Call, ast.BinOp))], key=lambda x: (x.lineno, x.col_offset)):
            e = None
            if isinstance(n, ast.Subscript):
                e = n.slice
            elif isinstance(n, ast.Call) and isinstance(n.func, ast.Name) and n.func.id == "other_side" and len(n.args) == 1:
                e = n.args[0]
            elif isinstance(n, ast.BinOp) and isinstance(n.op, ast.Sub) and isinstance(n.left, ast.Constant) and n.left.value == 1:
                e = n.right
            if isinstance(e, ast.Name) and e.id not in ("LOCAL", "REMOTE") and e.id not in self.alias:
                cand.append(e.id)
        self.side_names = set(cand)
        params = [p for p in f.all_param_names()]
        bases: List[str] = []
        for nm in [p for p in params if p in self.side_names] + cand:
            sd = self.sa.side_expr(f, ast.Name(id=nm, ctx=ast.Load()))
            if sd is not None and not sd[0].startswith("#") and sd[0] not in bases:
                bases.append(sd[0])
        self.bases = bases

    def token(self, e):
        sd = self.scanon(self.sa.side_expr(self.f, e))
        if sd is None:
            return None
        if sd[0] == "#0":
            return "LOCAL"
        if sd[0] == "#1":
            return "REMOTE"
        if sd[0] in self.bases:
            return "%s%d" % ("OTHER" if sd[1] else "SIDE", self.bases.index(sd[0]))
        return None

    def expr(self, e: ast.AST) -> ast.AST:
        me = self

        class U(ast.NodeTransformer):
            def _tok(self, n):
                t = me.token(n)
                return ast.copy_location(ast.Name(id=t, ctx=ast.Load()), n) if t else None

            def visit_Name(self, n):
                if isinstance(n.ctx, ast.Load) and n.id in me.alias:
                    return ast.copy_location(self.visit(ast.parse(ast.unparse(me.alias[n.id]), mode="eval").body), n)
                if n.id in me.side_names:
                    return self._tok(n) or n
                return n

            def visit_Subscript(self, n):
                if isinstance(n.value, ast.Name) and n.value.id == "OTHER_SIDE":
                    return self._tok(n) or self.generic_visit(n)
                return self.generic_visit(n)

            def visit_Call(self, c):
                if isinstance(c.func, ast.Name) and c.func.id == "other_side" and len(c.args) == 1:
                    return self._tok(c) or self.generic_visit(c)
                return self.generic_visit(c)

            def visit_BinOp(self, b):
                if isinstance(b.op, ast.Sub) and isinstance(b.left, ast.Constant) and b.left.value == 1:
                    return self._tok(b) or self.generic_visit(b)
                return self.generic_visit(b)
        return U().visit(ast.parse(ast.unparse(e), mode="eval").body)

    def txt(self, txt: str) -> str:
        try:
            e = ast.parse(txt, mode="eval").body
        except SyntaxError:
            return txt
        return ast.unparse(self.expr(e))


def _norm(ctx: Ctx, f) -> _Norm:
    cache = ctx.__dict__.setdefault("_decision_norms", {})
    if f.qname not in cache:
        cache[f.qname] = _Norm(ctx, f)
    return cache[f.qname]


def expand_facts(ctx: Ctx, f, facts, depth: int = 3):
    """facts with boolean locals replaced by the literals of their (single) definition: `x = a and not b; if x:` gives (a, T), (b, F); then normalised (_Norm)."""
    nm = _norm(ctx, f)
    defs = nm.defs
    out = set(facts)
    for _ in range(depth):
        new = set()
        changed = False
        for (txt, pol) in out:
            try:
                e = ast.parse(txt, mode="eval").body
            except SyntaxError:
                new.add((txt, pol))
                continue
            if isinstance(e, ast.Name) and len(defs.get(e.id, [])) == 1 and isinstance(defs[e.id][0], (ast.BoolOp, ast.Compare, ast.UnaryOp)) \
                    and not any(isinstance(x, (ast.Call, ast.Await, ast.Yield)) and not _pure_call(x) for x in ast.walk(defs[e.id][0])):
                new |= literals(defs[e.id][0], pol)
                changed = True
            else:
                new.add((txt, pol))
        out = new
        if not changed:
            break
    return {(nm.txt(t), p) for (t, p) in out}


def _pure_call(c) -> bool:
    from sa.defassign import _PURE
    nm = c.func.attr if isinstance(c.func, ast.Attribute) else (c.func.id if isinstance(c.func, ast.Name) else "")
    return bool(_PURE.match(nm))


def _is_log(call: ast.Call) -> bool:
    f = call.func
    while isinstance(f, (ast.Attribute, ast.Call)):
        f = f.value if isinstance(f, ast.Attribute) else f.func
    return isinstance(f, ast.Name) and f.id in ("log", "logging", "print")


def decision_sites(ctx: Ctx):
    """(group key, function, node, facts) for every decision site of DECISION_FUNCTIONS."""
    out = []
    for spec in DECISION_FUNCTIONS:
        try:
            f0 = ctx.prog.func(spec)
        except AnalysisError:
            continue
        from sa.util import with_private_helpers
        from sa.reinline import inventory
        known = set(inventory().get(f0.module.name, []))
        fs = [f0] + [h for h in with_private_helpers(ctx, f0)[1:] if h.cls is None or "%s.%s" % (h.cls.name, h.name) not in known]
        for f in fs:
            g = ctx.cfg(f)
            for n in g.nodes:
                if n.kind != "stmt" or n.ast is None:
                    continue
                st = n.ast
                shapes = []
                if isinstance(st, ast.Return):
                    v = st.value
                    if v is None or (isinstance(v, ast.Constant) and v.value is None):
                        pass        # `return` / `return None` is what falling off the end does: not a site (guard-clause style would add and remove them)
                    elif isinstance(v, (ast.Constant, ast.Name)) or (isinstance(v, ast.Tuple) and all(isinstance(e, (ast.Constant, ast.Name)) for e in v.elts)):
                        shapes.append("return " + (_generalise(ast.unparse(v)) if v is not None and not isinstance(v, ast.Constant) else ast.unparse(v) if v is not None else "None"))
                    elif isinstance(v, ast.Call):
                        shapes.append("return " + _call_shape(v, _norm(ctx, f)))
                    else:
                        shapes.append("return <expr>")
                elif isinstance(st, ast.Expr) and isinstance(st.value, ast.Call) and not _is_log(st.value):
                    if not (isinstance(st.value.func, ast.Attribute) and st.value.func.attr in ("append", "extend", "add", "insert", "update", "sort", "remove", "discard", "pop")
                            and not ast.unparse(st.value.func.value).startswith("self")):
                        shapes.append(_call_shape(st.value, _norm(ctx, f)))
                elif isinstance(st, ast.Continue):
                    shapes.append("continue")
                elif isinstance(st, ast.Raise):
                    shapes.append("raise " + (ast.unparse(st.exc.func) if isinstance(st.exc, ast.Call) else (ast.unparse(st.exc) if st.exc is not None else "")))
                elif isinstance(st, (ast.Assign, ast.AugAssign)):
                    tg = st.targets[0] if isinstance(st, ast.Assign) else st.target
                    if isinstance(tg, ast.Attribute) and tg.attr in ("priority", "ignored", "exists", "changed", "sync_path", "sync_hash", "oid", "path", "hash"):
                        shapes.append("store %s.%s" % (_generalise(ast.unparse(_norm(ctx, f).expr(tg.value))), tg.attr))
                    elif isinstance(tg, ast.Subscript) and isinstance(st, ast.Assign) and isinstance(st.value, ast.Subscript):
                        shapes.append("graft %s" % _generalise("(%s, %s)" % (ast.unparse(_norm(ctx, f).expr(tg)), ast.unparse(_norm(ctx, f).expr(st.value)))))
                    elif isinstance(st, ast.Assign) and isinstance(st.value, ast.Call) and not _is_log(st.value) and isinstance(st.value.func, ast.Attribute) \
                            and ast.unparse(st.value.func.value).startswith("self"):
                        shapes.append("call " + _call_shape(st.value, _norm(ctx, f)))
                for sh in shapes:
                    if not ctx.facts(f).reachable(n):
                        continue
                    facts = expand_facts(ctx, f, ctx.facts(f).facts(n) if f is f0 else ctx.facts_inlined(f, st))
                    out.append(("%s|%s" % (spec, sh), f, st, facts))
    return out


_TOKEN = re.compile(r"^(SIDE\d+|OTHER\d+|LOCAL|REMOTE)$")


def _call_shape(c: ast.Call, nm: "_Norm" = None) -> str:
    """receiver kind, method and the side arguments: `self.update_entry(sync, synced, ...)` is `self.update_entry(OTHER0)`"""
    if nm is not None:
        c = nm.expr(c)
    fn = c.func
    sides = [a.id for a in c.args if isinstance(a, ast.Name) and _TOKEN.match(a.id)] + \
            ["%s=%s" % (k.arg, k.value.id) for k in c.keywords if k.arg and isinstance(k.value, ast.Name) and _TOKEN.match(k.value.id)]
    if isinstance(fn, ast.Attribute):
        recv = ast.unparse(fn.value)
        sub = "[%s]" % fn.value.slice.id if isinstance(fn.value, ast.Subscript) and isinstance(fn.value.slice, ast.Name) and _TOKEN.match(fn.value.slice.id) else ""
        recv = "self" if recv == "self" else ("self.state" if recv == "self.state" else ("self.providers" + (sub or "[$s]") if recv.startswith("self.providers[") else
               ("self._nmgr" if recv in ("self._nmgr", "self.nmgr") else "$o" + sub)))
        return "%s.%s(%s)" % (recv, fn.attr, ", ".join(sides))
    return "%s(%s)" % (ast.unparse(fn), ", ".join(sides))


def table_path():
    return os.path.join(os.path.dirname(os.path.abspath(__file__)), "decisions.json")


def build_table(ctx: Ctx):
    from rules.common import generalise
    t: Dict[str, List] = {}
    for key, f, st, facts in decision_sites(ctx):
        t.setdefault(key, []).append(sorted([generalise(x), p] for (x, p) in facts))
    for k in t:
        t[k].sort()
    return t


def decision_table(ctx: Ctx, rep: Report, rid: str, functions=None):
    """Every decision site of the state machine is reached under one of the path conditions the table records for (function, site shape)."""
    from rules.common import _match_condition
    table = json.load(open(table_path()))
    groups: Dict[str, List] = {}
    for key, f, st, facts in decision_sites(ctx):
        if functions is not None and key.split("|")[0] not in functions:
            continue
        groups.setdefault(key, []).append((f, st, facts))
    n = 0
    for key in sorted(set(groups) | {k for k in table if functions is None or k.split("|")[0] in functions}):
        sites = groups.get(key, [])
        conds = [[(t, p) for (t, p) in c] for c in table.get(key, [])]
        if not conds:
            for (f, st, facts) in sites:
                rep.violation(rid, key, ctx.line(f, st), "`%s` in %s is a decision site the table does not have (reached under %s)" % (ast.unparse(st).split("\n")[0][:60], f.name, sorted(facts)), func=f.qname)
            continue
        if not sites:
            rep.violation(rid, key, "-", "the %d decision site(s) `%s` of the table are gone from the current tree" % (len(conds), key))
            continue
        free = list(range(len(conds)))
        pending = []
        for (f, st, facts) in sites:
            hit = [j for j in free if _match_condition(facts, conds[j]) == ([], [])]
            if hit:
                free.remove(hit[0])
                n += 1
                rep.ok(rid, "%s@%d" % (key, hit[0] + 1), ctx.line(f, st), "under %s" % (sorted(facts) or "no condition"), nontrivial=bool(facts), func=f.qname)
            else:
                pending.append((f, st, facts))
        for (f, st, facts) in pending:
            cand = [conds[j] for j in free] or conds
            best = min(cand, key=lambda w: sum(len(x) for x in _match_condition(facts, w)))
            extra, missing = _match_condition(facts, best)
            rep.violation(rid, key, ctx.line(f, st), "`%s` in %s is reached under %s; the table's closest condition for this site is %s (extra: %s, missing: %s) - the state "
                          "machine takes this action in a different set of states" % (ast.unparse(st).split("\n")[0][:60], f.name, sorted(facts), best, extra, missing), func=f.qname)
        if free and not pending:
            rep.violation(rid, key, sites[0][0], "%d of the %d sites `%s` of the table are gone from the current tree" % (len(free), len(conds), key))
    want = sum(len(v) for k, v in table.items() if functions is None or k.split("|")[0] in functions)
    if n * 2 < want or not want:
        raise AnalysisError("only %d of the table's %d decision sites matched - the decision functions were not found" % (n, want))
